package main

// globals: translator (go/ast + go/types) for C19.  Lists every package-level `var` of every
// package of the module (non-test files) and every USE of such a variable inside a function body
// or a package-level initialiser, classified as URead / UIndexRead / UWrite / UEscape, with the
// enclosing function and whether the use sits inside a function literal.  Identifiers are resolved
// with go/types (a local variable or parameter that shadows a global is not a use).  Packages of
// the module are type-checked from source out of VERIF_REPO; the standard library through the
// "source" importer (GOROOT/src, cgo off); third-party packages are replaced by EMPTY packages and
// type errors are tolerated (identifiers of the module still resolve; the classification of a call
// into a third-party package goes by the callee's NAME).  Output: gen/Globals.v.  Interprets nothing.
//
//   probe globals          the Coq table
//   probe globals lines    one TSV line per use with file:line (diagnostics of a broken theorem)

import (
	"fmt"
	"go/ast"
	"go/build"
	"go/importer"
	"go/parser"
	"go/token"
	"go/types"
	"os"
	"path/filepath"
	"sort"
	"strings"
)

// packages the parse / typecheck / execute pipeline is made of (directories under the module root;
// "." is the main package).  Everything else that exists is listed as outside the pipeline.
var globalsPipeline = map[string]bool{".": true, "types": true, "parser": true, "process": true, "cmd": true, "position": true}

type gPkg struct {
	rel    string // directory relative to the module root
	path   string // import path
	name   string
	files  []*ast.File
	fnames []string
	tpkg   *types.Package
	info   *types.Info
	nerr   int
	busy   bool
}

type gLoader struct {
	fset   *token.FileSet
	repo   string
	module string
	pkgs   map[string]*gPkg // by import path
	std    types.Importer
	fake   map[string]*types.Package
}

func (l *gLoader) Import(path string) (*types.Package, error) { return l.ImportFrom(path, "", 0) }

func (l *gLoader) ImportFrom(path, dir string, mode types.ImportMode) (*types.Package, error) {
	if p, ok := l.pkgs[path]; ok {
		if p.busy {
			return nil, fmt.Errorf("import cycle through %s", path)
		}
		l.check(p)
		return p.tpkg, nil
	}
	first := strings.SplitN(path, "/", 2)[0]
	if !strings.Contains(first, ".") && path != l.module && !strings.HasPrefix(path, l.module+"/") {
		if p, err := l.std.Import(path); err == nil {
			return p, nil
		}
	}
	if p, ok := l.fake[path]; ok {
		return p, nil
	}
	p := types.NewPackage(path, path[strings.LastIndex(path, "/")+1:])
	p.MarkComplete()
	l.fake[path] = p
	return p, nil
}

func (l *gLoader) check(p *gPkg) {
	if p.tpkg != nil {
		return
	}
	p.busy = true
	p.info = &types.Info{Uses: map[*ast.Ident]types.Object{}, Defs: map[*ast.Ident]types.Object{},
		Types: map[ast.Expr]types.TypeAndValue{}, Selections: map[*ast.SelectorExpr]*types.Selection{}}
	conf := types.Config{Importer: l, Error: func(error) { p.nerr++ }, FakeImportC: true}
	tp, _ := conf.Check(p.path, l.fset, p.files, p.info)
	p.tpkg = tp
	p.busy = false
}

func globalsLoad(repo string) (*gLoader, []*gPkg) {
	build.Default.CgoEnabled = false
	fset := token.NewFileSet()
	l := &gLoader{fset: fset, repo: repo, module: "grits", pkgs: map[string]*gPkg{}, fake: map[string]*types.Package{}}
	if b, err := os.ReadFile(filepath.Join(repo, "go.mod")); err == nil {
		for _, ln := range strings.Split(string(b), "\n") {
			if f := strings.Fields(ln); len(f) == 2 && f[0] == "module" {
				l.module = f[1]
			}
		}
	}
	l.std = importer.ForCompiler(fset, "source", nil)
	ctxt := build.Default
	ctxt.BuildTags = []string{"verif"}
	var pkgs []*gPkg
	filepath.Walk(repo, func(path string, fi os.FileInfo, err error) error {
		if err != nil || !fi.IsDir() {
			return nil
		}
		base := fi.Name()
		if path != repo && (strings.HasPrefix(base, ".") || strings.HasPrefix(base, "_") || base == "vendor" || base == "testdata") {
			return filepath.SkipDir
		}
		ents, _ := os.ReadDir(path)
		var names []string
		for _, e := range ents {
			n := e.Name()
			if e.IsDir() || !strings.HasSuffix(n, ".go") || strings.HasSuffix(n, "_test.go") {
				continue
			}
			if ok, err := ctxt.MatchFile(path, n); err != nil || !ok {
				continue
			}
			names = append(names, n)
		}
		if len(names) == 0 {
			return nil
		}
		sort.Strings(names)
		rel, _ := filepath.Rel(repo, path)
		p := &gPkg{rel: filepath.ToSlash(rel)}
		if p.rel == "." {
			p.path = l.module
		} else {
			p.path = l.module + "/" + p.rel
		}
		for _, n := range names {
			f, err := parser.ParseFile(fset, filepath.Join(path, n), nil, 0)
			if err != nil {
				fmt.Fprintln(os.Stderr, err)
				os.Exit(1)
			}
			p.files = append(p.files, f)
			p.fnames = append(p.fnames, n)
			p.name = f.Name.Name
		}
		l.pkgs[p.path] = p
		pkgs = append(pkgs, p)
		return nil
	})
	sort.Slice(pkgs, func(i, j int) bool { return pkgs[i].rel < pkgs[j].rel })
	for _, p := range pkgs {
		l.check(p)
	}
	return l, pkgs
}

// ---------------------------------------------------------------------------------------
// classification
// ---------------------------------------------------------------------------------------

func isSyncType(t types.Type) bool {
	if t == nil {
		return false
	}
	if p, ok := t.(*types.Pointer); ok {
		t = p.Elem()
	}
	if n, ok := t.(*types.Named); ok && n.Obj().Pkg() != nil {
		pp := n.Obj().Pkg().Path()
		return pp == "sync" || pp == "sync/atomic"
	}
	return false
}

func containsSync(t types.Type, depth int) bool {
	if t == nil || depth > 6 {
		return false
	}
	if isSyncType(t) {
		return true
	}
	switch u := t.Underlying().(type) {
	case *types.Struct:
		for i := 0; i < u.NumFields(); i++ {
			if containsSync(u.Field(i).Type(), depth+1) {
				return true
			}
		}
	case *types.Array:
		return containsSync(u.Elem(), depth+1)
	}
	return false
}

func gKind(t types.Type) string {
	if t == nil {
		return "GOther"
	}
	if containsSync(t, 0) {
		return "GSync"
	}
	switch u := t.Underlying().(type) {
	case *types.Basic:
		if u.Kind() == types.Invalid {
			return "GOther"
		}
		return "GScalar"
	case *types.Map:
		return "GMap"
	case *types.Slice:
		return "GSlice"
	case *types.Array:
		return "GArray"
	case *types.Pointer:
		return "GPointer"
	case *types.Struct:
		return "GStruct"
	case *types.Signature:
		return "GFunc"
	case *types.Chan:
		return "GChan"
	case *types.Interface:
		return "GIface"
	}
	return "GOther"
}

// a value of this type carries no reference to memory it shares with the variable it was read from
func valueLike(t types.Type, depth int) bool {
	if t == nil || depth > 6 {
		return false
	}
	if isSyncType(t) {
		return false
	}
	switch u := t.Underlying().(type) {
	case *types.Basic:
		return u.Kind() != types.Invalid && u.Kind() != types.UnsafePointer
	case *types.Struct:
		for i := 0; i < u.NumFields(); i++ {
			if !valueLike(u.Field(i).Type(), depth+1) {
				return false
			}
		}
		return true
	case *types.Array:
		return valueLike(u.Elem(), depth+1)
	case *types.Tuple:
		for i := 0; i < u.Len(); i++ {
			if !valueLike(u.At(i).Type(), depth+1) {
				return false
			}
		}
		return true
	}
	return false
}

// functions known not to modify (or keep) what their arguments refer to
func knownPure(pkg, name string) bool {
	switch pkg {
	case "fmt":
		return strings.Contains(name, "rint") || name == "Errorf" || strings.HasPrefix(name, "Append")
	case "log":
		return strings.HasPrefix(name, "Print") || strings.HasPrefix(name, "Fatal") || strings.HasPrefix(name, "Panic")
	case "strings", "strconv", "unicode", "unicode/utf8":
		return true
	case "slices", "golang.org/x/exp/slices":
		switch name {
		case "Contains", "ContainsFunc", "Index", "IndexFunc", "Equal", "EqualFunc", "Compare", "BinarySearch", "Max", "Min", "IsSorted":
			return true
		}
	case "reflect":
		return name == "DeepEqual" || name == "TypeOf"
	case "errors":
		return name == "Is"
	case "bytes":
		return name == "Equal" || name == "Contains" || name == "Compare"
	}
	return false
}

type gUse struct {
	vpkg, vname, fpkg, fn, kind string
	closure                     bool
	file                        string
	line                        int
	ext                         bool
}

type gVar struct {
	pkg, name, typ, kind, init string
	pipeline                   bool
}

type gClassifier struct {
	l *gLoader
	p *gPkg
}

func (c *gClassifier) typeOf(e ast.Expr) types.Type {
	if tv, ok := c.p.info.Types[e]; ok {
		return tv.Type
	}
	if id, ok := e.(*ast.Ident); ok {
		if o := c.p.info.Uses[id]; o != nil {
			return o.Type()
		}
	}
	return nil
}

func unparen(e ast.Expr) ast.Expr {
	for {
		p, ok := e.(*ast.ParenExpr)
		if !ok {
			return e
		}
		e = p.X
	}
}

// callee of a call: ("", builtin name, true) for builtins, (import path, name, false) for pkg.F, ("", "", false) otherwise
func (c *gClassifier) callee(call *ast.CallExpr) (pkg, name string, builtin bool) {
	switch f := unparen(call.Fun).(type) {
	case *ast.Ident:
		if _, ok := c.p.info.Uses[f].(*types.Builtin); ok {
			return "", f.Name, true
		}
	case *ast.SelectorExpr:
		if id, ok := f.X.(*ast.Ident); ok {
			if pn, ok := c.p.info.Uses[id].(*types.PkgName); ok {
				return pn.Imported().Path(), f.Sel.Name, false
			}
		}
	}
	return "", "", false
}

func readKind(idx bool) string {
	if idx {
		return "UIndexRead"
	}
	return "URead"
}

// classify the use whose syntax node is `base` (the identifier, or pkg.Ident); stack = ancestors, innermost last
func (c *gClassifier) classify(base ast.Expr, stack []ast.Node) string {
	if bt := c.typeOf(base); bt == nil || gKind(bt) == "GOther" {
		return "UEscape" // the variable's type is unknown (it comes from a package that was not loaded)
	}
	node := base
	idx := false
	i := len(stack) - 1
	for ; i >= 0; i-- {
		switch p := stack[i].(type) {
		case *ast.ParenExpr:
			node = p
			continue
		case *ast.SelectorExpr:
			if p.X != node {
				break
			}
			if sel := c.p.info.Selections[p]; sel != nil && (sel.Kind() == types.MethodVal || sel.Kind() == types.MethodExpr) {
				// must be called at once
				var up ast.Node = p
				j := i - 1
				for ; j >= 0; j-- {
					if pe, ok := stack[j].(*ast.ParenExpr); ok {
						up = pe
						continue
					}
					break
				}
				called := false
				if j >= 0 {
					if ce, isCall := stack[j].(*ast.CallExpr); isCall && ce.Fun == up {
						called = true
					}
				}
				if !called {
					return "UEscape" // method value
				}
				recvT := c.typeOf(node)
				if containsSync(recvT, 0) || isSyncType(recvT) {
					return "UWrite"
				}
				fn, _ := sel.Obj().(*types.Func)
				if fn == nil {
					return "UEscape"
				}
				sig := fn.Type().(*types.Signature)
				if sig.Recv() != nil {
					if _, isPtr := sig.Recv().Type().(*types.Pointer); isPtr {
						return "UWrite"
					}
					if types.IsInterface(sig.Recv().Type()) || (recvT != nil && types.IsInterface(recvT)) {
						if fn.Name() == "Error" || fn.Name() == "String" {
							return readKind(idx)
						}
						return "UEscape"
					}
				}
				if valueLike(recvT, 0) {
					return readKind(idx)
				}
				return "UEscape"
			}
			node = p
			continue
		case *ast.IndexExpr:
			if p.X == node {
				node = p
				idx = true
				continue
			}
		case *ast.SliceExpr:
			if p.X == node {
				node = p
				continue
			}
		case *ast.StarExpr:
			node = p
			continue
		case *ast.TypeAssertExpr:
			if p.X == node {
				node = p
				continue
			}
		case *ast.CallExpr:
			if tv, ok := c.p.info.Types[p.Fun]; ok && tv.IsType() && len(p.Args) == 1 && p.Args[0] == node {
				node = p // conversion
				continue
			}
		}
		break
	}
	top := node
	T := c.typeOf(top)
	flow := func() string { // the value goes somewhere we do not follow
		if valueLike(T, 0) {
			return readKind(idx)
		}
		return "UEscape"
	}
	if i < 0 {
		return flow()
	}
	switch p := stack[i].(type) {
	case *ast.AssignStmt:
		for _, l := range p.Lhs {
			if l == top {
				return "UWrite"
			}
		}
		return flow()
	case *ast.IncDecStmt:
		return "UWrite"
	case *ast.UnaryExpr:
		if p.Op == token.AND || p.Op == token.ARROW {
			return "UWrite"
		}
		return readKind(idx)
	case *ast.SendStmt:
		if p.Chan == top {
			return "UWrite"
		}
		return flow()
	case *ast.RangeStmt:
		if p.X == top {
			if _, isChan := typeUnder(T).(*types.Chan); isChan {
				return "UWrite"
			}
			return "UIndexRead"
		}
		if p.Key == top || p.Value == top {
			return "UWrite"
		}
		return flow()
	case *ast.BinaryExpr:
		return readKind(idx)
	case *ast.IfStmt, *ast.ForStmt, *ast.SwitchStmt, *ast.CaseClause, *ast.ExprStmt:
		return readKind(idx)
	case *ast.IndexExpr, *ast.SliceExpr: // top is an index / a bound
		return readKind(idx)
	case *ast.CallExpr:
		if p.Fun == top {
			return readKind(idx) // calling the function held by the variable
		}
		arg := -1
		for k, a := range p.Args {
			if a == top {
				arg = k
			}
		}
		pkg, name, builtin := c.callee(p)
		if builtin {
			switch name {
			case "len", "cap", "min", "max", "print", "println", "panic", "real", "imag", "complex":
				return readKind(idx)
			case "delete", "close", "clear":
				return "UWrite"
			case "append":
				if arg == 0 {
					return "UWrite"
				}
				if p.Ellipsis.IsValid() && arg == len(p.Args)-1 {
					if s, ok := typeUnder(T).(*types.Slice); ok && valueLike(s.Elem(), 0) {
						return "UIndexRead"
					}
					return "UEscape"
				}
				return flow()
			case "copy":
				if arg == 0 {
					return "UWrite"
				}
				return "UIndexRead"
			}
			return flow()
		}
		if valueLike(T, 0) {
			return readKind(idx)
		}
		if name != "" && knownPure(pkg, name) {
			return readKind(idx)
		}
		return "UWrite" // a reference handed to a function we know nothing about
	}
	return flow()
}

// os.Stdout / os.Stderr: WRITING TO the stream (a method call, handing the *os.File to a function) is
// output, which the host model accounts for as such; only re-pointing the variable (assignment, its
// address taken) counts as a write of package-level state.
func classifyStream(base ast.Expr, stack []ast.Node) string {
	var node ast.Node = base
	for i := len(stack) - 1; i >= 0; i-- {
		switch p := stack[i].(type) {
		case *ast.ParenExpr:
			node = p
			continue
		case *ast.AssignStmt:
			for _, l := range p.Lhs {
				if l == node {
					return "UWrite"
				}
			}
		case *ast.UnaryExpr:
			if p.Op == token.AND {
				return "UWrite"
			}
		}
		break
	}
	return "URead"
}

func typeUnder(t types.Type) types.Type {
	if t == nil {
		return nil
	}
	return t.Underlying()
}

func recvName(fd *ast.FuncDecl) string {
	if fd.Recv == nil || len(fd.Recv.List) == 0 {
		return fd.Name.Name
	}
	t := fd.Recv.List[0].Type
	for {
		switch x := t.(type) {
		case *ast.StarExpr:
			t = x.X
			continue
		case *ast.ParenExpr:
			t = x.X
			continue
		case *ast.IndexExpr:
			t = x.X
			continue
		case *ast.IndexListExpr:
			t = x.X
			continue
		}
		break
	}
	if id, ok := t.(*ast.Ident); ok {
		return id.Name + "." + fd.Name.Name
	}
	return "?." + fd.Name.Name
}

func initShape(e ast.Expr) string {
	switch x := unparen(e).(type) {
	case *ast.BasicLit:
		return "ILiteral"
	case *ast.Ident:
		return "IIdent"
	case *ast.CompositeLit:
		return "IComposite"
	case *ast.FuncLit:
		return "IFuncLit"
	case *ast.CallExpr:
		return "ICall"
	case *ast.UnaryExpr:
		if _, ok := unparen(x.X).(*ast.CompositeLit); ok && x.Op == token.AND {
			return "IComposite"
		}
		if _, ok := unparen(x.X).(*ast.BasicLit); ok {
			return "ILiteral"
		}
	}
	return "IOther"
}

func globalsCollect(repo string) (pkgs []*gPkg, vars []gVar, uses []gUse, inits [][3]string) {
	l, pkgs := globalsLoad(repo)
	pkgRel := map[*types.Package]string{}
	for _, p := range pkgs {
		if p.tpkg != nil {
			pkgRel[p.tpkg] = p.rel
		}
	}
	relName := func(rel string) string {
		if rel == "." {
			return "main"
		}
		return rel
	}
	for _, p := range pkgs {
		c := &gClassifier{l, p}
		walk := func(root ast.Node, fn string, file string) {
			var stack []ast.Node
			ast.Inspect(root, func(n ast.Node) bool {
				if n == nil {
					stack = stack[:len(stack)-1]
					return true
				}
				if id, ok := n.(*ast.Ident); ok {
					if v, ok := p.info.Uses[id].(*types.Var); ok && !v.IsField() && v.Pkg() != nil && v.Parent() == v.Pkg().Scope() {
						var base ast.Expr = id
						st := stack
						if len(st) > 0 {
							if se, ok := st[len(st)-1].(*ast.SelectorExpr); ok && se.Sel == id {
								base = se
								st = st[:len(st)-1]
							}
						}
						closure := false
						for _, a := range st {
							if _, ok := a.(*ast.FuncLit); ok {
								closure = true
							}
						}
						vrel, inModule := pkgRel[v.Pkg()]
						u := gUse{vname: v.Name(), fpkg: relName(p.rel), fn: fn, closure: closure,
							file: filepath.ToSlash(filepath.Join(p.rel, file)), line: l.fset.Position(id.Pos()).Line}
						if inModule {
							u.vpkg = relName(vrel)
						} else {
							u.vpkg = v.Pkg().Path()
							u.ext = true
						}
						if u.ext && u.vpkg == "os" && (u.vname == "Stdout" || u.vname == "Stderr") {
							u.kind = classifyStream(base, st)
						} else {
							u.kind = c.classify(base, st)
						}
						uses = append(uses, u)
					}
				}
				stack = append(stack, n)
				return true
			})
		}
		for fi, f := range p.files {
			for _, d := range f.Decls {
				switch x := d.(type) {
				case *ast.FuncDecl:
					if x.Recv == nil && x.Name.Name == "init" {
						inits = append(inits, [3]string{relName(p.rel), p.fnames[fi], ""})
					}
					if x.Body != nil {
						walk(x.Body, recvName(x), p.fnames[fi])
					}
				case *ast.GenDecl:
					if x.Tok != token.VAR {
						continue
					}
					for _, s := range x.Specs {
						vs := s.(*ast.ValueSpec)
						for k, nm := range vs.Names {
							if nm.Name == "_" {
								continue
							}
							obj, _ := p.info.Defs[nm].(*types.Var)
							gv := gVar{pkg: relName(p.rel), name: nm.Name, pipeline: globalsPipeline[p.rel], init: "INone", kind: "GOther"}
							if obj != nil {
								gv.kind = gKind(obj.Type())
								gv.typ = types.TypeString(obj.Type(), types.RelativeTo(p.tpkg))
							}
							if vs.Type != nil {
								gv.typ = types.ExprString(vs.Type)
							}
							if len(vs.Values) == len(vs.Names) {
								gv.init = initShape(vs.Values[k])
							} else if len(vs.Values) > 0 {
								gv.init = "ICall"
							}
							vars = append(vars, gv)
						}
						for _, e := range vs.Values {
							nm := "_"
							if len(vs.Names) > 0 {
								nm = vs.Names[0].Name
							}
							walk(e, "var:"+nm, p.fnames[fi])
						}
					}
				}
			}
		}
	}
	return
}

func dumpGlobals(repo string, lines bool) {
	pkgs, vars, uses, inits := globalsCollect(repo)
	if lines {
		for _, u := range uses {
			fmt.Printf("%s\t%s\t%s\t%s\t%s\t%v\t%s:%d\n", u.vpkg, u.vname, u.fpkg, u.fn, u.kind, u.closure, u.file, u.line)
		}
		return
	}
	sort.Slice(vars, func(i, j int) bool {
		if vars[i].pkg != vars[j].pkg {
			return vars[i].pkg < vars[j].pkg
		}
		return vars[i].name < vars[j].name
	})
	type key struct {
		vpkg, vname, fpkg, fn, kind string
		closure, ext                bool
	}
	cnt := map[key]int{}
	for _, u := range uses {
		cnt[key{u.vpkg, u.vname, u.fpkg, u.fn, u.kind, u.closure, u.ext}]++
	}
	var keys []key
	for k := range cnt {
		keys = append(keys, k)
	}
	sort.Slice(keys, func(i, j int) bool {
		a, b := keys[i], keys[j]
		if a.vpkg != b.vpkg {
			return a.vpkg < b.vpkg
		}
		if a.vname != b.vname {
			return a.vname < b.vname
		}
		if a.fpkg != b.fpkg {
			return a.fpkg < b.fpkg
		}
		if a.fn != b.fn {
			return a.fn < b.fn
		}
		if a.kind != b.kind {
			return a.kind < b.kind
		}
		return !a.closure && b.closure
	})
	fmt.Println("(* GENERATED by `probe globals` from the non-test Go files of every package of /repo (go/ast + go/types). Do not edit. *)")
	fmt.Println("Require Import Grits.Base Grits.GlobalsDefs.")
	fmt.Println()
	fmt.Println("(* package (directory; main = the module root), in the parse/typecheck/execute pipeline, number of files read *)")
	fmt.Print("Definition packages : list (string * bool * nat) := [")
	for i, p := range pkgs {
		if i > 0 {
			fmt.Print("; ")
		}
		nm := p.rel
		if nm == "." {
			nm = "main"
		}
		fmt.Printf("(%s, %s, %d)", coqString(nm), coqBool(globalsPipeline[p.rel]), len(p.files))
	}
	fmt.Println("].")
	fmt.Println()
	fmt.Println("(* package, name, declared type, kind, shape of the initialiser, package is in the pipeline *)")
	fmt.Println("Definition globals : list gvar := [")
	for i, v := range vars {
		if i > 0 {
			fmt.Println(";")
		}
		fmt.Printf("  mkGvar %s %s %s %s %s %s", coqString(v.pkg), coqString(v.name), coqString(v.typ), v.kind, v.init, coqBool(v.pipeline))
	}
	fmt.Println("].")
	fmt.Println()
	emit := func(name string, ext bool) {
		fmt.Printf("Definition %s : list guse := [", name)
		first := true
		for _, k := range keys {
			if k.ext != ext {
				continue
			}
			if !first {
				fmt.Print(";")
			}
			first = false
			fmt.Printf("\n  mkGuse %s %s %s %s %s %s %d", coqString(k.vpkg), coqString(k.vname), coqString(k.fpkg), coqString(k.fn), k.kind, coqBool(k.closure), cnt[k])
		}
		fmt.Println("].")
		fmt.Println()
	}
	fmt.Println("(* variable's package, variable, function's package, function (var:x = initialiser of x), use, inside a function literal, occurrences *)")
	emit("global_uses", false)
	fmt.Println("(* uses of package-level variables of packages outside the module (variable's package = import path) *)")
	emit("extern_uses", true)
	fmt.Println("(* package-level func init(): package, file *)")
	fmt.Print("Definition init_funcs : list (string * string) := [")
	for i, x := range inits {
		if i > 0 {
			fmt.Print("; ")
		}
		fmt.Printf("(%s, %s)", coqString(x[0]), coqString(x[1]))
	}
	fmt.Println("].")
}

func init() {
	register("globals", func(a []string) { dumpGlobals(repoRoot(), len(a) > 0 && a[0] == "lines") })
}
