module probe

go 1.21

require grits v0.0.0

require golang.org/x/exp v0.0.0-20240808152545-0cdaa3abc0fa // indirect

replace grits => /repo
