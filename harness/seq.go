package main

// seq <casefile> <timeout_ms>: parse, typecheck and (when accepted and closed) execute EVERY program
// of the case file, one after another, inside THIS one OS process — the pattern of the web server
// and of the benchmark driver.  Per program: verdict and the `> label` lines captured while it ran
// (stdout is redirected to a pipe per program, so that output of goroutines left over by an
// earlier program shows up in a later program's capture).

import (
	"bytes"
	"context"
	"fmt"
	"io"
	"os"
	"strings"
	"sync"
	"time"

	gparser "grits/parser"
	"grits/process"
)

// the environment re-used across the programs of a history in `seqre` mode (InitializeProcesses
// accepts an existing environment and re-initialises it: the pattern of a long-lived driver)
var sharedRE *process.RuntimeEnvironment

// notc: skip the typechecker (the CLI's --notypecheck); runOpen: execute accepted programs with assumed names too
var seqNoTC, seqRunOpen bool

// seqcancel: a program whose text starts with the comment `// CANCEL-AFTER` is run with a delay of 15 ms per
// transition and CANCELLED FROM OUTSIDE (the CancelFunc NewRuntimeEnvironment hands to its host, as the web server
// uses it) 120 ms after it started.  The capture of that program is kept open for a grace period after the
// cancellation, so that a transition that was already past its cancellation point still prints into the capture of
// its own run; the labels of a cancelled run are not reported (they depend on the timer), only the verdict CANCELLED.
var seqCancel bool
var seqProcs int

func seqOne(text string, timeoutMs int, reuse bool) (verdict string, out string) {
	seqProcs = -1
	realStdout := os.Stdout
	r, w, err := os.Pipe()
	if err != nil {
		return "PIPE-ERR", ""
	}
	os.Stdout = w
	var buf bytes.Buffer
	var wg sync.WaitGroup
	wg.Add(1)
	go func() { defer wg.Done(); io.Copy(&buf, r) }()
	defer func() {
		os.Stdout = realStdout
		w.Close()
		wg.Wait()
		r.Close()
		out = buf.String()
	}()
	procs, assumed, env, perr := gparser.ParseString(text)
	if perr != nil {
		return "PARSE-ERR", ""
	}
	env.LogLevels = []process.LogLevel{}
	seqProcs = len(procs)
	if !seqNoTC {
		if err := process.Typecheck(procs, assumed, env); err != nil {
			return "REJECT", ""
		}
	}
	if len(assumed) > 0 && !seqRunOpen {
		return "ACCEPT-OPEN", ""
	}
	if reuse {
		if sharedRE == nil {
			sharedRE = &process.RuntimeEnvironment{UseMonitor: false, Color: false, ExecutionVersion: process.NORMAL_ASYNC, Typechecked: true, Delay: 0, Quiet: false}
		}
		sharedRE.GlobalEnvironment = env
		sharedRE = process.InitializeProcesses(procs, nil, nil, sharedRE)
		return "RAN", ""
	}
	re, _, cancel := process.NewRuntimeEnvironment()
	re.GlobalEnvironment = env
	re.UseMonitor = false
	re.Color = false
	re.Delay = 0
	re.ExecutionVersion = process.NORMAL_ASYNC
	re.Typechecked = !seqNoTC
	channels := re.CreateChannelForEachProcess(procs)
	re.SubstituteNameInitialization(procs, channels)
	var cancelF context.CancelFunc = cancel
	cancelled := false
	if seqCancel && strings.HasPrefix(text, "// CANCEL-AFTER") {
		re.Delay = 15 * time.Millisecond
		cancelled = true
		go func() { time.Sleep(120 * time.Millisecond); cancel() }()
	}
	go re.HeartbeatReceiver(time.Duration(timeoutMs)*time.Millisecond, cancelF)
	re.StartTransitions(procs)
	select {
	case <-re.Ctx().Done():
		if cancelled {
			time.Sleep(600 * time.Millisecond)
			return "CANCELLED", ""
		}
		return "RAN", ""
	case e := <-re.ErrorChan():
		return "RUNTIME-ERROR " + e.Error(), ""
	}
}

func seqCmd(args []string) { seqRun(args, false) }
func seqReCmd(args []string) { seqRun(args, true) }

func seqRun(args []string, reuse bool) {
	timeoutMs := 250
	if len(args) > 1 {
		fmt.Sscanf(args[1], "%d", &timeoutMs)
	}
	for _, c := range readCases(args[0]) {
		v, out := seqOne(c.text, timeoutMs, reuse)
		var labels []string
		if v == "CANCELLED" {
			out = ""
		}
		for _, l := range strings.Split(out, "\n") {
			if strings.HasPrefix(l, "> ") {
				labels = append(labels, l[2:])
			}
		}
		fmt.Fprintf(os.Stdout, "%s\t%s\t%s\t%d\n", c.id, v, strings.Join(labels, ","), seqProcs)
	}
	fmt.Fprintln(os.Stdout, "@@SEQ-DONE")
}

func seqNcCmd(args []string)   { seqNoTC = true; seqRun(args, false) }
func seqOpenCmd(args []string) { seqRunOpen = true; seqRun(args, false) }
func seqCancelCmd(args []string) { seqCancel = true; seqRun(args, false) }

func init() {
	register("seq", seqCmd)
	register("seqre", seqReCmd)
	register("seqnc", seqNcCmd)
	register("seqopen", seqOpenCmd)
	register("seqcancel", seqCancelCmd)
}
