package main

// seq <casefile> <timeout_ms>: parse, typecheck and (when accepted and closed) execute EVERY program
// of the case file, one after another, inside THIS one OS process — the pattern of the web server
// and of the benchmark driver.  Per program: verdict and the `> label` lines captured while it ran
// (stdout is redirected to a pipe per program, so that output of goroutines left over by an
// earlier program shows up in a later program's capture).

import (
	"bytes"
	"context"
	"fmt"
	"io"
	"os"
	"strings"
	"sync"
	"time"

	gparser "grits/parser"
	"grits/process"
)

func seqOne(text string, timeoutMs int) (verdict string, out string) {
	realStdout := os.Stdout
	r, w, err := os.Pipe()
	if err != nil {
		return "PIPE-ERR", ""
	}
	os.Stdout = w
	var buf bytes.Buffer
	var wg sync.WaitGroup
	wg.Add(1)
	go func() { defer wg.Done(); io.Copy(&buf, r) }()
	defer func() {
		os.Stdout = realStdout
		w.Close()
		wg.Wait()
		r.Close()
		out = buf.String()
	}()
	procs, assumed, env, perr := gparser.ParseString(text)
	if perr != nil {
		return "PARSE-ERR", ""
	}
	env.LogLevels = []process.LogLevel{}
	if err := process.Typecheck(procs, assumed, env); err != nil {
		return "REJECT", ""
	}
	if len(assumed) > 0 {
		return "ACCEPT-OPEN", ""
	}
	re, _, cancel := process.NewRuntimeEnvironment()
	re.GlobalEnvironment = env
	re.UseMonitor = false
	re.Color = false
	re.Delay = 0
	re.ExecutionVersion = process.NORMAL_ASYNC
	re.Typechecked = true
	channels := re.CreateChannelForEachProcess(procs)
	re.SubstituteNameInitialization(procs, channels)
	var cancelF context.CancelFunc = cancel
	go re.HeartbeatReceiver(time.Duration(timeoutMs)*time.Millisecond, cancelF)
	re.StartTransitions(procs)
	select {
	case <-re.Ctx().Done():
		return "RAN", ""
	case e := <-re.ErrorChan():
		return "RUNTIME-ERROR " + e.Error(), ""
	}
}

func seqCmd(args []string) {
	timeoutMs := 250
	if len(args) > 1 {
		fmt.Sscanf(args[1], "%d", &timeoutMs)
	}
	for _, c := range readCases(args[0]) {
		v, out := seqOne(c.text, timeoutMs)
		var labels []string
		for _, l := range strings.Split(out, "\n") {
			if strings.HasPrefix(l, "> ") {
				labels = append(labels, l[2:])
			}
		}
		fmt.Fprintf(os.Stdout, "%s\t%s\t%s\n", c.id, v, strings.Join(labels, ","))
	}
	fmt.Fprintln(os.Stdout, "@@SEQ-DONE")
}

func init() { register("seq", seqCmd) }
