package main

// tcwatch: ONE program text (hex argument), process.Typecheck called in the main goroutine of this
// fresh OS process under a 10 s watchdog, then the process is kept alive for N ms and observed:
//   VERDICT <ACCEPT|REJECT|REJECT-INTERNAL|PARSE-ERR|HANG> [phase=<class of the error message>]
//   LEFTOVER base=<goroutines before the call> before=<right after the return> after=<N ms later> grace_ms=<extra wait used>
//   INSIDE <n> <function[state]; ...>      goroutines still inside grits/process after the wait
// Exit code 0.  A crash that happens later than the verdict (a leaked worker overflowing its stack,
// a panic in a goroutine Typecheck left behind) kills this process: non-zero exit AFTER the VERDICT line.
//
// tcphase: batch variant for statistics only (case file): `<verdict> <phase>` per case.

import (
	"encoding/hex"
	"fmt"
	"os"
	"runtime"
	"sort"
	"strings"
	"time"

	gparser "grits/parser"
	"grits/process"
)

func init() {
	register("tcwatch", tcwatch)
	register("tcphase", func(a []string) { runCases(a[0], 10*time.Second, tcPhaseObs) })
}

// which part of Typecheck produced the error (by message prefix; used for coverage statistics only,
// never compared with the model)
func errPhase(msg string) string {
	switch {
	case strings.HasPrefix(msg, "internal typechecker error"):
		return "internal"
	case strings.Contains(msg, "typechecking error in function"):
		return "body-fun"
	case strings.Contains(msg, "typechecking error in process"):
		return "body-prc"
	case strings.Contains(msg, "function definition") || strings.Contains(msg, ") function "):
		return "prelim-fun"
	case strings.Contains(msg, "process definition") || strings.Contains(msg, ") process ") ||
		strings.Contains(msg, "type error in process") || strings.Contains(msg, "assum"):
		return "prelim-prc"
	default:
		return "types"
	}
}

func tcPhaseObs(text string) string {
	procs, assumed, env, err := gparser.ParseString(text)
	if err != nil {
		return "PARSE-ERR -"
	}
	env.LogLevels = []process.LogLevel{}
	if err := process.Typecheck(procs, assumed, env); err != nil {
		ph := errPhase(err.Error())
		if ph == "internal" {
			return "REJECT-INTERNAL internal"
		}
		return "REJECT " + ph
	}
	return "ACCEPT ok"
}

// goroutines (other than the caller) that have a frame inside grits/process
func insideProcess() []string {
	buf := make([]byte, 1<<22)
	n := runtime.Stack(buf, true)
	var out []string
	for i, g := range strings.Split(string(buf[:n]), "\n\n") {
		if i == 0 {
			continue // the goroutine calling runtime.Stack (main)
		}
		lines := strings.Split(g, "\n")
		m := goroutineHdr.FindStringSubmatch(lines[0])
		if m == nil {
			continue
		}
		for _, l := range lines[1:] {
			if strings.HasPrefix(l, "grits/process.") || strings.HasPrefix(l, "grits/types.") || strings.HasPrefix(l, "created by grits/process.") {
				fn := strings.TrimPrefix(strings.TrimPrefix(l, "created by "), "grits/")
				if j := strings.LastIndex(fn, "("); j > 0 {
					fn = fn[:j]
				}
				if j := strings.Index(fn, " in goroutine"); j > 0 {
					fn = fn[:j]
				}
				out = append(out, fn+"["+m[1]+"]")
				break
			}
		}
	}
	sort.Strings(out)
	return out
}

func tcwatch(args []string) {
	// args: wait_ms hextext
	var waitMs int
	fmt.Sscanf(args[0], "%d", &waitMs)
	b, _ := hex.DecodeString(args[1])
	procs, assumed, env, err := gparser.ParseString(string(b))
	if err != nil {
		fmt.Println("VERDICT PARSE-ERR")
		return
	}
	env.LogLevels = []process.LogLevel{}
	base := runtime.NumGoroutine()
	watchdog := time.AfterFunc(10*time.Second, func() {
		fmt.Println("VERDICT HANG")
		fmt.Printf("INSIDE %d %s\n", len(insideProcess()), strings.Join(insideProcess(), "; "))
		os.Stdout.Sync()
		os.Exit(0)
	})
	terr := process.Typecheck(procs, assumed, env)
	watchdog.Stop()
	before := runtime.NumGoroutine()
	switch {
	case terr == nil:
		fmt.Println("VERDICT ACCEPT phase=ok")
	case strings.HasPrefix(terr.Error(), "internal typechecker error"):
		fmt.Println("VERDICT REJECT-INTERNAL phase=internal " + strings.ReplaceAll(terr.Error(), "\n", " "))
	default:
		fmt.Println("VERDICT REJECT phase=" + errPhase(terr.Error()))
	}
	os.Stdout.Sync()
	time.Sleep(time.Duration(waitMs) * time.Millisecond)
	after := runtime.NumGoroutine()
	inside := insideProcess()
	// On a loaded machine the worker may simply not have been scheduled yet: before reporting a
	// leftover, give it a grace period (a blocked worker stays, a runaway one stays or crashes us)
	grace := 0
	for (after > base || len(inside) > 0) && grace < 10*waitMs+3000 {
		time.Sleep(50 * time.Millisecond)
		grace += 50
		after = runtime.NumGoroutine()
		inside = insideProcess()
	}
	fmt.Printf("LEFTOVER base=%d before=%d after=%d grace_ms=%d\n", base, before, after, grace)
	fmt.Printf("INSIDE %d %s\n", len(inside), strings.Join(inside, "; "))
}
