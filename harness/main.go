package main

import (
	"fmt"
	"os"
)

func usage() {
	fmt.Fprintln(os.Stderr, "usage: probe <subcommand> [args]")
	os.Exit(2)
}

func main() {
	if len(os.Args) < 2 {
		usage()
	}
	switch os.Args[1] {
	case "modes":
		dumpModes()
	case "modecall":
		modeCall(os.Args[2:])
	default:
		usage()
	}
}
