package main

import (
	"fmt"
	"os"
	"sort"
	"time"
)

// Subcommands register themselves (from init functions in their own files), so that adding one
// does not touch this file.
var subcommands = map[string]func(args []string){}

func register(name string, f func(args []string)) { subcommands[name] = f }

func usage() {
	names := make([]string, 0, len(subcommands))
	for k := range subcommands {
		names = append(names, k)
	}
	sort.Strings(names)
	fmt.Fprintln(os.Stderr, "usage: probe <subcommand> [args]; subcommands:", names)
	os.Exit(2)
}

func repoRoot() string {
	if r := os.Getenv("VERIF_REPO"); r != "" {
		return r
	}
	return "/repo"
}

func init() {
	register("modes", func(a []string) { dumpModes() })
	register("modecall", modeCall)
	register("scantables", func(a []string) { dumpScanTables(repoRoot()) })
	register("scan", func(a []string) { runCases(a[0], 5*time.Second, scanObs) })
	register("parse", func(a []string) { runCases(a[0], 5*time.Second, parseObs) })
	register("tc", func(a []string) { runCases(a[0], 10*time.Second, tcObs) })
	register("run1", run1)
}

func main() {
	if len(os.Args) < 2 {
		usage()
	}
	f, ok := subcommands[os.Args[1]]
	if !ok {
		usage()
	}
	f(os.Args[2:])
}
