package main

import (
	"fmt"
	"os"
	"time"
)

func usage() {
	fmt.Fprintln(os.Stderr, "usage: probe <subcommand> [args]")
	os.Exit(2)
}

func repoRoot() string {
	if r := os.Getenv("VERIF_REPO"); r != "" {
		return r
	}
	return "/repo"
}

func main() {
	if len(os.Args) < 2 {
		usage()
	}
	switch os.Args[1] {
	case "modes":
		dumpModes()
	case "scantables":
		dumpScanTables(repoRoot())
	case "scan":
		runCases(os.Args[2], 5*time.Second, scanObs)
	case "parse":
		runCases(os.Args[2], 5*time.Second, parseObs)
	case "modecall":
		modeCall(os.Args[2:])
	default:
		usage()
	}
}
