package main

// parsetime: ParseString under a long watchdog, reporting what one call costs.  Used by C11 to
// measure how the cost of parsing grows with the size of one construct (promptness).
// Output: id <TAB> wall-microseconds <TAB> bytes-allocated <TAB> OK|ERR   (or id <TAB> HANG / PANIC)
// The number of bytes allocated (runtime.MemStats.TotalAlloc) is deterministic: it does not depend
// on the load of the machine, unlike any time measurement.

import (
	"fmt"
	"runtime"
	"time"

	gparser "grits/parser"
)

func init() {
	register("parsetime", func(a []string) {
		runCases(a[0], 60*time.Second, func(text string) string {
			var m0, m1 runtime.MemStats
			runtime.GC()
			runtime.ReadMemStats(&m0)
			t0 := time.Now()
			_, _, _, err := gparser.ParseString(text)
			us := time.Since(t0).Microseconds()
			runtime.ReadMemStats(&m1)
			v := "OK"
			if err != nil {
				v = "ERR"
			}
			return fmt.Sprintf("%d\t%d\t%s", us, m1.TotalAlloc-m0.TotalAlloc, v)
		})
	})
}
