package main

// parsetime: ParseString under a long watchdog, reporting the elapsed wall time.  Used by C11 to
// measure how parsing time grows with the size of one construct (promptness).
// Output: id <TAB> microseconds (minimum of up to 3 runs) <TAB> OK|ERR   (or id <TAB> HANG / PANIC)

import (
	"fmt"
	"time"

	gparser "grits/parser"
)

func init() {
	register("parsetime", func(a []string) {
		runCases(a[0], 60*time.Second, func(text string) string {
			// minimum of up to three runs: removes one-off costs (stack growth, GC) and load spikes
			best := int64(-1)
			var err error
			for rep := 0; rep < 3; rep++ {
				t0 := time.Now()
				_, _, _, err = gparser.ParseString(text)
				us := time.Since(t0).Microseconds()
				if best < 0 || us < best {
					best = us
				}
				if us > 1500000 {
					break
				}
			}
			if err != nil {
				return fmt.Sprintf("%d\tERR", best)
			}
			return fmt.Sprintf("%d\tOK", best)
		})
	})
}
