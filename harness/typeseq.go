package main

// eq: type equality and printing on a pool of query types.
// Input: program TEXT made of type definitions; the definitions named Q0, Q1, ... are the pool
// (so that the real parser and the real mode inference produce them).  Output (one line):
//   PARSE-ERR | REJECT | OK <TAB> n <TAB> B <TAB> N <TAB> S <TAB> RT
//   B  = n*n bits, row-major: EqualType(body_i, body_j, env)
//   N  = n*n bits: EqualType(name Qi, name Qj, env)   (LabelType nodes with the definition's mode)
//   S  = n entries hex(String) ":" hex(StringWithModality) ":" hex(StringWithOuterModality) ":" hex(dump), space separated
//   RT = n characters: 1 when `type RtI = <head mode> <String() of body_i>` appended to the text parses
//        back (real parser, real mode inference) to a type with the same dump as body_i, 0 when the
//        dump differs, E when the text does not parse

import (
	"encoding/hex"
	"fmt"
	"regexp"
	"sort"
	"strconv"
	"strings"
	"time"

	gparser "grits/parser"
	"grits/process"
	"grits/types"
)

var queryName = regexp.MustCompile(`^Q([0-9]+)$`)

type queryDef struct {
	idx int
	def types.SessionTypeDefinition
}

func poolOf(defs []types.SessionTypeDefinition) []queryDef {
	var qs []queryDef
	for _, d := range defs {
		m := queryName.FindStringSubmatch(d.Name)
		if m == nil {
			continue
		}
		i, err := strconv.Atoi(m[1])
		if err != nil {
			continue
		}
		qs = append(qs, queryDef{i, d})
	}
	sort.SliceStable(qs, func(a, b int) bool { return qs[a].idx < qs[b].idx })
	return qs
}

func bit(b bool) byte {
	if b {
		return '1'
	}
	return '0'
}

func roundTrip(text string, qs []queryDef) string {
	var sb strings.Builder
	sb.WriteString(text)
	for i, q := range qs {
		fmt.Fprintf(&sb, "\ntype Rt%d = %s %s", i, q.def.SessionType.Modality().String(), q.def.SessionType.String())
	}
	res := make([]byte, len(qs))
	_, _, env, err := gparser.ParseString(sb.String())
	if err == nil && env != nil && env.Types != nil {
		byName := map[string]types.SessionType{}
		for _, d := range *env.Types {
			byName[d.Name] = d.SessionType
		}
		for i, q := range qs {
			r, ok := byName["Rt"+strconv.Itoa(i)]
			if !ok {
				res[i] = 'E'
				continue
			}
			res[i] = bit(process.VerifDumpType(r) == process.VerifDumpType(q.def.SessionType))
		}
		return string(res)
	}
	// isolate: one at a time
	for i, q := range qs {
		one := text + "\ntype Rt" + strconv.Itoa(i) + " = " + q.def.SessionType.Modality().String() + " " + q.def.SessionType.String()
		_, _, env, err := gparser.ParseString(one)
		res[i] = 'E'
		if err == nil && env != nil && env.Types != nil {
			for _, d := range *env.Types {
				if d.Name == "Rt"+strconv.Itoa(i) {
					res[i] = bit(process.VerifDumpType(d.SessionType) == process.VerifDumpType(q.def.SessionType))
				}
			}
		}
	}
	return string(res)
}

func eqObs(text string) string {
	_, _, env, err := gparser.ParseString(text)
	if err != nil || env == nil || env.Types == nil {
		return "PARSE-ERR"
	}
	defs := *env.Types
	if err := types.SanityChecksTypeDefinitions(defs); err != nil {
		return "REJECT"
	}
	lenv := types.ProduceLabelledSessionTypeEnvironment(defs)
	qs := poolOf(defs)
	n := len(qs)
	bodies := make([]byte, 0, n*n)
	names := make([]byte, 0, n*n)
	for _, a := range qs {
		for _, b := range qs {
			bodies = append(bodies, bit(types.EqualType(a.def.SessionType, b.def.SessionType, lenv)))
			na := types.NewLabelType(a.def.Name, a.def.Modality)
			nb := types.NewLabelType(b.def.Name, b.def.Modality)
			names = append(names, bit(types.EqualType(na, nb, lenv)))
		}
	}
	strs := make([]string, 0, n)
	for _, q := range qs {
		t := q.def.SessionType
		strs = append(strs, hex.EncodeToString([]byte(t.String()))+":"+hex.EncodeToString([]byte(t.StringWithModality()))+":"+hex.EncodeToString([]byte(t.StringWithOuterModality()))+":"+hex.EncodeToString([]byte(process.VerifDumpType(t))))
	}
	return "OK\t" + strconv.Itoa(n) + "\t" + string(bodies) + "\t" + string(names) + "\t" + strings.Join(strs, " ") + "\t" + roundTrip(text, qs)
}

// formrt: print -> parse round trip of process terms.  Input: a program; for every process
// declaration the body is printed with Form.String(), wrapped as `prc[<providers>] = <printed>`
// and parsed again; output OK <TAB> one character per process: 1 same dump, 0 different dump,
// E does not parse; followed by <TAB> hex(String()) of each body, space separated.
func formRtObs(text string) string {
	procs, _, _, err := gparser.ParseString(text)
	if err != nil {
		return "PARSE-ERR"
	}
	res := make([]byte, len(procs))
	strs := make([]string, len(procs))
	for i, p := range procs {
		printed := p.Body.String()
		strs[i] = hex.EncodeToString([]byte(printed))
		again, _, _, err := gparser.ParseString("prc[rtprov] = " + printed)
		if err != nil || len(again) != 1 {
			res[i] = 'E'
			continue
		}
		res[i] = bit(noPol(process.VerifDumpForm(again[0].Body, false)) == noPol(process.VerifDumpForm(p.Body, false)))
	}
	return "OK\t" + string(res) + "\t" + strings.Join(strs, " ")
}

// explicit polarity annotations are not printed by String() (and ignored by EqualForm)
func noPol(d string) string {
	return strings.ReplaceAll(strings.ReplaceAll(d, " + _)", " _ _)"), " - _)", " _ _)")
}

func init() {
	register("eq", func(a []string) { runCases(a[0], 10*time.Second, eqObs) })
	register("formrt", func(a []string) { runCases(a[0], 10*time.Second, formRtObs) })
}
