package main

// sharedaccess: syntactic translator (go/ast) for C13.  Lists every access to a field of the two
// structs shared between goroutines of one run (RuntimeEnvironment, Monitor) in package process:
// which function it occurs in, whether it is a sync/atomic operation, a plain write or a plain
// read, and in which goroutine contexts that function can run (name-based call graph from the
// `go` statements: process goroutines, the monitor goroutine, the heartbeat goroutine; everything
// else is the caller's goroutine).  Output: gen/SharedAccess.v.  Interprets nothing.

import (
	"fmt"
	"go/ast"
	"go/parser"
	"go/token"
	"os"
	"path/filepath"
	"sort"
	"strings"
)

type access struct {
	strct, field, fn, kind string
	line               int
}

func structFields(files []*ast.File, name string) map[string]bool {
	out := map[string]bool{}
	for _, f := range files {
		ast.Inspect(f, func(n ast.Node) bool {
			ts, ok := n.(*ast.TypeSpec)
			if !ok || ts.Name.Name != name {
				return true
			}
			if st, ok := ts.Type.(*ast.StructType); ok {
				for _, fl := range st.Fields.List {
					for _, nm := range fl.Names {
						out[nm.Name] = true
					}
				}
			}
			return false
		})
	}
	return out
}

// does the expression denote a *RuntimeEnvironment / *Monitor ?  (by naming convention of the package)
func ownerOf(e ast.Expr) string {
	switch x := e.(type) {
	case *ast.Ident:
		switch x.Name {
		case "re":
			return "RuntimeEnvironment"
		case "m", "monitor", "newMonitor":
			return "Monitor"
		}
	case *ast.SelectorExpr:
		switch x.Sel.Name {
		case "re":
			return "RuntimeEnvironment"
		case "monitor":
			return "Monitor"
		}
	}
	return ""
}

func dumpSharedAccess(repo string) {
	fset := token.NewFileSet()
	matches, _ := filepath.Glob(repo + "/process/*.go")
	var files []*ast.File
	for _, p := range matches {
		if strings.HasSuffix(p, "_test.go") || strings.HasSuffix(p, "verif_dump.go") {
			continue
		}
		f, err := parser.ParseFile(fset, p, nil, 0)
		if err != nil {
			fmt.Fprintln(os.Stderr, err)
			os.Exit(1)
		}
		files = append(files, f)
	}
	fields := map[string]map[string]bool{"RuntimeEnvironment": structFields(files, "RuntimeEnvironment"), "Monitor": structFields(files, "Monitor")}
	var accs []access
	calls := map[string]map[string]bool{} // function -> called names
	goRoots := map[string][]string{}      // function containing a go statement -> started function names
	for _, f := range files {
		for _, d := range f.Decls {
			fd, ok := d.(*ast.FuncDecl)
			if !ok || fd.Body == nil {
				continue
			}
			fn := fd.Name.Name
			if calls[fn] == nil {
				calls[fn] = map[string]bool{}
			}
			atomicArgs := map[ast.Node]bool{}
			writes := map[ast.Node]bool{}
			ast.Inspect(fd.Body, func(n ast.Node) bool {
				switch x := n.(type) {
				case *ast.GoStmt:
					switch c := x.Call.Fun.(type) {
					case *ast.SelectorExpr:
						goRoots[fn] = append(goRoots[fn], c.Sel.Name)
					case *ast.Ident:
						goRoots[fn] = append(goRoots[fn], c.Name)
					case *ast.FuncLit:
						goRoots[fn] = append(goRoots[fn], fn+"$closure")
					}
				case *ast.CallExpr:
					switch c := x.Fun.(type) {
					case *ast.SelectorExpr:
						calls[fn][c.Sel.Name] = true
						if id, ok := c.X.(*ast.Ident); ok && id.Name == "atomic" {
							for _, a := range x.Args {
								if u, ok := a.(*ast.UnaryExpr); ok && u.Op == token.AND {
									atomicArgs[u.X] = true
								}
							}
						}
					case *ast.Ident:
						calls[fn][c.Name] = true
					}
				case *ast.AssignStmt:
					for _, l := range x.Lhs {
						writes[l] = true
						if ix, ok := l.(*ast.IndexExpr); ok {
							writes[ix.X] = true
						}
					}
				case *ast.IncDecStmt:
					writes[x.X] = true
				}
				return true
			})
			ast.Inspect(fd.Body, func(n ast.Node) bool {
				se, ok := n.(*ast.SelectorExpr)
				if !ok {
					return true
				}
				own := ownerOf(se.X)
				if own == "" || !fields[own][se.Sel.Name] {
					return true
				}
				kind := "read"
				if atomicArgs[se] {
					kind = "atomic"
				} else if writes[se] {
					kind = "write"
				}
				accs = append(accs, access{own, se.Sel.Name, fn, kind, fset.Position(se.Pos()).Line})
				return true
			})
			// composite literals &RuntimeEnvironment{...} / &Monitor{...}: initialisation writes
			ast.Inspect(fd.Body, func(n ast.Node) bool {
				cl, ok := n.(*ast.CompositeLit)
				if !ok {
					return true
				}
				id, ok := cl.Type.(*ast.Ident)
				if !ok || fields[id.Name] == nil {
					return true
				}
				for _, el := range cl.Elts {
					if kv, ok := el.(*ast.KeyValueExpr); ok {
						if k, ok := kv.Key.(*ast.Ident); ok {
							accs = append(accs, access{id.Name, k.Name, fn, "init", fset.Position(kv.Pos()).Line})
						}
					}
				}
				return true
			})
		}
	}
	// goroutine contexts: reachability (by name) from the functions started with `go`
	reach := func(roots []string) map[string]bool {
		seen := map[string]bool{}
		todo := append([]string{}, roots...)
		for len(todo) > 0 {
			x := todo[len(todo)-1]
			todo = todo[:len(todo)-1]
			if seen[x] {
				continue
			}
			seen[x] = true
			for c := range calls[x] {
				todo = append(todo, c)
			}
		}
		return seen
	}
	var procRoots, monRoots, hbRoots []string
	for _, started := range goRoots {
		for _, s := range started {
			switch {
			case strings.HasPrefix(s, "transitionLoop"):
				procRoots = append(procRoots, s)
			case s == "startMonitor":
				monRoots = append(monRoots, s)
			case s == "HeartbeatReceiver":
				hbRoots = append(hbRoots, s)
			}
		}
	}
	inProc, inMon, inHb := reach(procRoots), reach(monRoots), reach(hbRoots)
	sort.Slice(accs, func(i, j int) bool {
		a, b := accs[i], accs[j]
		if a.strct != b.strct {
			return a.strct < b.strct
		}
		if a.field != b.field {
			return a.field < b.field
		}
		if a.fn != b.fn {
			return a.fn < b.fn
		}
		return a.line < b.line
	})
	fmt.Println("(* GENERATED by `probe sharedaccess` from /repo/process/*.go (go/ast). Do not edit. *)")
	fmt.Println("Require Import Grits.Base Grits.SharedDefs.")
	fmt.Println()
	for _, s := range []string{"RuntimeEnvironment", "Monitor"} {
		var fs []string
		for f := range fields[s] {
			fs = append(fs, f)
		}
		sort.Strings(fs)
		fmt.Printf("Definition fields_%s : list string := [", s)
		for i, f := range fs {
			if i > 0 {
				fmt.Print("; ")
			}
			fmt.Print(coqString(f))
		}
		fmt.Println("].")
	}
	fmt.Println()
	fmt.Println("(* struct, field, function, kind, runs in a process goroutine, in the monitor goroutine, in the heartbeat goroutine *)")
	fmt.Println("Definition accesses : list access := [")
	for i, a := range accs {
		if i > 0 {
			fmt.Println(";")
		}
		fmt.Printf("  mkAccess %s %s %s %s %s %s %s", coqString(a.strct), coqString(a.field), coqString(a.fn),
			map[string]string{"read": "KRead", "write": "KWrite", "atomic": "KAtomic", "init": "KInit"}[a.kind],
			coqBool(inProc[a.fn]), coqBool(inMon[a.fn]), coqBool(inHb[a.fn]))
	}
	fmt.Println("].")
	fmt.Println()
	fmt.Printf("Definition go_roots : list (string * string) := [")
	first := true
	var keys []string
	for k := range goRoots {
		keys = append(keys, k)
	}
	sort.Strings(keys)
	for _, k := range keys {
		for _, s := range goRoots[k] {
			if !first {
				fmt.Print("; ")
			}
			first = false
			fmt.Printf("(%s, %s)", coqString(k), coqString(s))
		}
	}
	fmt.Println("].")
}

func init() { register("sharedaccess", func(a []string) { dumpSharedAccess(repoRoot()) }) }
