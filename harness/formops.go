package main

// formops: syntactic translator (go/ast) of the substitution / free-name / copy code of
// /repo/process/form.go (and of Name.Initialized / Equal / Substitute of name.go) into the small IR of coq/theories/FormIR.v.  Output: gen/FormOps.v.
// For every struct type named *Form: its field list, its constructor functions (New*), the body of
// its Substitute method and of its FreeNames method; the four list helpers (appendIfNotSelf,
// removeBoundName, nameExists, mergeTwoNamesList) as small list programs; the case list of
// FormHasContinuation; the per-case constructor call of CopyForm (which field goes to which
// argument; copied or shared).  Interprets nothing.  Any statement or expression outside the
// recognised fragment is a FATAL error naming the function and the statement: never guessed,
// never skipped.

import (
	"bytes"
	"fmt"
	"go/ast"
	"go/parser"
	"go/printer"
	"go/token"
	"os"
	"sort"
	"strings"
)

type foTr struct {
	fset    *token.FileSet
	structs map[string][][2]string // struct -> [(field, type)]
	order   []string               // struct names in source order
	where   string                 // function being translated (for messages)
}

func (t *foTr) src(n ast.Node) string {
	var buf bytes.Buffer
	printer.Fprint(&buf, t.fset, n)
	return strings.Join(strings.Fields(buf.String()), " ")
}

func (t *foTr) fail(n ast.Node, why string) {
	pos := ""
	text := ""
	if n != nil {
		pos = t.fset.Position(n.Pos()).String()
		text = t.src(n)
	}
	fmt.Fprintf(os.Stderr, "formops: cannot translate %s: %s\n  statement: %s\n  at %s\n", t.where, why, text, pos)
	os.Exit(1)
}

func (t *foTr) fieldType(strct, field string) string {
	for _, ft := range t.structs[strct] {
		if ft[0] == field {
			return ft[1]
		}
	}
	return ""
}

// p.F  (p the receiver / the given identifier)
func recvField(e ast.Expr, recv string) (string, bool) {
	se, ok := e.(*ast.SelectorExpr)
	if !ok {
		return "", false
	}
	id, ok := se.X.(*ast.Ident)
	if !ok || id.Name != recv {
		return "", false
	}
	return se.Sel.Name, true
}

func isIdent(e ast.Expr, name string) bool {
	id, ok := e.(*ast.Ident)
	return ok && id.Name == name
}

func coqStrList(xs []string) string {
	ys := make([]string, len(xs))
	for i, x := range xs {
		ys[i] = coqString(x)
	}
	return "[" + strings.Join(ys, "; ") + "]"
}

func coqList(xs []string) string { return "[" + strings.Join(xs, "; ") + "]" }

// ---------------------------------------------------------------------------------------------
// Substitute
// ---------------------------------------------------------------------------------------------

func (t *foTr) substCond(e ast.Expr, strct, recv, old string) string {
	switch x := e.(type) {
	case *ast.ParenExpr:
		return t.substCond(x.X, strct, recv, old)
	case *ast.UnaryExpr:
		if x.Op == token.NOT {
			return "(CNot " + t.substCond(x.X, strct, recv, old) + ")"
		}
	case *ast.BinaryExpr:
		if x.Op == token.LAND {
			return "(CAnd " + t.substCond(x.X, strct, recv, old) + " " + t.substCond(x.Y, strct, recv, old) + ")"
		}
		if x.Op == token.LOR {
			return "(COr " + t.substCond(x.X, strct, recv, old) + " " + t.substCond(x.Y, strct, recv, old) + ")"
		}
	case *ast.CallExpr:
		// p.F.Equal(old)
		if se, ok := x.Fun.(*ast.SelectorExpr); ok && se.Sel.Name == "Equal" && len(x.Args) == 1 && isIdent(x.Args[0], old) {
			if f, ok := recvField(se.X, recv); ok && t.fieldType(strct, f) == "Name" {
				return "(CEqualOld " + coqString(f) + ")"
			}
		}
	}
	t.fail(e, "condition is not built from p.<Name field>.Equal("+old+") with ! && ||")
	return ""
}

// x.Substitute(old, new) -> x
func (t *foTr) substCallTarget(s ast.Stmt, old, new string) ast.Expr {
	es, ok := s.(*ast.ExprStmt)
	if !ok {
		return nil
	}
	c, ok := es.X.(*ast.CallExpr)
	if !ok {
		return nil
	}
	se, ok := c.Fun.(*ast.SelectorExpr)
	if !ok || se.Sel.Name != "Substitute" || len(c.Args) != 2 || !isIdent(c.Args[0], old) || !isIdent(c.Args[1], new) {
		return nil
	}
	return se.X
}

func (t *foTr) substStmts(ss []ast.Stmt, strct, recv, old, new string) string {
	var out []string
	for _, s := range ss {
		out = append(out, t.substStmt(s, strct, recv, old, new))
	}
	return coqList(out)
}

func (t *foTr) substStmt(s ast.Stmt, strct, recv, old, new string) string {
	if tgt := t.substCallTarget(s, old, new); tgt != nil {
		if f, ok := recvField(tgt, recv); ok {
			switch t.fieldType(strct, f) {
			case "Name":
				return "SubName " + coqString(f)
			case "Form":
				return "SubForm " + coqString(f)
			}
		}
		t.fail(s, "Substitute is not called on a field of the receiver of type Name or Form")
	}
	switch x := s.(type) {
	case *ast.RangeStmt:
		// for i := range p.F { p.F[i].Substitute(old, new) }
		f, ok := recvField(x.X, recv)
		key, kok := x.Key.(*ast.Ident)
		if ok && kok && key.Name != "_" && x.Value == nil && x.Tok == token.DEFINE && len(x.Body.List) == 1 {
			if tgt := t.substCallTarget(x.Body.List[0], old, new); tgt != nil {
				if ix, ok := tgt.(*ast.IndexExpr); ok && isIdent(ix.Index, key.Name) {
					if f2, ok := recvField(ix.X, recv); ok && f2 == f {
						switch t.fieldType(strct, f) {
						case "[]Name":
							return "SubNames " + coqString(f)
						case "[]*BranchForm":
							return "SubBranches " + coqString(f)
						}
					}
				}
			}
		}
		t.fail(s, "loop is not `for i := range p.F { p.F[i].Substitute(old, new) }` over a []Name / []*BranchForm field")
	case *ast.IfStmt:
		if x.Init != nil {
			t.fail(s, "if with an init statement")
		}
		c := t.substCond(x.Cond, strct, recv, old)
		th := t.substStmts(x.Body.List, strct, recv, old, new)
		el := "[]"
		switch e := x.Else.(type) {
		case nil:
		case *ast.BlockStmt:
			el = t.substStmts(e.List, strct, recv, old, new)
		case *ast.IfStmt:
			el = "[" + t.substStmt(e, strct, recv, old, new) + "]"
		default:
			t.fail(s, "unrecognised else branch")
		}
		return "SIf " + c + " " + th + " " + el
	case *ast.ReturnStmt:
		if len(x.Results) == 0 {
			return "SReturn"
		}
	}
	t.fail(s, "statement outside the fragment (field.Substitute(old,new) | index loop | if on Equal(old) | return)")
	return ""
}

// ---------------------------------------------------------------------------------------------
// FreeNames
// ---------------------------------------------------------------------------------------------

type fnLoop struct {
	field, index, value string
	branches            bool
}

func (t *foTr) fnName(e ast.Expr, strct, recv string, lp *fnLoop) string {
	if f, ok := recvField(e, recv); ok && t.fieldType(strct, f) == "Name" {
		return "(NField " + coqString(f) + ")"
	}
	if lp != nil && !lp.branches {
		if lp.value != "" && isIdent(e, lp.value) {
			return "NElem"
		}
		if ix, ok := e.(*ast.IndexExpr); ok && lp.index != "" && isIdent(ix.Index, lp.index) {
			if f, ok := recvField(ix.X, recv); ok && f == lp.field {
				return "NElem"
			}
		}
	}
	t.fail(e, "name expression is not p.<Name field> / the element of the enclosing loop")
	return ""
}

func (t *foTr) fnExpr(e ast.Expr, strct, recv string, lp *fnLoop) string {
	switch x := e.(type) {
	case *ast.Ident:
		if x.Name != "nil" && x.Name != recv {
			return "(EVar " + coqString(x.Name) + ")"
		}
	case *ast.CallExpr:
		if se, ok := x.Fun.(*ast.SelectorExpr); ok && se.Sel.Name == "FreeNames" && len(x.Args) == 0 {
			if f, ok := recvField(se.X, recv); ok && t.fieldType(strct, f) == "Form" {
				return "(EFree " + coqString(f) + ")"
			}
			if lp != nil && lp.branches {
				if lp.value != "" && isIdent(se.X, lp.value) {
					return "EFreeElem"
				}
				if ix, ok := se.X.(*ast.IndexExpr); ok && lp.index != "" && isIdent(ix.Index, lp.index) {
					if f, ok := recvField(ix.X, recv); ok && f == lp.field {
						return "EFreeElem"
					}
				}
			}
		}
		if id, ok := x.Fun.(*ast.Ident); ok && !x.Ellipsis.IsValid() && len(x.Args) == 2 {
			switch id.Name {
			case "appendIfNotSelf":
				return "(EAppendIfNotSelf " + t.fnName(x.Args[0], strct, recv, lp) + " " + t.fnExpr(x.Args[1], strct, recv, lp) + ")"
			case "removeBoundName":
				return "(ERemoveBound " + t.fnExpr(x.Args[0], strct, recv, lp) + " " + t.fnName(x.Args[1], strct, recv, lp) + ")"
			case "mergeTwoNamesList":
				return "(EMerge " + t.fnExpr(x.Args[0], strct, recv, lp) + " " + t.fnExpr(x.Args[1], strct, recv, lp) + ")"
			}
		}
		if id, ok := x.Fun.(*ast.Ident); ok && id.Name == "append" && x.Ellipsis.IsValid() && len(x.Args) == 2 {
			return "(EAppendAll " + t.fnExpr(x.Args[0], strct, recv, lp) + " " + t.fnExpr(x.Args[1], strct, recv, lp) + ")"
		}
	}
	t.fail(e, "list expression outside the fragment (variable | p.F.FreeNames() | appendIfNotSelf | removeBoundName | mergeTwoNamesList | append(a, b...))")
	return ""
}

func (t *foTr) fnAssign(s ast.Stmt, strct, recv string, lp *fnLoop) (string, bool) {
	a, ok := s.(*ast.AssignStmt)
	if !ok || len(a.Lhs) != 1 || len(a.Rhs) != 1 {
		return "", false
	}
	id, ok := a.Lhs[0].(*ast.Ident)
	if !ok || id.Name == "_" || id.Name == recv {
		return "", false
	}
	if a.Tok != token.ASSIGN && !(a.Tok == token.DEFINE && lp == nil) {
		return "", false
	}
	return "FAssign " + coqString(id.Name) + " " + t.fnExpr(a.Rhs[0], strct, recv, lp), true
}

func (t *foTr) fnBody(ss []ast.Stmt, strct, recv string) string {
	var out []string
	ret := ""
	for k, s := range ss {
		if r, ok := t.fnAssign(s, strct, recv, nil); ok {
			out = append(out, r)
			continue
		}
		switch x := s.(type) {
		case *ast.DeclStmt:
			// var v []Name
			if gd, ok := x.Decl.(*ast.GenDecl); ok && gd.Tok == token.VAR && len(gd.Specs) == 1 {
				vs := gd.Specs[0].(*ast.ValueSpec)
				if len(vs.Names) == 1 && len(vs.Values) == 0 && vs.Type != nil && t.src(vs.Type) == "[]Name" {
					out = append(out, "FVarNil "+coqString(vs.Names[0].Name))
					continue
				}
			}
		case *ast.RangeStmt:
			f, ok := recvField(x.X, recv)
			if ok && x.Tok == token.DEFINE {
				lp := &fnLoop{field: f}
				if k, ok := x.Key.(*ast.Ident); ok && k.Name != "_" {
					lp.index = k.Name
				}
				if x.Value != nil {
					if v, ok := x.Value.(*ast.Ident); ok && v.Name != "_" {
						lp.value = v.Name
					}
				}
				ctor := ""
				switch t.fieldType(strct, f) {
				case "[]Name":
					ctor = "FForNames"
				case "[]*BranchForm":
					ctor = "FForBranches"
					lp.branches = true
				}
				if ctor != "" {
					var body []string
					for _, b := range x.Body.List {
						r, ok := t.fnAssign(b, strct, recv, lp)
						if !ok {
							t.fail(b, "loop body statement is not an assignment `v = <list expression>`")
						}
						body = append(body, r)
					}
					out = append(out, ctor+" "+coqString(f)+" "+coqList(body))
					continue
				}
			}
		case *ast.ReturnStmt:
			if len(x.Results) == 1 && k == len(ss)-1 {
				ret = t.fnExpr(x.Results[0], strct, recv, nil)
				continue
			}
		}
		t.fail(s, "statement outside the fragment (var v []Name | v = e | range loop over a slice field | final return e)")
	}
	if ret == "" {
		t.fail(nil, "no final `return <list expression>`")
	}
	return "mkFMethod " + coqList(out) + " " + ret
}

// ---------------------------------------------------------------------------------------------
// helpers (list programs)
// ---------------------------------------------------------------------------------------------

type hSig struct {
	params [][2]string
	named  string // named result variable ("" if none)
	result string
}

func (t *foTr) hCond(e ast.Expr, vars map[string]string) string {
	switch x := e.(type) {
	case *ast.ParenExpr:
		return t.hCond(x.X, vars)
	case *ast.UnaryExpr:
		if x.Op == token.NOT {
			return "(HNot " + t.hCond(x.X, vars) + ")"
		}
	case *ast.SelectorExpr:
		if id, ok := x.X.(*ast.Ident); ok && vars[id.Name] == "Name" && x.Sel.Name == "IsSelf" {
			return "(HIsSelf " + coqString(id.Name) + ")"
		}
	case *ast.CallExpr:
		if se, ok := x.Fun.(*ast.SelectorExpr); ok && se.Sel.Name == "Equal" && len(x.Args) == 1 {
			a, ok1 := se.X.(*ast.Ident)
			b, ok2 := x.Args[0].(*ast.Ident)
			if ok1 && ok2 && vars[a.Name] == "Name" && vars[b.Name] == "Name" {
				return "(HEqual " + coqString(a.Name) + " " + coqString(b.Name) + ")"
			}
		}
		if id, ok := x.Fun.(*ast.Ident); ok && len(x.Args) == 2 && !x.Ellipsis.IsValid() {
			a, ok1 := x.Args[0].(*ast.Ident)
			b, ok2 := x.Args[1].(*ast.Ident)
			if ok1 && ok2 && vars[a.Name] == "[]Name" && vars[b.Name] == "Name" {
				return "(HCallBool " + coqString(id.Name) + " " + coqString(a.Name) + " " + coqString(b.Name) + ")"
			}
		}
	}
	t.fail(e, "helper condition outside the fragment (! | n.IsSelf | a.Equal(b) | f(list, name))")
	return ""
}

func (t *foTr) hStmts(ss []ast.Stmt, vars map[string]string, sig hSig) string {
	var out []string
	for _, s := range ss {
		out = append(out, t.hStmt(s, vars, sig))
	}
	return coqList(out)
}

func (t *foTr) hStmt(s ast.Stmt, vars map[string]string, sig hSig) string {
	switch x := s.(type) {
	case *ast.RangeStmt:
		// for _, n := range l { ... }
		l, ok1 := x.X.(*ast.Ident)
		v, ok2 := x.Value.(*ast.Ident)
		if ok1 && ok2 && isIdent(x.Key, "_") && x.Tok == token.DEFINE && vars[l.Name] == "[]Name" && v.Name != "_" && vars[v.Name] == "" {
			inner := map[string]string{}
			for k, ty := range vars {
				inner[k] = ty
			}
			inner[v.Name] = "Name"
			return "HForEach " + coqString(v.Name) + " " + coqString(l.Name) + " " + t.hStmts(x.Body.List, inner, sig)
		}
	case *ast.IfStmt:
		if x.Init == nil && x.Else == nil {
			return "HIf " + t.hCond(x.Cond, vars) + " " + t.hStmts(x.Body.List, vars, sig)
		}
	case *ast.AssignStmt:
		// l = append(l, n)
		if x.Tok == token.ASSIGN && len(x.Lhs) == 1 && len(x.Rhs) == 1 {
			l, ok := x.Lhs[0].(*ast.Ident)
			c, ok2 := x.Rhs[0].(*ast.CallExpr)
			if ok && ok2 && vars[l.Name] == "[]Name" && isIdent(c.Fun, "append") && len(c.Args) == 2 && !c.Ellipsis.IsValid() && isIdent(c.Args[0], l.Name) {
				if n, ok := c.Args[1].(*ast.Ident); ok && vars[n.Name] == "Name" {
					return "HAppend " + coqString(l.Name) + " " + coqString(n.Name)
				}
			}
		}
	case *ast.ReturnStmt:
		if len(x.Results) == 0 && sig.named != "" {
			return "HReturnList " + coqString(sig.named)
		}
		if len(x.Results) == 1 {
			if id, ok := x.Results[0].(*ast.Ident); ok {
				if sig.result == "bool" && (id.Name == "true" || id.Name == "false") {
					return "HReturnBool " + id.Name
				}
				if sig.result == "[]Name" && vars[id.Name] == "[]Name" {
					return "HReturnList " + coqString(id.Name)
				}
			}
		}
	}
	t.fail(s, "helper statement outside the fragment (for _, n := range l | if c {…} | l = append(l, n) | return l | return true/false)")
	return ""
}

func (t *foTr) helper(fd *ast.FuncDecl) string {
	t.where = "func " + fd.Name.Name
	if fd.Recv != nil || fd.Type.Results == nil || len(fd.Type.Results.List) != 1 {
		t.fail(fd.Type, "helper signature")
	}
	sig := hSig{}
	vars := map[string]string{}
	for _, p := range fd.Type.Params.List {
		ty := t.src(p.Type)
		if ty != "Name" && ty != "[]Name" {
			t.fail(p, "helper parameter type is not Name / []Name")
		}
		for _, n := range p.Names {
			sig.params = append(sig.params, [2]string{n.Name, ty})
			vars[n.Name] = ty
		}
	}
	r := fd.Type.Results.List[0]
	sig.result = t.src(r.Type)
	if sig.result != "bool" && sig.result != "[]Name" {
		t.fail(r, "helper result type is not bool / []Name")
	}
	if len(r.Names) == 1 {
		if sig.result != "[]Name" {
			t.fail(r, "named result that is not a []Name")
		}
		sig.named = r.Names[0].Name
		vars[sig.named] = "[]Name"
	} else if len(r.Names) > 1 {
		t.fail(r, "several named results")
	}
	var ps []string
	for _, p := range sig.params {
		ps = append(ps, "("+coqString(p[0])+", "+coqString(p[1])+")")
	}
	body := t.hStmts(fd.Body.List, vars, sig)
	named := "None"
	if sig.named != "" {
		named = "(Some " + coqString(sig.named) + ")"
	}
	return "mkHelper " + coqList(ps) + " " + coqString(sig.result) + " " + named + " " + body
}

// ---------------------------------------------------------------------------------------------
// constructors, FormHasContinuation, CopyForm
// ---------------------------------------------------------------------------------------------

// func NewX(a, b T) *XForm { return &XForm{f: a, g: b, h: false} }
func (t *foTr) ctor(fd *ast.FuncDecl) (string, bool) {
	if fd.Recv != nil || fd.Type.Results == nil || len(fd.Type.Results.List) != 1 {
		return "", false
	}
	st, ok := fd.Type.Results.List[0].Type.(*ast.StarExpr)
	if !ok {
		return "", false
	}
	sid, ok := st.X.(*ast.Ident)
	if !ok || t.structs[sid.Name] == nil {
		return "", false
	}
	t.where = "constructor " + fd.Name.Name
	var params []string
	for _, p := range fd.Type.Params.List {
		for _, n := range p.Names {
			params = append(params, n.Name)
		}
	}
	if len(fd.Body.List) != 1 {
		t.fail(fd.Body, "constructor body is not a single return of a composite literal")
	}
	rs, ok := fd.Body.List[0].(*ast.ReturnStmt)
	if !ok || len(rs.Results) != 1 {
		t.fail(fd.Body, "constructor body is not a single return of a composite literal")
	}
	u, ok := rs.Results[0].(*ast.UnaryExpr)
	if !ok || u.Op != token.AND {
		t.fail(rs, "constructor does not return &T{…}")
	}
	cl, ok := u.X.(*ast.CompositeLit)
	if !ok || !isIdent(cl.Type, sid.Name) {
		t.fail(rs, "constructor does not return &T{…} of its result type")
	}
	var inits []string
	for _, el := range cl.Elts {
		kv, ok := el.(*ast.KeyValueExpr)
		if !ok {
			t.fail(el, "positional composite literal")
		}
		k, ok := kv.Key.(*ast.Ident)
		if !ok || t.fieldType(sid.Name, k.Name) == "" {
			t.fail(el, "unknown field")
		}
		v, ok := kv.Value.(*ast.Ident)
		if !ok {
			t.fail(el, "field value is not a parameter / true / false")
		}
		val := ""
		if v.Name == "true" || v.Name == "false" {
			val = "KBool " + v.Name
		} else {
			found := false
			for _, p := range params {
				found = found || p == v.Name
			}
			if !found {
				t.fail(el, "field value is not a parameter / true / false")
			}
			val = "KParam " + coqString(v.Name)
		}
		inits = append(inits, "("+coqString(k.Name)+", "+val+")")
	}
	return "(" + coqString(fd.Name.Name) + ", mkCtor " + coqString(sid.Name) + " " + coqStrList(params) + " " + coqList(inits) + ")", true
}

// switch interface{}(v).(type) { … }
func (t *foTr) typeSwitchOn(s ast.Stmt, v string) *ast.TypeSwitchStmt {
	ts, ok := s.(*ast.TypeSwitchStmt)
	if !ok || ts.Init != nil {
		return nil
	}
	if t.src(ts.Assign) != "interface{}("+v+").(type)" {
		return nil
	}
	return ts
}

func (t *foTr) caseTypes(cc *ast.CaseClause) []string {
	var out []string
	for _, e := range cc.List {
		st, ok := e.(*ast.StarExpr)
		if !ok {
			t.fail(e, "case type is not *XForm")
		}
		id, ok := st.X.(*ast.Ident)
		if !ok || t.structs[id.Name] == nil {
			t.fail(e, "case type is not a pointer to a form struct of this file")
		}
		out = append(out, id.Name)
	}
	return out
}

func (t *foTr) hasCont(fd *ast.FuncDecl) string {
	t.where = "func FormHasContinuation"
	if len(fd.Type.Params.List) != 1 || len(fd.Type.Params.List[0].Names) != 1 {
		t.fail(fd.Type, "signature")
	}
	arg := fd.Type.Params.List[0].Names[0].Name
	if len(fd.Body.List) < 1 || len(fd.Body.List) > 2 {
		t.fail(fd.Body, "body is not a type switch (optionally followed by a return)")
	}
	ts := t.typeSwitchOn(fd.Body.List[0], arg)
	if ts == nil {
		t.fail(fd.Body.List[0], "body does not start with `switch interface{}(form).(type)`")
	}
	retBool := func(ss []ast.Stmt, n ast.Node) string {
		if len(ss) == 1 {
			if r, ok := ss[0].(*ast.ReturnStmt); ok && len(r.Results) == 1 && (isIdent(r.Results[0], "true") || isIdent(r.Results[0], "false")) {
				return r.Results[0].(*ast.Ident).Name
			}
		}
		t.fail(n, "case body is not `return true` / `return false`")
		return ""
	}
	var cases []string
	def := ""
	for _, c := range ts.Body.List {
		cc := c.(*ast.CaseClause)
		b := retBool(cc.Body, cc)
		if cc.List == nil {
			def = b
			continue
		}
		for _, ty := range t.caseTypes(cc) {
			cases = append(cases, "("+coqString(ty)+", "+b+")")
		}
	}
	if len(fd.Body.List) == 2 {
		if def != "" {
			t.fail(fd.Body.List[1], "statement after a switch with a default clause")
		}
		def = retBool(fd.Body.List[1:], fd.Body.List[1])
	}
	if def == "" {
		t.fail(fd.Body, "no default clause and no final return")
	}
	return "(" + coqList(cases) + ", " + def + ")"
}

func (t *foTr) copyForm(fd *ast.FuncDecl) string {
	t.where = "func CopyForm"
	if len(fd.Type.Params.List) != 1 || len(fd.Type.Params.List[0].Names) != 1 {
		t.fail(fd.Type, "signature")
	}
	arg := fd.Type.Params.List[0].Names[0].Name
	if len(fd.Body.List) != 2 {
		t.fail(fd.Body, "body is not a type switch followed by a panic")
	}
	ts := t.typeSwitchOn(fd.Body.List[0], arg)
	if ts == nil {
		t.fail(fd.Body.List[0], "body does not start with `switch interface{}(orig).(type)`")
	}
	if es, ok := fd.Body.List[1].(*ast.ExprStmt); !ok || !strings.HasPrefix(t.src(es), "panic(") {
		t.fail(fd.Body.List[1], "the statement after the switch is not a panic")
	}
	var cases []string
	for _, c := range ts.Body.List {
		cc := c.(*ast.CaseClause)
		if cc.List == nil {
			t.fail(cc, "default clause in CopyForm")
		}
		tys := t.caseTypes(cc)
		if len(tys) != 1 {
			t.fail(cc, "case with several types")
		}
		strct := tys[0]
		t.where = "func CopyForm, case *" + strct
		// p, ok := orig.(*XForm) ; if ok { … }
		if len(cc.Body) != 2 {
			t.fail(cc, "case body is not `p, ok := orig.(*T); if ok {…}`")
		}
		as, ok := cc.Body[0].(*ast.AssignStmt)
		if !ok || len(as.Lhs) != 2 || as.Tok != token.DEFINE || t.src(as.Rhs[0]) != arg+".(*"+strct+")" {
			t.fail(cc.Body[0], "not `p, ok := orig.(*T)` with the case's type")
		}
		recv := as.Lhs[0].(*ast.Ident).Name
		okv := as.Lhs[1].(*ast.Ident).Name
		ifs, ok := cc.Body[1].(*ast.IfStmt)
		if !ok || ifs.Init != nil || ifs.Else != nil || !isIdent(ifs.Cond, okv) {
			t.fail(cc.Body[1], "not `if ok {…}`")
		}
		cases = append(cases, "("+coqString(strct)+", "+t.copyCase(ifs.Body.List, strct, recv)+")")
	}
	return coqList(cases)
}

func (t *foTr) copyArg(e ast.Expr, strct, recv string, locals map[string]string) string {
	// *p.F.Copy()
	if st, ok := e.(*ast.StarExpr); ok {
		if c, ok := st.X.(*ast.CallExpr); ok && len(c.Args) == 0 {
			if se, ok := c.Fun.(*ast.SelectorExpr); ok && se.Sel.Name == "Copy" {
				if f, ok := recvField(se.X, recv); ok && t.fieldType(strct, f) == "Name" {
					return "ACopyName " + coqString(f)
				}
			}
		}
	}
	// CopyForm(p.F)
	if c, ok := e.(*ast.CallExpr); ok && isIdent(c.Fun, "CopyForm") && len(c.Args) == 1 {
		if f, ok := recvField(c.Args[0], recv); ok && t.fieldType(strct, f) == "Form" {
			return "ACopyForm " + coqString(f)
		}
	}
	// p.F (shared / copied by value)
	if f, ok := recvField(e, recv); ok && t.fieldType(strct, f) != "" {
		return "AShare " + coqString(f)
	}
	if id, ok := e.(*ast.Ident); ok && locals[id.Name] != "" {
		return locals[id.Name]
	}
	t.fail(e, "constructor argument outside the fragment (*p.F.Copy() | CopyForm(p.F) | p.F | local holding one of these)")
	return ""
}

func (t *foTr) copyCase(ss []ast.Stmt, strct, recv string) string {
	locals := map[string]string{}
	pendingMake := map[string]string{} // local slice -> field it was sized from, waiting for its fill loop
	for k, s := range ss {
		switch x := s.(type) {
		case *ast.AssignStmt:
			if x.Tok == token.DEFINE && len(x.Lhs) == 1 && len(x.Rhs) == 1 {
				v, ok := x.Lhs[0].(*ast.Ident)
				if ok && v.Name != "_" && locals[v.Name] == "" && pendingMake[v.Name] == "" {
					// v := make([]T, len(p.F))
					if c, ok := x.Rhs[0].(*ast.CallExpr); ok && isIdent(c.Fun, "make") && len(c.Args) == 2 {
						if lc, ok := c.Args[1].(*ast.CallExpr); ok && isIdent(lc.Fun, "len") && len(lc.Args) == 1 {
							if f, ok := recvField(lc.Args[0], recv); ok && t.src(c.Args[0]) == t.fieldType(strct, f) && strings.HasPrefix(t.fieldType(strct, f), "[]") {
								pendingMake[v.Name] = f
								continue
							}
						}
						t.fail(s, "make that is not make(<type of p.F>, len(p.F))")
					}
					locals[v.Name] = t.copyArg(x.Rhs[0], strct, recv, locals)
					continue
				}
			}
		case *ast.ForStmt:
			// for i := 0; i < len(p.F); i++ { … V[i] = copy of p.F[i] }
			init := t.src(x.Init)
			matched := false
			if strings.HasSuffix(init, " := 0") {
				i := strings.TrimSuffix(init, " := 0")
				for v, f := range pendingMake {
					if t.src(x.Cond) != i+" < len("+recv+"."+f+")" || t.src(x.Post) != i+"++" {
						continue
					}
					body := t.src(x.Body)
					elem := recv + "." + f + "[" + i + "]"
					switch t.fieldType(strct, f) {
					case "[]*BranchForm":
						if body == "{ "+v+"["+i+"] = CopyForm("+elem+").(*BranchForm) }" ||
							(len(x.Body.List) == 2 && strings.HasSuffix(t.src(x.Body.List[0]), " := CopyForm("+elem+").(*BranchForm)") &&
								t.src(x.Body.List[1]) == v+"["+i+"] = "+strings.TrimSuffix(t.src(x.Body.List[0]), " := CopyForm("+elem+").(*BranchForm)")) {
							locals[v] = "ACopyBranches " + coqString(f)
						}
					case "[]Name":
						if body == "{ "+v+"["+i+"] = *"+elem+".Copy() }" {
							locals[v] = "ACopyNames " + coqString(f)
						}
					}
					if locals[v] != "" {
						delete(pendingMake, v)
						matched = true
						break
					}
				}
			}
			if matched {
				continue
			}
			t.fail(s, "loop is not the element-wise copy `for i := 0; i < len(p.F); i++ { V[i] = <copy of p.F[i]> }` of a slice made just before")
		case *ast.ReturnStmt:
			if k == len(ss)-1 && len(x.Results) == 1 && len(pendingMake) == 0 {
				if c, ok := x.Results[0].(*ast.CallExpr); ok && !c.Ellipsis.IsValid() {
					if id, ok := c.Fun.(*ast.Ident); ok && strings.HasPrefix(id.Name, "New") {
						var args []string
						for _, a := range c.Args {
							args = append(args, t.copyArg(a, strct, recv, locals))
						}
						return "mkCCase " + coqString(id.Name) + " " + coqList(args)
					}
				}
			}
		}
		t.fail(s, "statement outside the fragment (v := <copy expr> | v := make(...) + fill loop | final return NewX(args))")
	}
	t.fail(nil, "case without a final `return NewX(…)`")
	return ""
}


// ---------------------------------------------------------------------------------------------
// name.go: (*Name).Initialized, Equal, Substitute
// ---------------------------------------------------------------------------------------------

func (t *foTr) nRef(e ast.Expr, recv string, params []string) (string, bool) {
	id, ok := e.(*ast.Ident)
	if !ok {
		return "", false
	}
	if id.Name == recv {
		return "RSelf", true
	}
	for k, p := range params {
		if p == id.Name {
			return fmt.Sprintf("(RParam %d)", k), true
		}
	}
	return "", false
}

// x.F -> (ref of x, F)
func (t *foTr) nSel(e ast.Expr, recv string, params []string) (string, string, bool) {
	se, ok := e.(*ast.SelectorExpr)
	if !ok {
		return "", "", false
	}
	r, ok := t.nRef(se.X, recv, params)
	return r, se.Sel.Name, ok
}

// x.Initialized() -> ref of x
func (t *foTr) nInitCall(e ast.Expr, recv string, params []string) (string, bool) {
	c, ok := e.(*ast.CallExpr)
	if !ok || len(c.Args) != 0 {
		return "", false
	}
	r, f, ok := t.nSel(c.Fun, recv, params)
	return r, ok && f == "Initialized"
}

func (t *foTr) nBexp(e ast.Expr, recv string, params []string) string {
	switch x := e.(type) {
	case *ast.ParenExpr:
		return t.nBexp(x.X, recv, params)
	case *ast.UnaryExpr:
		if x.Op == token.NOT {
			return "(NBNot " + t.nBexp(x.X, recv, params) + ")"
		}
	case *ast.CallExpr:
		if r, ok := t.nInitCall(x, recv, params); ok {
			return "(NBInit " + r + ")"
		}
	case *ast.BinaryExpr:
		switch x.Op {
		case token.LAND:
			return "(NBAnd " + t.nBexp(x.X, recv, params) + " " + t.nBexp(x.Y, recv, params) + ")"
		case token.LOR:
			return "(NBOr " + t.nBexp(x.X, recv, params) + " " + t.nBexp(x.Y, recv, params) + ")"
		case token.EQL, token.NEQ:
			if a, ok := t.nInitCall(x.X, recv, params); ok && x.Op == token.EQL {
				if b, ok := t.nInitCall(x.Y, recv, params); ok {
					return "(NBInitEq " + a + " " + b + ")"
				}
			}
			if a, f, ok := t.nSel(x.X, recv, params); ok {
				if b, g, ok := t.nSel(x.Y, recv, params); ok && f == g && x.Op == token.EQL {
					switch f {
					case "Channel":
						return "(NBChanEq " + a + " " + b + ")"
					case "Ident":
						return "(NBIdentEq " + a + " " + b + ")"
					}
				}
				if f == "Channel" && isIdent(x.Y, "nil") && x.Op == token.NEQ {
					return "(NBChanNotNil " + a + ")"
				}
				if lit, ok := x.Y.(*ast.BasicLit); ok && f == "Ident" && lit.Value == "\"\"" && x.Op == token.NEQ {
					return "(NBIdentNonEmpty " + a + ")"
				}
			}
		}
	}
	t.fail(e, "condition outside the fragment (x.Initialized() | x.Channel != nil | a.Channel == b.Channel | a.Ident == b.Ident | x.Ident != \"\" | a.Initialized() == b.Initialized() | ! && ||)")
	return ""
}

func (t *foTr) nRet(ss []ast.Stmt, recv string, params []string) string {
	if len(ss) == 0 {
		t.fail(nil, "function can end without a return")
	}
	switch x := ss[0].(type) {
	case *ast.ReturnStmt:
		if len(x.Results) == 1 && len(ss) == 1 {
			return "(NRet " + t.nBexp(x.Results[0], recv, params) + ")"
		}
	case *ast.IfStmt:
		if x.Init == nil && x.Else == nil {
			return "(NRIf " + t.nBexp(x.Cond, recv, params) + " " + t.nRet(x.Body.List, recv, params) + " " + t.nRet(ss[1:], recv, params) + ")"
		}
	}
	t.fail(ss[0], "statement outside the fragment (if c { … return e } | final return e)")
	return ""
}

func (t *foTr) nStmts(ss []ast.Stmt, recv string, params []string) string {
	var out []string
	for _, s := range ss {
		out = append(out, t.nStmt(s, recv, params))
	}
	return coqList(out)
}

func (t *foTr) nStmt(s ast.Stmt, recv string, params []string) string {
	switch x := s.(type) {
	case *ast.AssignStmt:
		if x.Tok == token.ASSIGN && len(x.Lhs) == 1 && len(x.Rhs) == 1 {
			a, f, ok1 := t.nSel(x.Lhs[0], recv, params)
			b, g, ok2 := t.nSel(x.Rhs[0], recv, params)
			if ok1 && ok2 && a == "RSelf" && b != "RSelf" && f == g {
				return "NSet " + coqString(f) + " " + b
			}
		}
	case *ast.IfStmt:
		if x.Init == nil {
			c := t.nBexp(x.Cond, recv, params)
			th := t.nStmts(x.Body.List, recv, params)
			el := "[]"
			switch e := x.Else.(type) {
			case nil:
			case *ast.BlockStmt:
				el = t.nStmts(e.List, recv, params)
			case *ast.IfStmt:
				el = "[" + t.nStmt(e, recv, params) + "]"
			default:
				t.fail(s, "unrecognised else branch")
			}
			return "NIf " + c + " " + th + " " + el
		}
	}
	t.fail(s, "statement outside the fragment (n.F = x.F | if c {…} else {…})")
	return ""
}

func (t *foTr) nameOps(repo string) {
	path := repo + "/process/name.go"
	f, err := parser.ParseFile(t.fset, path, nil, 0)
	if err != nil {
		fmt.Fprintln(os.Stderr, "formops:", err)
		os.Exit(1)
	}
	var fields []string
	got := map[string]string{}
	for _, d := range f.Decls {
		switch x := d.(type) {
		case *ast.GenDecl:
			for _, sp := range x.Specs {
				if ts, ok := sp.(*ast.TypeSpec); ok && ts.Name.Name == "Name" {
					st, ok := ts.Type.(*ast.StructType)
					if !ok {
						t.where = "type Name"
						t.fail(ts, "not a struct")
					}
					for _, fd := range st.Fields.List {
						for _, n := range fd.Names {
							fields = append(fields, "("+coqString(n.Name)+", "+coqString(t.src(fd.Type))+")")
						}
					}
				}
			}
		case *ast.FuncDecl:
			if x.Recv == nil || len(x.Recv.List) != 1 || len(x.Recv.List[0].Names) != 1 || t.src(x.Recv.List[0].Type) != "*Name" {
				continue
			}
			recv := x.Recv.List[0].Names[0].Name
			var params []string
			for _, p := range x.Type.Params.List {
				for _, n := range p.Names {
					params = append(params, n.Name)
				}
				if t.src(p.Type) != "Name" {
					params = append(params, "") // placeholder: not usable as a name reference
				}
			}
			t.where = "(*Name)." + x.Name.Name
			switch x.Name.Name {
			case "Initialized":
				if len(params) != 0 || len(x.Body.List) != 1 {
					t.fail(x.Body, "not a single return")
				}
				r, ok := x.Body.List[0].(*ast.ReturnStmt)
				if !ok || len(r.Results) != 1 {
					t.fail(x.Body, "not a single return")
				}
				got["init"] = t.nBexp(r.Results[0], recv, params)
			case "Equal":
				if len(params) != 1 {
					t.fail(x.Type, "signature is not Equal(Name) bool")
				}
				got["equal"] = t.nRet(x.Body.List, recv, params)
			case "Substitute":
				if len(params) != 2 || x.Type.Results != nil {
					t.fail(x.Type, "signature is not Substitute(old, new Name)")
				}
				got["subst"] = t.nStmts(x.Body.List, recv, params)
			}
		}
	}
	t.where = "name.go"
	if got["init"] == "" || got["equal"] == "" || got["subst"] == "" || len(fields) == 0 {
		t.fail(nil, "type Name / Initialized / Equal / Substitute not found")
	}
	fmt.Println()
	fmt.Println("(* /repo/process/name.go *)")
	fmt.Println("Definition name_fields : list (string * string) := " + coqList(fields) + ".")
	fmt.Println()
	fmt.Println("Definition name_ops : name_table := mkNameTable")
	fmt.Println("  " + got["init"])
	fmt.Println("  " + got["equal"])
	fmt.Println("  " + got["subst"] + ".")
}

// ---------------------------------------------------------------------------------------------

func dumpFormOps(repo string) {
	t := &foTr{fset: token.NewFileSet(), structs: map[string][][2]string{}}
	path := repo + "/process/form.go"
	f, err := parser.ParseFile(t.fset, path, nil, 0)
	if err != nil {
		fmt.Fprintln(os.Stderr, "formops:", err)
		os.Exit(1)
	}
	t.where = "struct declarations"
	for _, d := range f.Decls {
		gd, ok := d.(*ast.GenDecl)
		if !ok || gd.Tok != token.TYPE {
			continue
		}
		for _, sp := range gd.Specs {
			ts := sp.(*ast.TypeSpec)
			st, ok := ts.Type.(*ast.StructType)
			if !ok || !strings.HasSuffix(ts.Name.Name, "Form") {
				continue
			}
			fl := [][2]string{}
			for _, fd := range st.Fields.List {
				if len(fd.Names) == 0 {
					t.fail(fd, "embedded field")
				}
				for _, n := range fd.Names {
					fl = append(fl, [2]string{n.Name, t.src(fd.Type)})
				}
			}
			t.structs[ts.Name.Name] = fl
			t.order = append(t.order, ts.Name.Name)
		}
	}
	subst := map[string]string{}
	free := map[string]string{}
	helpers := map[string]string{}
	var ctors []string
	hasCont, copyCases := "", ""
	helperNames := map[string]bool{"appendIfNotSelf": true, "removeBoundName": true, "nameExists": true, "mergeTwoNamesList": true}
	for _, d := range f.Decls {
		fd, ok := d.(*ast.FuncDecl)
		if !ok || fd.Body == nil {
			continue
		}
		if fd.Recv != nil {
			if fd.Name.Name != "Substitute" && fd.Name.Name != "FreeNames" {
				continue
			}
			if len(fd.Recv.List) != 1 || len(fd.Recv.List[0].Names) != 1 {
				continue
			}
			st, ok := fd.Recv.List[0].Type.(*ast.StarExpr)
			if !ok {
				t.where = fd.Name.Name
				t.fail(fd.Recv, "method with a value receiver")
			}
			sid, ok := st.X.(*ast.Ident)
			if !ok || t.structs[sid.Name] == nil {
				continue
			}
			recv := fd.Recv.List[0].Names[0].Name
			t.where = "(*" + sid.Name + ")." + fd.Name.Name
			if fd.Name.Name == "Substitute" {
				var ps []string
				for _, p := range fd.Type.Params.List {
					if t.src(p.Type) != "Name" {
						t.fail(p, "parameter type is not Name")
					}
					for _, n := range p.Names {
						ps = append(ps, n.Name)
					}
				}
				if len(ps) != 2 || fd.Type.Results != nil {
					t.fail(fd.Type, "signature is not Substitute(old, new Name)")
				}
				if _, dup := subst[sid.Name]; dup {
					t.fail(fd, "two Substitute methods")
				}
				subst[sid.Name] = t.substStmts(fd.Body.List, sid.Name, recv, ps[0], ps[1])
			} else {
				if len(fd.Type.Params.List) != 0 || fd.Type.Results == nil || len(fd.Type.Results.List) != 1 || t.src(fd.Type.Results.List[0].Type) != "[]Name" || len(fd.Type.Results.List[0].Names) != 0 {
					t.fail(fd.Type, "signature is not FreeNames() []Name")
				}
				free[sid.Name] = t.fnBody(fd.Body.List, sid.Name, recv)
			}
			continue
		}
		switch {
		case helperNames[fd.Name.Name]:
			helpers[fd.Name.Name] = t.helper(fd)
		case fd.Name.Name == "FormHasContinuation":
			hasCont = t.hasCont(fd)
		case fd.Name.Name == "CopyForm":
			copyCases = t.copyForm(fd)
		default:
			if c, ok := t.ctor(fd); ok {
				ctors = append(ctors, c)
			}
		}
	}
	t.where = "form.go"
	for _, s := range t.order {
		if subst[s] == "" {
			t.fail(nil, "struct "+s+" has no Substitute method")
		}
		if free[s] == "" {
			t.fail(nil, "struct "+s+" has no FreeNames method")
		}
	}
	var hn []string
	for h := range helperNames {
		if helpers[h] == "" {
			t.fail(nil, "helper "+h+" not found")
		}
		hn = append(hn, h)
	}
	sort.Strings(hn)
	if hasCont == "" || copyCases == "" {
		t.fail(nil, "FormHasContinuation / CopyForm not found")
	}

	fmt.Println("(* GENERATED by `probe formops` from /repo/process/form.go (go/ast). Do not edit. *)")
	fmt.Println("Require Import Grits.Base Grits.FormIR.")
	fmt.Println()
	fmt.Println("Definition structs : list (string * list (string * string)) := [")
	for i, s := range t.order {
		var fs []string
		for _, ft := range t.structs[s] {
			fs = append(fs, "("+coqString(ft[0])+", "+coqString(ft[1])+")")
		}
		sep := ";"
		if i == len(t.order)-1 {
			sep = ""
		}
		fmt.Printf("  (%s, %s)%s\n", coqString(s), coqList(fs), sep)
	}
	fmt.Println("].")
	fmt.Println()
	fmt.Println("Definition ctors : list (string * ctor) := [")
	fmt.Println("  " + strings.Join(ctors, ";\n  "))
	fmt.Println("].")
	fmt.Println()
	emit := func(name, ty string, m map[string]string, keys []string) {
		fmt.Printf("Definition %s : list (string * %s) := [\n", name, ty)
		for i, s := range keys {
			sep := ";"
			if i == len(keys)-1 {
				sep = ""
			}
			fmt.Printf("  (%s, %s)%s\n", coqString(s), m[s], sep)
		}
		fmt.Println("].")
		fmt.Println()
	}
	emit("subst_methods", "list sstmt", subst, t.order)
	emit("free_methods", "fmethod", free, t.order)
	emit("helpers", "helper", helpers, hn)
	fmt.Println("Definition has_cont : list (string * bool) * bool :=")
	fmt.Println("  " + hasCont + ".")
	fmt.Println()
	fmt.Println("Definition copy_cases : list (string * ccase) :=")
	fmt.Println("  " + strings.ReplaceAll(copyCases, "; (\"", ";\n   (\"") + ".")
	fmt.Println()
	fmt.Println("Definition table : table := mkTable structs ctors subst_methods free_methods helpers has_cont copy_cases.")
}

// nameops: the same for (*Name).Initialized / Equal / Substitute of /repo/process/name.go -> gen/NameOps.v
func dumpNameOps(repo string) {
	t := &foTr{fset: token.NewFileSet(), structs: map[string][][2]string{}}
	fmt.Println("(* GENERATED by `probe nameops` from /repo/process/name.go (go/ast). Do not edit. *)")
	fmt.Println("Require Import Grits.Base Grits.NameIR.")
	t.nameOps(repo)
}

func init() {
	register("formops", func(a []string) { dumpFormOps(repoRoot()) })
	register("nameops", func(a []string) { dumpNameOps(repoRoot()) })
}
