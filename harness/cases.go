package main

// Case files: one case per line, `id <TAB> hex(text)`. Output: `id <TAB> observable`.

import (
	"bufio"
	"encoding/hex"
	"fmt"
	"os"
	"strings"
	"time"

	gparser "grits/parser"
	"grits/process"
)

type testCase struct {
	id   string
	text string
}

func readCases(file string) []testCase {
	f, err := os.Open(file)
	if err != nil {
		fmt.Fprintln(os.Stderr, err)
		os.Exit(2)
	}
	defer f.Close()
	var out []testCase
	sc := bufio.NewScanner(f)
	sc.Buffer(make([]byte, 1<<20), 1<<28)
	for sc.Scan() {
		line := sc.Text()
		i := strings.IndexByte(line, '\t')
		if i < 0 {
			continue
		}
		b, err := hex.DecodeString(line[i+1:])
		if err != nil {
			continue
		}
		out = append(out, testCase{line[:i], string(b)})
	}
	return out
}

// run f with a watchdog; returns "HANG" on timeout and "PANIC" when f panics
func guarded(timeout time.Duration, f func() string) string {
	ch := make(chan string, 1)
	go func() {
		defer func() {
			if r := recover(); r != nil {
				ch <- "PANIC"
			}
		}()
		ch <- f()
	}()
	select {
	case r := <-ch:
		return r
	case <-time.After(timeout):
		return "HANG"
	}
}

func scanObs(text string) string {
	toks := gparser.VerifScan(text, len(text)+2)
	parts := make([]string, 0, len(toks))
	for _, t := range toks {
		if t.Code == 0 {
			if t.Value == "" {
				parts = append(parts, "EOF")
			} else {
				parts = append(parts, "ILLEGAL")
			}
			continue
		}
		parts = append(parts, gparser.VerifTokenName(t.Code)+":"+hex.EncodeToString([]byte(t.Value)))
	}
	return strings.Join(parts, " ")
}

func parseObs(text string) string {
	procs, assumed, env, err := gparser.ParseString(text)
	if err != nil {
		return "ERR"
	}
	return "OK\t" + strings.Join(process.VerifDumpProgram(procs, assumed, env, false), " ;; ")
}

func runCases(file string, timeout time.Duration, f func(string) string) {
	w := bufio.NewWriter(os.Stdout)
	defer w.Flush()
	// after 25 hangs the remaining cases are not run: each costs a full watchdog period and leaks a goroutine, and 25
	// hanging inputs are enough to report (the check would otherwise take hours on a tree that hangs on a common shape)
	hangs := 0
	for _, c := range readCases(file) {
		c := c
		if hangs >= 25 {
			fmt.Fprintf(w, "%s\tHANG-SKIPPED\n", c.id)
			continue
		}
		r := guarded(timeout, func() string { return f(c.text) })
		if r == "HANG" {
			hangs++
		}
		fmt.Fprintf(w, "%s\t%s\n", c.id, r)
	}
}

func tcObs(text string) string {
	procs, assumed, env, err := gparser.ParseString(text)
	if err != nil {
		return "PARSE-ERR"
	}
	env.LogLevels = []process.LogLevel{}
	err = process.Typecheck(procs, assumed, env)
	if err != nil {
		if strings.HasPrefix(err.Error(), "internal typechecker error") {
			return "REJECT-INTERNAL " + err.Error()
		}
		return "REJECT"
	}
	return "ACCEPT\t" + strings.Join(process.VerifDumpProgram(procs, assumed, env, true), " ;; ")
}
