package main

// run1: execute ONE program in this (fresh) OS process through the public API the repository's
// own tests use, and report what can be observed: the `> label` lines (on the real stdout, in
// order), and, at quiescence (just before the runtime cancels its context), which process
// goroutines are still alive and what each blocks on.  A run-time panic kills this process
// with a Go trace: the caller sees that as the outcome.

import (
	"context"
	"encoding/hex"
	"encoding/json"
	"fmt"
	"os"
	"regexp"
	"runtime"
	"strings"
	"sync"
	"time"

	gparser "grits/parser"
	"grits/process"
)

type liveG struct {
	Where string `json:"where"` // innermost grits/process function
	State string `json:"state"` // goroutine wait state as the Go runtime reports it
}

type runResult struct {
	Verdict   string  `json:"verdict"` // parse-err | reject | ran | runtime-error
	Live      []liveG `json:"live"`
	Processes uint64  `json:"processes"`
	Dead      uint64  `json:"dead"`
	Rules     []string `json:"rules,omitempty"`
	Detail    string  `json:"detail,omitempty"`
}

var goroutineHdr = regexp.MustCompile(`^goroutine \d+ \[([^\],]+)`)

func snapshotGoroutines() []liveG {
	buf := make([]byte, 1<<22)
	n := runtime.Stack(buf, true)
	var out []liveG
	for _, g := range strings.Split(string(buf[:n]), "\n\n") {
		lines := strings.Split(g, "\n")
		if len(lines) == 0 {
			continue
		}
		m := goroutineHdr.FindStringSubmatch(lines[0])
		if m == nil {
			continue
		}
		where := ""
		isProc := false
		for _, l := range lines[1:] {
			if strings.HasPrefix(l, "grits/process.") {
				fn := strings.TrimPrefix(l, "grits/process.")
				if i := strings.Index(fn, "("); i >= 0 && !strings.HasPrefix(fn, "(") {
					fn = fn[:i]
				} else if strings.HasPrefix(fn, "(") {
					// method: (*T).name(args)
					if j := strings.LastIndex(fn, "("); j > 0 {
						fn = fn[:j]
					}
				}
				if where == "" {
					where = fn
				}
				if strings.Contains(fn, "transitionLoop") {
					isProc = true
				}
			}
		}
		if isProc {
			out = append(out, liveG{Where: where, State: m[1]})
		}
	}
	return out
}

func run1(args []string) {
	// args: mode(async|sync|np) monitor(0|1) timeout_ms hextext [notypecheck]
	mode := map[string]process.Execution_Version{"async": process.NORMAL_ASYNC, "sync": process.NORMAL_SYNC, "np": process.NON_POLARIZED_SYNC}[args[0]]
	useMonitor := args[1] == "1"
	var timeoutMs int
	fmt.Sscanf(args[2], "%d", &timeoutMs)
	b, _ := hex.DecodeString(args[3])
	typecheck := !(len(args) > 4 && args[4] == "notypecheck")
	res := runResult{}
	emit := func() {
		j, _ := json.Marshal(res)
		fmt.Printf("@@RESULT %s\n", j)
	}
	procs, assumed, env, err := gparser.ParseString(string(b))
	if err != nil {
		res.Verdict = "parse-err"
		emit()
		return
	}
	env.LogLevels = []process.LogLevel{}
	if typecheck {
		if err := process.Typecheck(procs, assumed, env); err != nil {
			res.Verdict = "reject"
			res.Detail = err.Error()
			emit()
			return
		}
	}
	re, _, cancel := process.NewRuntimeEnvironment()
	re.GlobalEnvironment = env
	re.UseMonitor = useMonitor
	re.Color = false
	re.Delay = 0
	re.ExecutionVersion = mode
	re.Typechecked = typecheck
	channels := re.CreateChannelForEachProcess(procs)
	re.SubstituteNameInitialization(procs, channels)
	if useMonitor {
		wg := new(sync.WaitGroup)
		wg.Add(1)
		re.InitializeGivenMonitor(wg, process.NewMonitor(re, nil), nil)
		wg.Wait()
	}
	var once sync.Once
	var cancelWrapped context.CancelFunc = func() {
		once.Do(func() {
			// quiescence detected by the runtime: look at the goroutines before they are cancelled
			res.Live = snapshotGoroutines()
		})
		cancel()
	}
	go re.HeartbeatReceiver(time.Duration(timeoutMs)*time.Millisecond, cancelWrapped)
	re.StartTransitions(procs)
	select {
	case <-re.Ctx().Done():
		res.Verdict = "ran"
		if useMonitor {
			_, rules := re.StopMonitor()
			for _, r := range rules {
				res.Rules = append(res.Rules, process.RuleString[r.Rule])
			}
		}
	case e := <-re.ErrorChan():
		res.Verdict = "runtime-error"
		res.Detail = e.Error()
	}
	res.Processes = re.ProcessCount()
	res.Dead = re.DeadProcessCount()
	os.Stdout.Sync()
	emit()
}
