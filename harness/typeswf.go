package main

// wf / wfann: observables of the type well-formedness checks (properties C10, C16).
//
//   wf    text -> parser.ParseString -> types.SanityChecksTypeDefinitions on the parsed definitions
//         one line:  PARSE-ERR
//                  | REJECT <TAB> type-lines
//                  | OK <TAB> type-lines <TAB> name=dump(types.Unfold(name)) ;; ...
//         type-lines = the `type <name> <mode> <body with modes>` lines of process.VerifDumpProgram.
//   wfann text -> parser.ParseString -> for every annotation type (function provider type and
//         parameter types, assumed names, process types; declaration order)
//         types.AddMissingModalities then types.SanityChecksType on that one type:
//         PARSE-ERR | ANN <TAB> (OK|REJECT) dump ;; ...
// Both run under the runCases watchdog: HANG / PANIC are observables.

import (
	"strings"
	"time"

	gparser "grits/parser"
	"grits/process"
	"grits/types"
)

func typeLines(env *process.GlobalEnvironment) string {
	var out []string
	for _, l := range process.VerifDumpProgram(nil, nil, env, false) {
		if strings.HasPrefix(l, "type ") {
			out = append(out, l)
		}
	}
	return strings.Join(out, " ;; ")
}

func wfObs(text string) string {
	_, _, env, err := gparser.ParseString(text)
	if err != nil {
		return "PARSE-ERR"
	}
	var defs []types.SessionTypeDefinition
	if env.Types != nil {
		defs = *env.Types
	}
	err = types.SanityChecksTypeDefinitions(defs)
	lines := typeLines(env)
	if err != nil {
		return "REJECT\t" + lines
	}
	lenv := types.ProduceLabelledSessionTypeEnvironment(defs)
	us := make([]string, 0, len(defs))
	for _, d := range defs {
		u := types.Unfold(types.NewLabelType(d.Name, d.Modality), lenv)
		us = append(us, d.Name+"="+process.VerifDumpType(u))
	}
	return "OK\t" + lines + "\t" + strings.Join(us, " ;; ")
}

func wfannObs(text string) string {
	procs, assumed, env, err := gparser.ParseString(text)
	if err != nil {
		return "PARSE-ERR"
	}
	var defs []types.SessionTypeDefinition
	if env.Types != nil {
		defs = *env.Types
	}
	var ts []types.SessionType
	if env.FunctionDefinitions != nil {
		for _, f := range *env.FunctionDefinitions {
			if f.Type != nil {
				ts = append(ts, f.Type)
			}
			for _, p := range f.Parameters {
				if p.Type != nil {
					ts = append(ts, p.Type)
				}
			}
		}
	}
	for _, a := range assumed {
		if a.Type != nil {
			ts = append(ts, a.Type)
		}
	}
	for _, p := range procs {
		if p.Type != nil {
			ts = append(ts, p.Type)
		}
	}
	lenv := types.ProduceLabelledSessionTypeEnvironment(defs)
	out := make([]string, 0, len(ts))
	for i := range ts {
		types.AddMissingModalities(&ts[i], lenv)
		verdict := "OK"
		if err := types.SanityChecksType([]types.SessionType{ts[i]}, defs); err != nil {
			verdict = "REJECT"
		}
		out = append(out, verdict+" "+process.VerifDumpType(ts[i]))
	}
	return "ANN\t" + strings.Join(out, " ;; ")
}

func init() {
	register("wf", func(a []string) { runCases(a[0], 5*time.Second, wfObs) })
	register("wfann", func(a []string) { runCases(a[0], 5*time.Second, wfannObs) })
}
