#!/usr/bin/env python3
"""writes MANIFEST.json from the table below (kept in one place so that it stays valid)"""
import json, os
V = os.path.dirname(os.path.dirname(os.path.abspath(__file__)))

import glob
CLAIMED = {}
for fn in sorted(glob.glob(os.path.join(V, "lib", "manifest.d", "*.json"))):
    d = json.load(open(fn))
    CLAIMED[d["property_id"]] = d

NOT_YET = {}

def main():
    props = [json.loads(l) for l in open(os.path.join(V, "properties.jsonl"))]
    checks, na = [], []
    for p in props:
        i = p["id"]
        if i in CLAIMED:
            c = CLAIMED[i]
            checks.append({
                "property_id": i,
                "quick_cmd": "bin/check %s quick" % i,
                "thorough_cmd": "bin/check %s thorough" % i,
                "evidence_file": "/verif/evidence/%s.json" % i,
                "replay_cmd_template": "bin/check %s --replay {path}" % i,
                "engine": "coq-model",
                "level_claimed": {"category": "proof", "text": c["text"], "design_ref": c["design"]},
                "level_note": c["note"],
                "technique": c["technique"],
            })
        else:
            na.append({"property_id": i, "reason": NOT_YET.get(i, "check not built yet in this framework (planned: see DESIGN.md section 6); not claimed until its model, theorems and correspondence run")})
    m = {
        "version": 1,
        "setup_cmd": "bin/setup",
        "hooks": {
            "guard": "verif",
            "enable": "go build -tags verif (the probe in /verif/harness is built with it against /repo via a replace directive)",
            "baseline_off_cmd": "cd /repo && GOFLAGS=-mod=mod go test -vet=off -count=1 -timeout 25m ./...",
            "source_commits": ["65a255f verif hooks: canonical dumps of tokens, names, forms and types (build tag verif, add-only)"],
            "add_only": True,
        },
        "engines": [{"name": "coq-model", "path": "/verif/coq", "serves_properties": sorted(CLAIMED),
                     "kind_free_text": "Coq 8.16 model + theorems; translators (harness probe) regenerate data-like parts from /repo; extracted OCaml model vs Go probe correspondence"}],
        "checks": checks,
        "notes": "All checks share bin/check and a locked, incremental build prelude (translators, coq make, extraction, Go probe). Genuine defects of the pinned tree were repaired by `fix:` commits in /repo (list and known findings: known_findings.jsonl, DESIGN.md section 7). VERIF_REPO can point the whole machinery at another checkout (used only to evaluate seeded changes in isolation). See DESIGN.md.",
        "not_applicable": na,
    }
    with open(os.path.join(V, "MANIFEST.json"), "w") as f:
        json.dump(m, f, indent=1)
        f.write("\n")

if __name__ == "__main__":
    main()
