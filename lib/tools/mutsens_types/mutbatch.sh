#!/bin/bash
cd /root/work/a2
M=lib/tools/mutsens_types/mutate.sh
$M "M2-contractive-one-alias" types/types_sanity_checks.go "	return unfoldedType.isContractive(labelledTypesEnv, snapshots)" "	_, isLabel := unfoldedType.(*LabelType); if isLabel { return true }; return unfoldedType.isContractive(labelledTypesEnv, snapshots)"
$M "M3-revert-F23" types/types_sanity_checks.go "if j.Modality != nil && !j.SessionType.Modality().Equals(j.Modality) {" "if false {"
$M "M4-label-refmode-not-compared" types/modality.go "	if !q.Mode.Equals(typeFound.Mode) {" "	if false {"
$M "M5-unit-mode-not-compared" types/modality.go "		return fmt.Errorf(\"mode of unit type" "		return nil; return fmt.Errorf(\"mode of unit type"
$M "M6-downshift-legality-dropped" types/modality.go "	if !q.From.CanBeDownshiftedTo(q.To) {" "	if false {"
$M "M7-commonMode-last" types/modality.go "			commonMode = mode
			break" "			commonMode = mode"
$M "M8-dup-def-not-checked" types/types_sanity_checks.go "		if exists {
			return fmt.Errorf(\"error redefinition" "		if false && exists {
			return fmt.Errorf(\"error redefinition"
$M "M9-shift-cont-takes-target-mode" types/modality.go "func (q *UpType) assignUnsetModalities(labelledTypesEnv LabelledTypesEnv, currentMode Modality) {
	q.Continuation.assignUnsetModalities(labelledTypesEnv, q.From)" "func (q *UpType) assignUnsetModalities(labelledTypesEnv LabelledTypesEnv, currentMode Modality) {
	q.Continuation.assignUnsetModalities(labelledTypesEnv, q.To)"
$M "M10-unfold-one-step" types/types.go "			return Unfold(unfoldedSessionType.Type, labelledTypesEnv)" "			return unfoldedSessionType.Type"
$M "M11-default-mode-linear" types/modality.go "		typesDef[i].Modality = DefaultMode()" "		typesDef[i].Modality = NewLinearMode()"
$M "M12-used-labels-shared-left" types/modality.go "	leftUsedLabel := copyMap(usedLabels)" "	leftUsedLabel := usedLabels"
$M "M13-undefined-name-accepted" types/types_sanity_checks.go "	if !LabelledTypedExists(labelledTypesEnv, q.Label) {" "	if false {"
$M "M14-up-legality-uses-down" types/modality.go "	if !q.From.CanBeUpshiftedTo(q.To) {" "	if !q.From.CanBeDownshiftedTo(q.To) {"
$M "M15-addmissing-default-linear" types/modality.go "		(*t).assignUnsetModalities(labelledTypesEnv, DefaultMode())" "		(*t).assignUnsetModalities(labelledTypesEnv, NewLinearMode())"
echo BATCH-DONE
