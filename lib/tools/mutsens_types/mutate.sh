#!/bin/bash
# Mutation-sensitivity of the C10/C16 tie (not part of bin/check): applies one edit to a scratch copy of /repo/types
# (.cache/repo_mut, harness copy .cache/harness_mut with its replace directive pointing there), rebuilds the probe and runs
# the quick C10/C16 suites against it.  Prepare once: cp -r /repo .cache/repo_mut; cp -r harness .cache/harness_mut;
# sed -i "s#replace grits => /repo#replace grits => $PWD/.cache/repo_mut#" .cache/harness_mut/go.mod ; needs .cache/bin/model.
# usage: mutate.sh <name> <file> <python-replace-old> <new>
set -e
cd /root/work/a2/.cache
rm -rf repo_mut/types && cp -r /repo/types repo_mut/types
python3 - "$2" "$3" "$4" <<'PY'
import sys
p="/root/work/a2/.cache/repo_mut/"+sys.argv[1]
s=open(p).read()
old,new=sys.argv[2],sys.argv[3]
assert s.count(old)>=1, "pattern not found"
s=s.replace(old,new,1)
open(p,"w").write(s)
PY
export GOFLAGS=-mod=mod GOPROXY=off GOSUMDB=off GOTOOLCHAIN=local
(cd harness_mut && go build -tags verif -o ../bin/probe_mut . ) || { echo "$1: BUILD FAILED"; exit 0; }
cd /root/work/a2
for P in C10 C16; do
  r=$(PROBE=.cache/bin/probe_mut python3 lib/tools/mutsens_types/try3.py $P 2>&1 | grep -E '^violations|^first' | tr '\n' ' ')
  echo "$1 [$P]: $r"
done
