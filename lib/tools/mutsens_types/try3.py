import sys, os, json, time, importlib
sys.path.insert(0, "lib")
from vlib import common as C
class B: pass
b = B(); b.probe = os.path.abspath(os.environ.get("PROBE", ".cache/bin/probe")); b.model = os.path.abspath(".cache/bin/model"); b.probe_error=None; b.model_error=None
mod = importlib.import_module("vlib.props." + sys.argv[1])
res = mod.run(b, None, "quick", 20260923)
print("violations", len(res["violations"]), [ (v.replay.get("kind"), v.found_input) for v in res["violations"]][:4])
if res["violations"]:
    v=res["violations"][0]
    print("first", v.what[:160].replace("\n"," "), "|", (v.replay.get("input_text") or "")[:120].replace("\n"," ; "))
