#!/usr/bin/env python3
"""writes lib/design_seeded.md from seeded/*/meta.json"""
import glob, json, os
V = os.path.dirname(os.path.dirname(os.path.abspath(__file__)))
rows = []
hist = json.load(open(os.path.join(V, "lib", "seeded_history.json"))) if os.path.exists(os.path.join(V, "lib", "seeded_history.json")) else {}
for d in sorted(glob.glob(os.path.join(V, "seeded", "*"))):
    mf = os.path.join(d, "meta.json")
    if not os.path.exists(mf):
        continue
    m = json.load(open(mf))
    what = m.get("summary") or ""
    if not what:
        try:
            rd = open(os.path.join(d, "README.md")).read()
            for line in rd.split("\n"):
                if line.strip() and not line.startswith("#"):
                    what = line.strip()
                    break
        except OSError:
            pass
    caught = ", ".join("%s%s" % (c, " (no-failing-input-found)" if v.get("no_failing_input_found") else "") for c, v in sorted(m["checks"].items()) if v["caught"]) or "—"
    missed = ", ".join(c for c, v in sorted(m["checks"].items()) if not v["caught"]) or "—"
    rows.append("| `seeded/%s` | %s | %s | %s | %s | %s |" % (os.path.basename(d), m["breaks_property"], what[:220].replace("|", "/"), caught, missed, hist.get(os.path.basename(d), "caught at the first evaluation")))
out = ["| change | breaks | what it does | caught by (quick tier) | run but silent | history |", "|---|---|---|---|---|---|"] + rows
out += ["", "`run but silent` lists checks of OTHER properties that were also run against the change and, correctly or not, did not",
        "react; a change is counted as caught when the check of the property it was written against reports a violation.",
        "Each `meta.json` records the confirmation (patch applies, builds, suite passes, demonstration fails with / passes without",
        "the change) and the exit status and timing of every check run against it."]
open(os.path.join(V, "lib", "design_seeded.md"), "w").write("\n".join(out) + "\n")
print(len(rows), "seeded changes")
