"""The `run` correspondence suite shared by C01–C04, C13, C14, C19: accepted closed terminating
programs are executed by the REAL interpreter (one fresh OS process per run: `probe run1`) in the
three execution modes x monitor on/off (x GOMAXPROCS in the thorough tier), and by the extracted
Coq model under several schedules; the observables of the two are returned for the property
modules to compare (prints as multiset and as sequence, error / panic, goroutines alive at
quiescence and what they block on, causal order of the model's run)."""
import collections
import concurrent.futures
import glob
import hashlib
import json
import os
import random
import re
import time

from . import common as C
from . import suite as S
from . import textgen as T

MODES = ["async", "sync", "np"]


def hexs(t):
    return t.encode("latin1", "replace").hex()


def is_closed(text):
    return re.search(r"\bassuming\b", strip_comments(text)) is None


def strip_comments(t):
    t = re.sub(r"/\*.*?\*/", " ", t, flags=re.S)
    return re.sub(r"//[^\n]*", " ", t)


def uses_contraction(text):
    t = strip_comments(text)
    return bool(re.search(r"\bsplit\b", t) or re.search(r"\bprc\s*\[[^\]]*,", t))


def candidate_programs(seed, tier):
    """(id, text) of programs worth running: repository examples, corpus/run, typed snippets of the
    test files, generated programs (lib/vlib/proggen.py when present)"""
    out = []
    for p in sorted(glob.glob(os.path.join(C.CORPUS, "run", "*.grits"))):
        out.append(("corpus:" + os.path.basename(p), open(p, "rb").read().decode("latin1")))
    from . import runshapes
    out.extend(runshapes.programs())
    from . import declshapes
    for i, k, t in declshapes.stream():
        m = re.match(r"decl:(ladder|aliaschain|callchain):(\d+)", i)
        if m and int(m.group(2)) > 4:      # duplication doubles per level at run time
            continue
        if re.search(r"\bprc\b|\bexec\b", t):
            out.append((i, t))
    for i, t in T.harvest_seeds():
        if len(t) < 6000:
            out.append((i, t))
    try:
        from . import proggen
        rng = random.Random(seed)
        n = 60 if tier == "quick" else 400
        for k in range(n):
            try:
                pr = proggen.gen_program(rng, size=tier, closed=True, want_terminating=True)
                out.append(("gen:%d" % k, pr.text))
            except Exception:  # a generator failure must not take the check down
                continue
    except ImportError:
        pass
    seen, res = set(), []
    for i, t in out:
        if t not in seen and is_closed(t):
            seen.add(t)
            res.append((i, t))
    return res


LIVE_RE = [
    (re.compile(r"TransitionBySending"), "S"),
    (re.compile(r"TransitionByReceiving"), "R"),
]


def classify_live(g):
    where, state = g.get("where", ""), g.get("state", "")
    if "nil chan" in state:
        return "O"
    for rx, k in LIVE_RE:
        if rx.search(where):
            return k
    if "ForwardForm" in where:
        if state.startswith("chan send"):
            return "S"
        if state.startswith("chan receive"):
            return "R"
        return "O"
    if re.search(r"heartbeat|finishedRule|terminate|renamed|transitionLoop|Monitor", where):
        return "H"
    return "O"


def run_impl_once(probe, text, mode, monitor, timeout_ms, gomaxprocs=None, wall=60):
    env = dict(os.environ)
    if gomaxprocs:
        env["GOMAXPROCS"] = str(gomaxprocs)
    rc, out, err = C.run([probe, "run1", mode, "1" if monitor else "0", str(timeout_ms), hexs(text)], env=env, timeout=wall)
    prints = [l[2:] for l in out.split("\n") if l.startswith("> ")]
    res = {"rc": rc, "prints": prints, "verdict": None, "live": [], "panic": None, "races": 0}
    m = re.search(r"@@RESULT (\{.*\})", out)
    if m:
        try:
            j = json.loads(m.group(1))
            res["verdict"] = j.get("verdict")
            res["live"] = sorted(classify_live(g) for g in (j.get("live") or []))
            res["detail"] = (j.get("detail") or "")[:200]
        except json.JSONDecodeError:
            pass
    if rc != 0 or res["verdict"] is None:
        txt = err + out
        pm = re.search(r"^(panic: .*|fatal error: .*)$", txt, re.M)
        res["panic"] = (pm.group(1) if pm else ("exit status %d" % rc))[:300]
        if rc == 124:
            res["panic"] = "TIMEOUT (no result within %ds)" % wall
    res["races"] = (err + out).count("WARNING: DATA RACE")
    return res


def parse_model_line(line):
    f = line.split("\t")
    d = {"tag": f[0], "prints": [], "order": [], "live": {"S": 0, "R": 0, "O": 0}, "err": None}
    for x in f[1:]:
        if x.startswith("prints="):
            d["prints"] = [y for y in x[7:].split(",") if y]
        elif x.startswith("order="):
            d["order"] = [y for y in x[6:].split(",") if y]
        elif x.startswith("live="):
            m = re.match(r"S(\d+),R(\d+),O(\d+)", x[5:])
            if m:
                d["live"] = {"S": int(m.group(1)), "R": int(m.group(2)), "O": int(m.group(3))}
        elif x.startswith("err="):
            d["err"] = x[4:]
    return d


def parse_trace(line):
    """events of a model run -> list of dicts"""
    f = line.split("\t")
    if len(f) < 2 or f[0] != "RAN":
        return None
    evs = []
    for e in f[1].split("|"):
        if not e:
            continue
        p = e.split(";")
        if len(p) != 5:
            continue
        evs.append({"pids": p[0].split(",") if p[0] else [], "send": None if p[1] == "-" else p[1],
                    "recv": None if p[2] == "-" else p[2], "labels": [x for x in p[3].split(",") if x],
                    "spawned": [x for x in p[4].split(",") if x]})
    return evs


def causal_print_order(evs):
    """from the events of one model run: the print events and their happens-before relation
    (program order per process, spawn, send-before-receive).  returns (labels, preds) where
    preds[i] = set of print-event indices that must precede print event i"""
    n = len(evs)
    last_of = {}       # pid -> index of its latest event
    sender = {}        # channel -> index of the event that put a message on it
    hb = [set() for _ in range(n)]
    for i, e in enumerate(evs):
        for p in e["pids"]:
            if p in last_of:
                hb[i].add(last_of[p])
        if e["recv"] is not None and e["recv"] in sender:
            hb[i].add(sender[e["recv"]])
        for p in e["pids"]:
            last_of[p] = i
        for q in e["spawned"]:
            last_of[q] = i
        if e["send"] is not None:
            sender[e["send"]] = i
    # transitive closure restricted to printing events (events are already in a topological order)
    anc = [set() for _ in range(n)]
    for i in range(n):
        for j in hb[i]:
            anc[i].add(j)
            anc[i] |= anc[j]
    prints = []   # (event index, label)
    for i, e in enumerate(evs):
        for l in e["labels"]:
            prints.append((i, l))
    labels = [l for _, l in prints]
    preds = []
    for k, (i, _) in enumerate(prints):
        ps = set()
        for k2, (j, _) in enumerate(prints):
            if k2 != k and (j in anc[i] or (j == i and k2 < k)):
                ps.add(k2)
        preds.append(ps)
    return labels, preds


def is_linear_extension(seq, labels, preds, budget=20000):
    """can the observed label sequence be produced by emitting the print events in an order that
    respects preds?  (backtracking over same-label events)"""
    if collections.Counter(seq) != collections.Counter(labels):
        return False
    n = len(labels)
    done = [False] * n
    steps = [0]

    def go(pos):
        if pos == len(seq):
            return True
        steps[0] += 1
        if steps[0] > budget:
            return True   # give up: do not raise an alarm on an undecided search
        for k in range(n):
            if not done[k] and labels[k] == seq[pos] and all(done[p] for p in preds[k]):
                done[k] = True
                if go(pos + 1):
                    return True
                done[k] = False
        return False
    return go(0)


class RunData:
    def __init__(self):
        self.programs = []       # (id, text)
        self.skipped = collections.Counter()
        self.model = {}          # id -> mode -> seed -> parsed model line
        self.trace = {}          # id -> mode -> events
        self.impl = {}           # id -> (mode, monitor, gomaxprocs, rep) -> result dict
        self.wall = 0.0
        self.configs = []


def collect(b, tier, seed, race=False, max_programs=None, configs=None, timeout_ms=None):
    """run everything once; results are cached on disk per (binaries, tier, seed) so that the
    property checks that share this suite do not repeat it when started in a row on one tree"""
    probe = b.probe
    key_src = "|".join([tier, str(seed), str(race), str(max_programs), str(configs), str(timeout_ms)])
    h = hashlib.sha256(key_src.encode())
    for fn in (b.probe, b.model):
        try:
            h.update(open(fn, "rb").read())
        except OSError:
            h.update(b"missing")
    if race:
        rp = os.path.join(C.BIN, "probe_race")
        rc, out = C.go_build_race(C.HARNESS, rp)
        if rc != 0:
            raise RuntimeError("race build failed: " + out[-500:])
        probe = rp
        h.update(open(rp, "rb").read())
    cache = os.path.join(C.CACHE, "run-%s.json" % h.hexdigest()[:16])
    d = RunData()
    if os.path.exists(cache) and time.time() - os.path.getmtime(cache) < 1800:
        j = json.load(open(cache))
        d.programs = [tuple(x) for x in j["programs"]]
        d.skipped = collections.Counter(j["skipped"])
        d.model, d.trace = j["model"], j["trace"]
        d.impl = {k: {tuple(json.loads(c)): r for c, r in v.items()} for k, v in j["impl"].items()}
        d.wall, d.configs = j["wall"], [tuple(x) for x in j["configs"]]
        return d
    t0 = time.time()
    cands = candidate_programs(seed, tier)
    # 1. the model decides which programs are in scope: accepted, and its canonical run terminates
    cases = [(i, "", t) for i, t in cands]
    base = S.run_tool(b.model, "run-async-0", cases, timeout=1800)
    keep = []
    for i, t in cands:
        tag = base.get(i, "MISSING").split("\t")[0]
        if tag in ("RAN", "RT-ERROR"):
            keep.append((i, t))
        else:
            d.skipped[tag] += 1
    if max_programs:
        rng = random.Random(seed)
        corpus = [x for x in keep if x[0].startswith(("corpus:", "shape:"))]
        rest = [x for x in keep if not x[0].startswith(("corpus:", "shape:"))]
        rng.shuffle(rest)
        if max_programs < 40:       # the race-detector suite: a sample of the shapes, every corpus program
            shapes = [x for x in corpus if x[0].startswith("shape:")]
            rng.shuffle(shapes)
            corpus = [x for x in corpus if not x[0].startswith("shape:")] + shapes[:24]
        keep = corpus + rest[:max(max_programs // 2, max_programs - len(corpus))]
    d.programs = keep
    cases = [(i, "", t) for i, t in keep]
    seeds = [0, 1, 2, 3] if tier == "quick" else [0, 1, 2, 3, 4, 5, 6, 7]
    for i, _ in keep:
        d.model[i] = {m: {} for m in MODES}
        d.trace[i] = {}
    for m in MODES:
        for sd in seeds:
            res = S.run_tool(b.model, "run-%s-%d" % (m, sd), cases, timeout=1800)
            for i, _ in keep:
                d.model[i][m][str(sd)] = parse_model_line(res.get(i, "MISSING"))
        tr = S.run_tool(b.model, "trace-%s-0" % m, cases, timeout=1800)
        for i, _ in keep:
            d.trace[i][m] = parse_trace(tr.get(i, ""))
    # 2. the implementation
    if configs is None:
        if tier == "quick":
            configs = [(m, mon, None, 0) for m in MODES for mon in (0, 1)]
        else:
            configs = [(m, mon, g, 0) for m in MODES for mon in (0, 1) for g in (1, 4, 16)]
    d.configs = configs
    tmo = timeout_ms or (250 if tier == "quick" else 400)
    jobs = [(i, t, cfg) for i, t in keep for cfg in configs]
    for i, _ in keep:
        d.impl[i] = {}

    def work(job):
        i, t, (m, mon, g, r) = job
        return i, (m, mon, g, r), run_impl_once(probe, t, m, mon, tmo, g)
    with concurrent.futures.ThreadPoolExecutor(max_workers=int(os.environ.get("VERIF_RUN_JOBS", "8"))) as ex:
        for i, cfg, res in ex.map(work, jobs):
            d.impl[i][cfg] = res
    d.wall = time.time() - t0
    try:
        json.dump({"programs": d.programs, "skipped": dict(d.skipped), "model": d.model, "trace": d.trace,
                   "impl": {k: {json.dumps(list(c)): r for c, r in v.items()} for k, v in d.impl.items()},
                   "wall": d.wall, "configs": [list(c) for c in d.configs]}, open(cache, "w"))
    except (OSError, TypeError):
        pass
    return d


def rerun(b, text, cfg, timeout_ms=1500):
    """re-run one configuration with a generous quiescence timeout (to tell load effects apart)"""
    m, mon, g, _ = cfg
    return run_impl_once(b.probe, text, m, mon, timeout_ms, g)


def coverage(d, extra=None):
    nprog = len(d.programs)
    runs = sum(len(v) for v in d.impl.values())
    sizes = sorted(len(t) for _, t in d.programs)
    kinds = collections.Counter(i.split(":")[0] for i, _ in d.programs)
    cov = {
        "evaluations": runs,
        "programs_run": nprog,
        "distinct_nontrivial": sum(1 for i, t in d.programs if len(d.model[i]["async"]["0"]["order"]) > 0 or len(t) > 200),
        "rule": "accepted closed programs whose model run terminates: repository examples, reproducers in corpus/run, "
                "typed snippets of the repository's tests, generated programs when lib/vlib/proggen.py is present; each run by "
                "the real interpreter in a fresh OS process per configuration %s and by the extracted model under several "
                "schedules per mode; non-trivial = prints at least one label or is longer than 200 bytes; distinct by text" % (sorted(set((c[0], c[1]) for c in d.configs)),),
        "samples": [{"id": i, "text": t[:160], "model_async": d.model[i]["async"]["0"]} for i, t in d.programs[:3]],
        "program_sources": dict(kinds),
        "program_sizes_bytes": {"min": sizes[0] if sizes else 0, "median": sizes[len(sizes) // 2] if sizes else 0, "max": sizes[-1] if sizes else 0},
        "skipped_by_model": dict(d.skipped),
        "contraction_free": sum(1 for _, t in d.programs if not uses_contraction(t)),
        "suite_wall_s": round(d.wall, 1),
    }
    if extra:
        cov.update(extra)
    return cov
