"""Mutants (single AST-level edits) and metamorphic variants (consistent renamings, permutations)
of generated programs."""
import re

from .proggen_ast import (MODES, KEYWORDS, ALL_MODE_WORDS, clone, walk_forms, decl_bodies, show_program, Layout,
                          infer_occ_mode, infer_def_modes, tmap, unfold, tnames)
from .proggen_types import LOCAL_NAMES, FUN_NAMES, TYPE_NAMES, PRC_NAMES, CHOICE_LABELS

import random as _random


def _text(decls, layout_seed):
    return show_program(decls, Layout(_random.Random(layout_seed)))


# ====================================================================== helpers over forms

BINDER_POS = {'recv': (1, 2), 'split': (1, 2), 'shift': (1,), 'new': (1,)}
USE_POS = {'send': (1, 2, 3), 'recv': (3,), 'sel': (1, 3), 'case': (1,), 'close': (1,), 'fwd': (1, 2),
           'split': (3,), 'wait': (1,), 'cast': (1, 2), 'shift': (2,), 'drop': (1,)}


def form_names(body):
    """every identifier occurring in a body (binders and uses), 'self' excluded"""
    out = []

    def add(n):
        if n != 'self' and n not in out:
            out.append(n)
    for f in walk_forms(body):
        k = f[0]
        for i in BINDER_POS.get(k, ()):
            add(f[i])
        for i in USE_POS.get(k, ()):
            add(f[i])
        if k == 'case':
            for b in f[2]:
                add(b[1])
        if k == 'call':
            for a in f[2]:
                add(a)
    return out


def rename_form(f, m):
    """apply the identifier map m to every identifier of the form, in place"""
    for g in walk_forms(f):
        k = g[0]
        for i in BINDER_POS.get(k, ()) + USE_POS.get(k, ()):
            g[i] = m.get(g[i], g[i])
        if k == 'case':
            for b in g[2]:
                b[1] = m.get(b[1], b[1])
        if k == 'call':
            g[2] = [m.get(a, a) for a in g[2]]


def all_tyoccs(decls):
    out = []
    for d in decls:
        if d[0] == 'type':
            out.append(('def', d, d[2]))
        elif d[0] == 'let':
            for p in d[2]:
                out.append(('param', d, p[1]))
            out.append(('result', d, d[3]))
        elif d[0] == 'prc':
            out.append(('prc', d, d[2]))
        elif d[0] == 'assuming':
            for p in d[1]:
                out.append(('assuming', d, p[1]))
    for d, body in decl_bodies(decls):
        for f in walk_forms(body):
            if f[0] == 'new' and f[2] is not None:
                out.append(('cut', d, f[2]))
    return out


def type_labels(t, acc):
    if t[0] in ('+', '&'):
        for l, b in t[2]:
            acc.add(l)
            type_labels(b, acc)
    elif t[0] in ('*', '-*'):
        type_labels(t[2], acc)
        type_labels(t[3], acc)
    elif t[0] in ('up', 'dn'):
        type_labels(t[3], acc)
    return acc


def legal(n):
    return (n not in KEYWORDS and n not in ALL_MODE_WORDS and n != '1' and n != 'root'
            and not re.fullmatch(r'exec\d+', n) and re.fullmatch(r"[A-Za-z0-9_']+", n) is not None)


# ====================================================================== renamings

def _inj_map(rng, names, pool, taken, prime_bias=0.3):
    """injective map names -> fresh-ish names, biased towards names that exist elsewhere (pool) and
    names differing by a prime only"""
    m = {}
    used = set(taken)
    for n in names:
        cands = []
        if rng.random() < prime_bias:
            cands += [n + "'", n.rstrip("'")]
        cands += rng.sample(pool, min(len(pool), 6))
        cands.append(n)
        new = None
        for c in cands:
            if c and legal(c) and c not in used:
                new = c
                break
        if new is None:
            i = 0
            while True:
                c = '%s_%d' % (n.rstrip("'"), i)
                if c not in used and legal(c):
                    new = c
                    break
                i += 1
        m[n] = new
        used.add(new)
    return m


def renamings(rng, program, n):
    """n variants (text, print_label_map): consistent renamings of bound channel names (per body),
    top-level process names, function names, type names, labels; permuted declarations.  Each must have
    the same verdict, and the same multiset of prints up to the label map."""
    out = []
    for _ in range(n):
        decls = clone(program.decls)
        top = []
        for d in decls:
            if d[0] == 'prc':
                top += d[1]
            elif d[0] == 'assuming':
                top += [p[0] for p in d[1]]
        all_locals = []
        for d, body in decl_bodies(decls):
            all_locals += [x for x in form_names(body) if x not in top]
            if d[0] == 'let':
                all_locals += [p[0] for p in d[2]]
        unique = rng.random() < 0.2     # one variant in five: globally unique names (no collisions at all)
        # top-level process names
        topmap = _inj_map(rng, top, PRC_NAMES + LOCAL_NAMES, ()) if rng.random() < 0.7 else {x: x for x in top}
        ctr = [0]
        for d, body in decl_bodies(decls):
            istop = top if d[0] == 'prc' else []
            names = [x for x in form_names(body) if x not in istop]
            if d[0] == 'let':
                for p in d[2]:
                    if p[0] not in names:
                        names.append(p[0])
                if d[5] is not None and d[5] not in names:
                    names.append(d[5])
            if unique:
                m = {}
                for x in names:
                    ctr[0] += 1
                    m[x] = 'u%d_%s' % (ctr[0], x.replace("'", ''))
            else:
                pool = list(set(all_locals)) + LOCAL_NAMES[:8] + list(topmap.values())[:2]
                m = _inj_map(rng, names, sorted(pool), set(topmap.values()) if d[0] == 'prc' else ())
            if d[0] == 'prc':
                m.update(topmap)
            rename_form(body, m)
            if d[0] == 'let':
                for p in d[2]:
                    p[0] = m[p[0]]
                if d[5] is not None:
                    d[5] = m[d[5]]
            else:
                d[1] = [topmap[x] for x in d[1]]
        for d in decls:
            if d[0] == 'assuming':
                for p in d[1]:
                    p[0] = topmap[p[0]]
        # function names
        fnames = [d[1] for d in decls if d[0] == 'let']
        fmap = _inj_map(rng, fnames, FUN_NAMES + TYPE_NAMES[:4] + LOCAL_NAMES[:4], ())
        for d in decls:
            if d[0] in ('let', 'exec'):
                d[1] = fmap[d[1]]
        for d, body in decl_bodies(decls):
            for f in walk_forms(body):
                if f[0] == 'call':
                    f[1] = fmap[f[1]]
        # type names and choice labels
        tn = [d[1] for d in decls if d[0] == 'type']
        tmap_ = _inj_map(rng, tn, TYPE_NAMES + FUN_NAMES[:3], ())
        labs = set()
        for _, _, occ in all_tyoccs(decls):
            type_labels(occ[1], labs)
        for d, body in decl_bodies(decls):
            for f in walk_forms(body):
                if f[0] == 'sel':
                    labs.add(f[2])
                elif f[0] == 'case':
                    labs.update(b[0] for b in f[2])
        lmap = _inj_map(rng, sorted(labs), CHOICE_LABELS + LOCAL_NAMES[:5], ())

        def rt(t):
            def f(x):
                if x[0] == 'n':
                    return ('n', x[1], tmap_.get(x[2], x[2]), None)
                if x[0] in ('+', '&'):
                    return (x[0], x[1], tuple((lmap.get(l, l), b) for l, b in x[2]), None)
                return x
            return tmap(t, f)
        for _, _, occ in all_tyoccs(decls):
            occ[1] = rt(occ[1])
        for d in decls:
            if d[0] == 'type':
                d[1] = tmap_[d[1]]
        plabs = []
        for d, body in decl_bodies(decls):
            for f in walk_forms(body):
                if f[0] == 'sel':
                    f[2] = lmap.get(f[2], f[2])
                elif f[0] == 'case':
                    for b in f[2]:
                        b[0] = lmap.get(b[0], b[0])
                elif f[0] == 'print' and f[1] not in plabs:
                    plabs.append(f[1])
        pmap = _inj_map(rng, plabs, CHOICE_LABELS + ['hello', 'x', 'done'], (), prime_bias=0.2)
        for d, body in decl_bodies(decls):
            for f in walk_forms(body):
                if f[0] == 'print':
                    f[1] = pmap[f[1]]
        if rng.random() < 0.8:
            rng.shuffle(decls)
        out.append((_text(decls, rng.getrandbits(32)), pmap))
    return out


# ====================================================================== mutants

def _retag_head(t, m):
    """the type whose head annotation reads m: every node down to the first shifts gets mode m"""
    k = t[0]
    if k in ('up', 'dn'):
        return t
    if k in ('*', '-*'):
        return (k, m, _retag_head(t[2], m), _retag_head(t[3], m))
    if k in ('+', '&'):
        return (k, m, tuple((l, _retag_head(b, m)) for l, b in t[2]), None)
    return (k, m, t[2], t[3])


def _subtypes(t, path=()):
    yield path, t
    k = t[0]
    if k in ('*', '-*'):
        for x in _subtypes(t[2], path + (2,)):
            yield x
        for x in _subtypes(t[3], path + (3,)):
            yield x
    elif k in ('+', '&'):
        for i, (l, b) in enumerate(t[2]):
            for x in _subtypes(b, path + (('b', i),)):
                yield x
    elif k in ('up', 'dn'):
        for x in _subtypes(t[3], path + (3,)):
            yield x


def _replace_at(t, path, new):
    if not path:
        return new
    p = path[0]
    if isinstance(p, tuple):
        brs = list(t[2])
        l, b = brs[p[1]]
        brs[p[1]] = (l, _replace_at(b, path[1:], new))
        return (t[0], t[1], tuple(brs), None)
    lst = list(t)
    lst[p] = _replace_at(t[p], path[1:], new)
    return tuple(lst)


def _fix_ann(occ, decls):
    """after a type-for-type replacement that must keep the meaning: keep the occurrence's mode by
    adding the head annotation when inference would no longer find it"""
    defm = {d[1]: d[2][1][1] for d in decls if d[0] == 'type'}
    if not occ[2] and infer_occ_mode(occ[1], defm) != occ[1][1]:
        occ[2] = True


MUTATION_KINDS = ['swap-payload-continuation', 'rename-use', 'delete-use', 'duplicate-use', 'rename-binder-live',
                  'rename-binder-consumed', 'rename-binder-same-form', 'change-label', 'add-branch', 'remove-branch',
                  'arity-minus', 'arity-plus', 'arity-add-self', 'arity-remove-self', 'move-annotation',
                  'change-mode-head', 'change-mode-shift', 'type-permute-branches', 'type-unfold-once',
                  'type-renamed-copy', 'type-near-miss', 'swap-self-and-client', 'delete-declaration',
                  'duplicate-declaration', 'drop-cut-type', 'annotate-call-cut-same', 'annotate-call-cut-wrong']


def _mutate(rng, decls, kind):
    """apply one edit of the given kind in place; returns (detail, expectation) or None when the
    program offers no site for it"""
    bodies = list(decl_bodies(decls))
    forms = [(d, f) for d, b in bodies for f in walk_forms(b)]

    def pick(pred):
        c = [(d, f) for d, f in forms if pred(f)]
        return rng.choice(c) if c else (None, None)

    def body_of(d):
        return d[4] if d[0] == 'let' else d[3]
    if kind == 'swap-payload-continuation':
        d, f = pick(lambda f: f[0] in ('send', 'recv', 'split'))
        if f is None:
            return None
        if f[0] == 'send':
            f[2], f[3] = f[3], f[2]
        else:
            f[1], f[2] = f[2], f[1]
        return f[0], 'may-differ'
    if kind == 'drop-cut-type':
        d, f = pick(lambda f: f[0] == 'new' and f[2] is not None)
        if f is None:
            return None
        iscall = f[3][0] == 'call'
        f[2] = None
        return ('call' if iscall else 'axiom'), ('same-verdict' if iscall else 'may-differ')
    if kind in ('annotate-call-cut-same', 'annotate-call-cut-wrong'):
        d, f = pick(lambda f: f[0] == 'new' and f[2] is None and f[3][0] == 'call')
        if f is None:
            return None
        sig = [x for x in decls if x[0] == 'let' and x[1] == f[3][1]]
        if not sig:
            return None
        t = sig[0][3][1]
        if kind == 'annotate-call-cut-same':
            f[2] = ['ty', t, True]
            return 'call', 'same-verdict'
        others = [m for m in MODES if m != t[1]]
        f[2] = ['ty', ('&', rng.choice(others), (('zz', ('1', t[1], None, None)),), None), True]
        return 'call', 'may-differ'
    if kind == 'swap-self-and-client':
        d, f = pick(lambda f: f[0] in ('sel', 'cast', 'fwd') or (f[0] == 'send'))
        if f is None:
            return None
        if f[0] == 'send':
            f[1], f[3] = f[3], f[1]
        elif f[0] == 'sel':
            f[1], f[3] = f[3], f[1]
        else:
            f[1], f[2] = f[2], f[1]
        return f[0], 'may-differ'
    if kind == 'rename-use':
        d, f = pick(lambda f: f[0] in USE_POS or (f[0] == 'call' and f[2]))
        if f is None:
            return None
        names = form_names(body_of(d)) + (['self'] if rng.random() < 0.2 else [])
        if d[0] == 'let':
            names += [p[0] for p in d[2]]
        if f[0] == 'call':
            i = rng.randrange(len(f[2]))
            others = [x for x in names if x != f[2][i]]
            if not others:
                return None
            f[2][i] = rng.choice(others)
        else:
            i = rng.choice(USE_POS[f[0]])
            others = [x for x in names if x != f[i]]
            if not others:
                return None
            f[i] = rng.choice(others)
        return f[0], 'may-differ'
    if kind == 'delete-use':
        d, f = pick(lambda f: f[0] in ('wait', 'drop', 'new', 'recv', 'shift', 'split', 'print'))
        if f is None:
            return None
        k = f[0]
        cont = f[{'wait': 2, 'drop': 2, 'print': 2, 'new': 4, 'recv': 4, 'split': 4, 'shift': 3}[k]]
        f[:] = cont
        return k, ('same-verdict' if k == 'print' else 'may-differ')
    if kind == 'duplicate-use':
        d, f = pick(lambda f: f[0] in ('wait', 'drop', 'new', 'print') or (f[0] == 'call' and f[2]))
        if f is None:
            return None
        k = f[0]
        if k == 'call':
            i = rng.randrange(len(f[2]))
            j = rng.randrange(len(f[2]))
            f[2][j] = f[2][i] if i != j else f[2][i]
            if i == j:
                f[2].insert(i, f[2][i])
            return k, 'may-differ'
        c = clone(f)
        idx = {'wait': 2, 'drop': 2, 'print': 2, 'new': 4}[k]
        f[idx] = c
        return k, ('same-verdict' if k == 'print' else 'may-differ')
    if kind in ('rename-binder-live', 'rename-binder-consumed', 'rename-binder-same-form'):
        if kind == 'rename-binder-same-form':
            d, f = pick(lambda f: f[0] in ('recv', 'split'))
            if f is None:
                return None
            if rng.random() < 0.5:
                f[2] = f[1]
            else:
                f[1] = f[2]
            return f[0], 'may-differ'
        d, f = pick(lambda f: f[0] in BINDER_POS or (f[0] == 'case' and f[2]))
        if f is None:
            return None
        b = body_of(d)
        names = form_names(b)
        if d[0] == 'let':
            names += [p[0] for p in d[2]]
        # names bound or used BEFORE this form in pre-order are candidates: 'live' ones are those
        # still used afterwards, 'consumed' ones are not
        before, after, seen = [], [], False
        for g in walk_forms(b):
            if g is f:
                seen = True
                continue
            (after if seen else before).append(g)
        used_after = set()
        for g in after:
            for i in USE_POS.get(g[0], ()):
                used_after.add(g[i])
            if g[0] == 'call':
                used_after.update(g[2])
        earlier = []
        for g in before:
            for i in BINDER_POS.get(g[0], ()) + USE_POS.get(g[0], ()):
                if g[i] != 'self' and g[i] not in earlier:
                    earlier.append(g[i])
        if d[0] == 'let':
            earlier += [p[0] for p in d[2]]
        if kind == 'rename-binder-live':
            cands = [x for x in earlier if x in used_after]
        else:
            cands = [x for x in earlier if x not in used_after]
        if f[0] == 'case':
            br = rng.choice(f[2])
            cands = [x for x in cands if x != br[1]]
            if not cands:
                return None
            old, new = br[1], rng.choice(cands)
            br[1] = new
            rename_form(br[2], {old: new})
        else:
            i = rng.choice(BINDER_POS[f[0]])
            cands = [x for x in cands if x != f[i]]
            if not cands:
                return None
            old, new = f[i], rng.choice(cands)
            f[i] = new
            cont = f[4] if f[0] in ('recv', 'split', 'new') else f[3]
            rename_form(cont, {old: new})
        return f[0], 'may-differ'
    if kind == 'change-label':
        labs = set()
        for _, _, occ in all_tyoccs(decls):
            type_labels(occ[1], labs)
        d, f = pick(lambda f: f[0] in ('sel', 'case') and (f[0] == 'sel' or f[2]))
        if f is None:
            return None
        cur = f[2] if f[0] == 'sel' else None
        if f[0] == 'sel':
            others = sorted(labs - {f[2]}) or ['zz']
            f[2] = rng.choice(others)
        else:
            br = rng.choice(f[2])
            others = sorted(labs - {br[0]}) or ['zz']
            br[0] = rng.choice(others)
        return f[0], 'may-differ'
    if kind == 'add-branch':
        d, f = pick(lambda f: f[0] == 'case' and f[2])
        if f is None:
            return None
        br = clone(rng.choice(f[2]))
        labs = set()
        for _, _, occ in all_tyoccs(decls):
            type_labels(occ[1], labs)
        if rng.random() < 0.7:
            br[0] = rng.choice(sorted(labs - {b[0] for b in f[2]}) or ['zz'])
        f[2].insert(rng.randrange(len(f[2]) + 1), br)
        return 'case', 'may-differ'
    if kind == 'remove-branch':
        d, f = pick(lambda f: f[0] == 'case' and f[2])
        if f is None:
            return None
        del f[2][rng.randrange(len(f[2]))]
        return 'case', 'may-differ'
    if kind in ('arity-minus', 'arity-plus', 'arity-add-self', 'arity-remove-self'):
        if rng.random() < 0.25 and kind in ('arity-minus', 'arity-plus'):
            lets = [d for d in decls if d[0] == 'let' and (d[2] or kind == 'arity-plus')]
            if lets:
                d = rng.choice(lets)
                if kind == 'arity-minus':
                    del d[2][rng.randrange(len(d[2]))]
                else:
                    d[2].append(['zz', ['ty', ('1', d[3][1][1], None, None), True]])
                return 'signature', 'may-differ'
        if kind == 'arity-minus':
            d, f = pick(lambda f: f[0] == 'call' and f[2])
            if f is None:
                return None
            del f[2][rng.randrange(len(f[2]))]
        elif kind == 'arity-plus':
            d, f = pick(lambda f: f[0] == 'call')
            if f is None:
                return None
            names = form_names(body_of(d)) or ['zz']
            f[2].append(rng.choice(names))
        elif kind == 'arity-add-self':
            d, f = pick(lambda f: f[0] == 'call' and (not f[2] or f[2][0] != 'self'))
            if f is None:
                return None
            f[2].insert(0, 'self')
            # legal for a tail call (same verdict), illegal shapes otherwise are for the checker to sort out
            return 'call', 'may-differ'
        else:
            d, f = pick(lambda f: f[0] == 'call' and f[2] and f[2][0] == 'self')
            if f is None:
                return None
            del f[2][0]
            return 'call', 'same-verdict'
        return 'call', 'may-differ'
    occs = all_tyoccs(decls)
    if kind == 'move-annotation':
        if not occs:
            return None
        where, d, occ = rng.choice(occs)
        defm = {x[1]: x[2][1][1] for x in decls if x[0] == 'type'}
        if occ[2]:
            occ[2] = False
            if where == 'def':
                ds = {x[1]: (x[2][1], x[2][2]) for x in decls if x[0] == 'type'}
                same = infer_def_modes(ds) == defm
            else:
                same = infer_occ_mode(occ[1], defm) == occ[1][1]
            return where + ':removed', ('same-verdict' if same else 'may-differ')
        occ[2] = True
        return where + ':added', 'same-verdict'
    if kind == 'change-mode-head':
        if not occs:
            return None
        where, d, occ = rng.choice(occs)
        old = occ[1][1]
        new = rng.choice([m for m in MODES if m != old])
        if occ[1][0] in ('up', 'dn'):
            # the head annotation of a shift is ignored by the implementation (F15): print it anyway
            occ.append(new)
            occ[2] = True
            return '%s:%s->%s:on-shift' % (where, old, new), 'may-differ'
        occ[1] = _retag_head(occ[1], new)
        occ[2] = True
        return '%s:%s->%s' % (where, old, new), 'may-differ'
    if kind == 'change-mode-shift':
        c = []
        for where, d, occ in occs:
            for path, t in _subtypes(occ[1]):
                if t[0] in ('up', 'dn'):
                    c.append((where, occ, path, t))
        if not c:
            return None
        where, occ, path, t = rng.choice(c)
        if rng.random() < 0.5:
            new = rng.choice([m for m in MODES if m != t[1]])
            nt = (t[0], new, t[2], t[3])
            det = 'to:%s->%s' % (t[1], new)
        else:
            new = rng.choice([m for m in MODES if m != t[2]])
            nt = (t[0], t[1], new, t[3])
            det = 'from:%s->%s' % (t[2], new)
        occ[1] = _replace_at(occ[1], path, nt)
        return '%s:%s:%s' % (where, t[0], det), 'may-differ'
    if kind == 'type-permute-branches':
        c = []
        for where, d, occ in occs:
            for path, t in _subtypes(occ[1]):
                if t[0] in ('+', '&') and len(t[2]) > 1:
                    c.append((where, occ, path, t))
        if not c:
            return None
        where, occ, path, t = rng.choice(c)
        brs = list(t[2])
        brs = brs[1:] + brs[:1]
        occ[1] = _replace_at(occ[1], path, (t[0], t[1], tuple(brs), None))
        ok = 'same-verdict'
        if where == 'def':
            # inference looks at the first branch that has a mode: the permutation may move it
            defm = {x[1]: x[2][1][1] for x in decls if x[0] == 'type'}
            ds = {x[1]: (x[2][1], x[2][2]) for x in decls if x[0] == 'type'}
            if infer_def_modes(ds) != defm:
                occ[2] = True
        else:
            _fix_ann(occ, decls)
        return where, ok
    tenv = {d[1]: d[2][1] for d in decls if d[0] == 'type'}
    if kind == 'type-unfold-once':
        c = []
        for where, d, occ in occs:
            if where == 'def':
                continue
            for path, t in _subtypes(occ[1]):
                if t[0] == 'n' and t[2] in tenv:
                    c.append((where, occ, path, t))
        if not c:
            return None
        where, occ, path, t = rng.choice(c)
        occ[1] = _replace_at(occ[1], path, tenv[t[2]])
        _fix_ann(occ, decls)
        return where, 'same-verdict'
    if kind == 'type-renamed-copy':
        c = []
        for where, d, occ in occs:
            if where == 'def':
                continue
            for path, t in _subtypes(occ[1]):
                if t[0] == 'n' and t[2] in tenv:
                    c.append((where, occ, path, t))
        if not c:
            return None
        where, occ, path, t = rng.choice(c)
        old = t[2]
        new = old + "_c"
        while new in tenv:
            new += "c"
        body = tmap(tenv[old], lambda x: ('n', x[1], new, None) if x[0] == 'n' and x[2] == old else x)
        src = [d for d in decls if d[0] == 'type' and d[1] == old][0]
        decls.insert(rng.randrange(len(decls) + 1), ['type', new, ['ty', body, True]])
        occ[1] = _replace_at(occ[1], path, ('n', t[1], new, None))
        _fix_ann(occ, decls)
        return where, 'same-verdict'
    if kind == 'type-near-miss':
        if not occs:
            return None
        where, d, occ = rng.choice(occs)
        subs = list(_subtypes(occ[1]))
        path, t = rng.choice(subs)
        k = t[0]
        r = rng.random()
        if k in ('*', '-*'):
            if r < 0.5:
                nt = ('-*' if k == '*' else '*', t[1], t[2], t[3])
            else:
                nt = (k, t[1], t[3], t[2])
        elif k in ('+', '&'):
            if r < 0.3:
                nt = ('&' if k == '+' else '+', t[1], t[2], None)
            elif r < 0.6:
                nt = (k, t[1], t[2] + (('zz', ('1', t[1], None, None)),), None)
            elif r < 0.8 and len(t[2]) > 1:
                nt = (k, t[1], t[2][1:], None)
            else:
                nt = (k, t[1], ((t[2][0][0] + "'", t[2][0][1]),) + t[2][1:], None)
        elif k == '1':
            nt = ('*', t[1], t, t)
        elif k == 'n':
            others = [n for n in tenv if n != t[2]]
            nt = ('n', t[1], rng.choice(others), None) if others else ('1', t[1], None, None)
        else:
            nt = ('dn' if k == 'up' else 'up', t[1], t[2], t[3])
        occ[1] = _replace_at(occ[1], path, nt)
        return where + ':' + k, 'may-differ'
    if kind == 'delete-declaration':
        c = [i for i, d in enumerate(decls) if d[0] in ('let', 'type', 'prc')]
        if not c:
            return None
        i = rng.choice(c)
        k = decls[i][0]
        del decls[i]
        return k, 'may-differ'
    if kind == 'duplicate-declaration':
        c = [i for i, d in enumerate(decls) if d[0] in ('let', 'type', 'prc')]
        if not c:
            return None
        i = rng.choice(c)
        decls.insert(rng.randrange(len(decls) + 1), clone(decls[i]))
        return decls[i][0], 'may-differ'
    raise ValueError(kind)


def _show_occ_override(decls):
    """'change-mode-head' on a shift stores the head word as a 4th element: print it through a
    wrapper type occurrence"""
    for _, _, occ in all_tyoccs(decls):
        if len(occ) > 3:
            yield occ


def mutants(rng, program, n):
    """n single-edit mutants: [(kind, text, expectation)], expectation in {'same-verdict', 'may-differ'}"""
    out = []
    tries = 0
    kinds = list(MUTATION_KINDS)
    while len(out) < n and tries < 6 * n + 10:
        tries += 1
        kind = rng.choice(kinds)
        decls = clone(program.decls)
        try:
            r = _mutate(rng, decls, kind)
        except (IndexError, KeyError):
            r = None
        if r is None:
            continue
        detail, exp = r
        text = _text_with_overrides(decls, program.layout_seed)
        if text == program.text and exp != 'same-verdict':
            continue
        out.append((kind + '/' + str(detail), text, exp))
    return out


def _text_with_overrides(decls, layout_seed):
    ov = list(_show_occ_override(decls))
    if not ov:
        return _text(decls, layout_seed)
    return _patch_head_words(decls, layout_seed, ov)


def _patch_head_words(decls, layout_seed, ov):
    """print the overriding head word in front of a shift type (whose own two mode words stay): the
    occurrence is presented to the printer as an annotated name whose text is the parenthesised shift"""
    saved = []
    for i, occ in enumerate(ov):
        t = occ[1]
        saved.append(t)
        # sentinel: a name node prints as its name; we print the shift ourselves
        from .proggen_ast import show_type_inner
        inner = show_type_inner(t, Layout())
        occ[1] = ('n', occ[3], '(' + inner + ')', None)
        occ[2] = True
    text = _text(decls, layout_seed)
    for occ, t in zip(ov, saved):
        occ[1] = t
    return text
