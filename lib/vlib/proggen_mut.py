def mutants(rng, program, n):
    return []


def renamings(rng, program, n):
    return []
