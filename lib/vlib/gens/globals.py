"""translator of the table of package-level variables and their uses (C19): `probe globals` (go/ast + go/types over
every non-test Go file of every package of the module).  Type-checking the standard library from source takes a few
seconds, so the probe is only re-run when a Go file of /repo, the translator or the generated file changed."""
import os

from .. import common as C


def globals_table(b):
    if b.probe_error:
        return
    out = os.path.join(C.GEN, "Globals.v")
    sf = os.path.join(C.CACHE, "globals.stamp")
    try:
        cur = open(out).read()
    except FileNotFoundError:
        cur = ""
    src = C.tree_hash(C.REPO, (".go", "go.mod")) + C.sha(open(os.path.join(C.HARNESS, "globals.go")).read()) + C.REPO
    if cur and os.path.exists(sf) and open(sf).read() == src + C.sha(cur):
        return
    rc, txt, err = C.run([b.probe, "globals"], timeout=600)
    if rc != 0 or "Definition global_uses" not in txt:
        b.gen_errors["Globals.v"] = (txt + err)[-2000:]
        C.log("[prelude] translator Globals.v failed: %s" % (txt + err)[-500:])
        return
    if C.write_if_changed(out, txt):
        C.log("[prelude] regenerated gen/Globals.v")
    with open(sf, "w") as f:
        f.write(src + C.sha(txt))


EXTRA = [globals_table]
