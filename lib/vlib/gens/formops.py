"""translator of the substitution / free-name / copy code of /repo/process/form.go (C14, C04):
gen/FormOps.v, a table of the IR of coq/theories/FormIR.v, by `probe formops` (go/ast)."""
GENERATORS = [("FormOps.v", ["formops"])]
