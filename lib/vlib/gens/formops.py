"""translators of the substitution / free-name / copy code of /repo/process/form.go and of Name.Initialized /
Equal / Substitute of /repo/process/name.go (C14, C04): gen/FormOps.v, gen/NameOps.v — tables of the IRs of
coq/theories/FormIR.v, NameIR.v — by `probe formops` / `probe nameops` (go/ast)."""
GENERATORS = [("FormOps.v", ["formops"]), ("NameOps.v", ["nameops"])]
