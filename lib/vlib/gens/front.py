"""translators of the front end and of the mode tables"""
import os
import sys

from .. import common as C

GENERATORS = [
    ("ModeTables.v", ["modes"]),
    ("ScanTables.v", ["scantables"]),
]


def lrtables(b):
    sys.path.insert(0, os.path.join(C.VERIF, "translate"))
    import lrtables as T
    src = open(os.path.join(C.REPO, "parser", "parser.y.go")).read()
    if C.write_if_changed(os.path.join(C.GEN, "LRTables.v"), T.translate(src)):
        C.log("[prelude] regenerated gen/LRTables.v")


EXTRA = [lrtables]
