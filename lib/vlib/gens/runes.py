"""translator (behavioural): the real scanner on every non-ASCII rune (justifies Scan.v's byte abstraction)"""
GENERATORS = [("RuneTable.v", ["runesweep"])]
