"""translator (behavioural) of types/polarity.go and the mode projections of session types"""
GENERATORS = [("PolarityTable.v", ["polarity"])]
