"""translator of the shared-memory access table (C13)"""
GENERATORS = [("SharedAccess.v", ["sharedaccess"])]
