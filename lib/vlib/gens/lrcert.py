"""translator of the LR certificate: gen/LRCert.v (edge closure, z3 weights, recovered right-hand
sides) from /repo/parser/parser.y.go via translate/lrcert.py.  The search is UNTRUSTED: Coq re-checks
the certificate (proofs/LRCertInst.v).  Re-run only when the tables or the script changed (the
digest of both is recorded in the generated file's header)."""
import os
import re
import sys

from .. import common as C

Z3_PYTHON = os.environ.get("VERIF_Z3_PYTHON", "/opt/veriftools/pyvenv/bin/python")


def lrcert(b):
    script = os.path.join(C.VERIF, "translate", "lrcert.py")
    sys.path.insert(0, os.path.join(C.VERIF, "translate"))
    import lrcert as L
    srcp = os.path.join(C.REPO, "parser", "parser.y.go")
    src = open(srcp).read()
    want = L.tables_digest(L.parse_tables(src)) + "/" + C.sha(open(script).read())[:12]
    out = os.path.join(C.GEN, "LRCert.v")
    try:
        cur = open(out).read()
    except FileNotFoundError:
        cur = ""
    m = re.search(r"digest: (\S+)", cur)
    if m and m.group(1) == want and "NO CERTIFICATE" not in cur:
        return
    py = Z3_PYTHON if os.path.exists(Z3_PYTHON) else sys.executable
    rc, o, e = C.run([py, script, srcp, want], timeout=600)
    if rc != 0 or "Definition tE" not in o:
        raise RuntimeError("translate/lrcert.py failed (rc=%d): %s" % (rc, (o + e)[-800:]))
    if C.write_if_changed(out, o):
        C.log("[prelude] regenerated gen/LRCert.v")


EXTRA = [lrcert]
