"""Small-scope program shapes for the checker properties (C05, C06, C07, C09, C14).

EXHAUSTIVE over a tiny name pool: each SKELETON is a well-typed function body with HOLES where
names stand; every assignment of pool names to the holes is generated, so that every coincidence of
names the checker distinguishes occurs — a binder that re-uses a live parameter, the consumed
subject, the other binder or the provider's bound name; a call that passes the provider explicitly
under each of those names; a cut that rebinds its own argument; a name used twice, never, or as the
provider.  Exactly one assignment per skeleton is the intended well-typed program; all the others
are single- or multi-name confusions of it.  What matters is that the implementation and the
(proved) model give the SAME verdict on each, and that the extracted oracles accept what is accepted.

`stream(seed, n)` yields all of them when n is None, else a seeded sample of n."""
import itertools
import random

HELPERS = {
    "z": "let z() : lin 1 = close self",
    "w1": "let w1(a : lin 1) : lin 1 = wait a; close self",
    "w2": "let w2(a : lin 1, b : lin 1) : lin 1 = wait a; wait b; close self",
    "ep": "let ep[w : lin 1, a : lin 1] = wait a; close w",
    "PAIR": "type PAIR = lin (1 * 1)",
    "FUN": "type FUN = lin (1 -* 1)",
    "CH": "type CH = lin +{l : 1, r : 1}",
    "OF": "type OF = lin &{l : 1, r : 1}",
}

U = ["x", "y", "u", "self"]      # names in use positions
B = ["x", "y", "u", "v"]         # names in binder positions

# (needed helpers, text with holes {b0} {b1} (binders) and {n0} … (uses))
SKELETONS = [
    (["z"], "let t(x : lin 1) : lin 1 = {b0} <- new z(); wait {n0}; wait {n1}; close {n2}"),
    (["z"], "let t(x : lin 1) : lin 1 = {b0} <- new z({n0}); wait {n1}; wait {n2}; close self"),
    (["z"], "let t(x : lin 1) : lin 1 = {b0} <- new z({n0}); wait {n1}; close {n2}"),
    (["w1"], "let t(x : lin 1, y : lin 1) : lin 1 = {b0} <- new w1({n0}); wait {n1}; wait {n2}; close self"),
    (["w1"], "let t(x : lin 1, y : lin 1) : lin 1 = {b0} <- new w1({n0}, {n1}); wait {n2}; wait {n3}; close self"),
    (["w1"], "let t(x : lin 1) : lin 1 = {b0} <- new w1({n0}, {n1}); wait {n2}; close self"),
    (["ep"], "let t(x : lin 1, y : lin 1) : lin 1 = {b0} <- new ep({n0}); wait {n1}; wait {n2}; close self"),
    (["ep"], "let t(x : lin 1, y : lin 1) : lin 1 = {b0} <- new ep({n0}, {n1}); wait {n2}; wait {n3}; close self"),
    ([], "let t(y : lin 1) : lin (1 -* (1 * 1)) = <{b0}, {b1}> <- recv self; send {n0}<{n1}, {n2}>"),
    (["FUN"], "let t(y : lin 1) : FUN = <{b0}, {b1}> <- recv self; wait {n0}; wait {n1}; close {n2}"),
    (["PAIR"], "let t(x : PAIR, y : lin 1) : lin 1 = <{b0}, {b1}> <- recv {n0}; wait {n1}; wait {n2}; wait {n3}; close self"),
    (["PAIR"], "let t(x : PAIR) : lin 1 = <{b0}, {b1}> <- recv {n0}; wait {n1}; wait {n2}; close {n3}"),
    (["CH"], "let t(x : CH, y : lin 1) : lin 1 = case {n0} (l<{b0}> => wait {n1}; wait {n2}; close self | r<{b1}> => wait {n3}; wait y; close self)"),
    (["OF"], "let t(x : lin 1) : OF = case self (l<{b0}> => wait {n0}; close {n1} | r<{b1}> => wait {n2}; close {n3})"),
    (["OF"], "let t(x : lin 1) : OF = case {n0} (l<{b0}> => wait {n1}; close {n2} | r<{b1}> => wait x; close {b1})"),
    ([], "let t(x : mul 1) : lin 1 = <{b0}, {b1}> <- split {n0}; wait {n1}; wait {n2}; close {n3}"),
    ([], "let t(x : mul 1, y : lin 1) : lin 1 = <{b0}, {b1}> <- split {n0}; wait {n1}; wait {n2}; wait {n3}; close self"),
    ([], "let t(y : lin 1) : lin (lin /\\ lin 1) = {b0} <- shift self; wait {n0}; close {n1}"),
    ([], "let t(x : lin (lin \\/ lin 1), y : lin 1) : lin 1 = {b0} <- shift {n0}; wait {n1}; wait {n2}; close self"),
    (["FUN"], "let t(x : FUN, y : lin 1) : lin 1 = {b0} : lin 1 <- new send {n0}<{n1}, {n2}>; wait {n3}; close self"),
    ([], "let t(x : lin 1) : lin 1 = {b0} : lin 1 <- new fwd {n0} {n1}; wait {n2}; close {n3}"),
    ([], "let t(x : lin 1, y : lin 1) : lin 1 = {b0} : lin 1 <- new close {n0}; wait {n1}; wait {n2}; wait {n3}; close self"),
    (["z"], "let t[w : lin 1, x : lin 1] = {b0} <- new z(); wait {n0}; wait {n1}; close {n2}"),
    (["w1"], "let t[w : lin 1, x : lin 1] = w1({n0}, {n1})"),
    (["w1"], "let t(x : lin 1, y : lin 1) : lin 1 = wait {n0}; w1({n1})"),
    (["w1"], "let t(x : lin 1, y : lin 1) : lin 1 = wait {n0}; w1({n1}, {n2})"),
    (["ep"], "let t(x : lin 1, y : lin 1) : lin 1 = wait {n0}; ep({n1}, {n2})"),
    (["w2"], "let t(x : lin 1, y : lin 1) : lin 1 = w2({n0}, {n1})"),
    ([], "let t(x : aff 1, y : lin 1) : lin 1 = drop {n0}; wait {n1}; close {n2}"),
    ([], "let t(x : lin 1) : lin 1 = fwd {n0} {n1}"),
    ([], "let t(x : lin 1, y : lin 1) : lin (1 * 1) = send {n0}<{n1}, {n2}>"),
    (["CH"], "let t(x : lin 1) : CH = {n0}.l<{n1}>"),
    (["OF"], "let t(x : OF) : lin 1 = {n0}.l<{n1}>"),
]


def holes(text):
    bs = sorted({h for h in ("b0", "b1", "b2") if "{" + h + "}" in text})
    ns = sorted({h for h in ("n0", "n1", "n2", "n3", "n4") if "{" + h + "}" in text})
    return bs, ns


def with_omissions():
    """each skeleton, and each skeleton with ONE of its `wait` statements left out: a binder that shadows a live name makes
    that name unreachable, so the confusions that a checker could wrongly ACCEPT are the ones with one use fewer"""
    import re
    out = []
    for need, text in SKELETONS:
        out.append((need, text))
        for m in re.finditer(r"wait \{n\d\}; ", text):
            out.append((need, text[:m.start()] + text[m.end():]))
    seen, res = set(), []
    for need, text in out:
        if text not in seen:
            seen.add(text)
            res.append((need, text))
    return res


def all_programs():
    k = 0
    for si, (need, text) in enumerate(with_omissions()):
        bs, ns = holes(text)
        pre = "\n".join(HELPERS[h] for h in need)
        for bv in itertools.product(B, repeat=len(bs)):
            for nv in itertools.product(U, repeat=len(ns)):
                env = dict(zip(bs, bv))
                env.update(zip(ns, nv))
                yield ("small:%d:%d" % (si, k), "smallprog", (pre + "\n" if pre else "") + text.format(**env) + "\n")
                k += 1


def stream(seed, n=None):
    progs = list(all_programs())
    if n is None or n >= len(progs):
        return progs
    rng = random.Random(seed * 7919 + 13)
    return rng.sample(progs, n)
