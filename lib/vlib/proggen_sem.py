"""Reference interpreter for generated Grits programs (asynchronous, polarised semantics of
process/transition.go): one-message channels, forwarding by polarity, SPLIT/DUP by forwarders with
several providers, DROP by droppable forwarders that propagate GC.  Used by proggen to predict the
multiset of printed labels, the number of processes and the processes left blocked at quiescence,
and to make sure that what the generator calls 'terminating' terminates.

The runtime is confluent for typed programs (every channel has one writer and one reader), so the
prints do not depend on the schedule; a round-robin scheduler is used."""
from .proggen_ast import unfold, polarity

SELF = 'SELF'


class Stuck(Exception):
    pass


def free_idents(f, acc=None, bound=frozenset()):
    """free identifiers of a form ('self' excluded), in order of first occurrence"""
    if acc is None:
        acc = []

    def use(n):
        if n != 'self' and n not in bound and n not in acc:
            acc.append(n)
    k = f[0]
    if k == 'send':
        use(f[1]); use(f[2]); use(f[3])
    elif k == 'recv' or k == 'split':
        use(f[3])
        free_idents(f[4], acc, bound | {f[1], f[2]})
    elif k == 'sel':
        use(f[1]); use(f[3])
    elif k == 'case':
        use(f[1])
        for l, p, b in f[2]:
            free_idents(b, acc, bound | {p})
    elif k == 'new':
        free_idents(f[3], acc, bound)
        free_idents(f[4], acc, bound | {f[1]})
    elif k == 'call':
        for a in f[2]:
            use(a)
    elif k == 'close':
        use(f[1])
    elif k == 'fwd':
        use(f[1]); use(f[2])
    elif k in ('wait', 'drop'):
        use(f[1])
        free_idents(f[2], acc, bound)
    elif k == 'cast':
        use(f[1]); use(f[2])
    elif k == 'shift':
        use(f[2])
        free_idents(f[3], acc, bound | {f[1]})
    elif k == 'print':
        free_idents(f[2], acc, bound)
    elif k in ('resend', 'dfwd'):
        pass
    return acc


class Proc:
    __slots__ = ('body', 'env', 'prov', 'origin')

    def __init__(self, body, env, prov, origin):
        self.body, self.env, self.prov, self.origin = body, env, prov, origin


class Machine:
    def __init__(self, decls, fuel=20000, max_procs=400):
        self.decls = decls
        self.tenv = {d[1]: d[2][1] for d in decls if d[0] == 'type'}
        self.funs = {d[1]: d for d in decls if d[0] == 'let'}
        self.ctype = {}
        self.cmsg = {}
        self.nchan = 0
        self.procs = []
        self.prints = []
        self.spawned = 0
        self.dead = 0
        self.fuel = fuel
        self.max_procs = max_procs
        self.rules = {}
        self.error = None

    def fresh(self, t):
        self.nchan += 1
        self.ctype[self.nchan] = t
        self.cmsg[self.nchan] = None
        return self.nchan

    def spawn(self, body, env, prov, origin):
        self.spawned += 1
        if self.spawned > self.max_procs:
            raise Stuck("too many processes")
        self.procs.append(Proc(body, env, prov, origin))

    def rule(self, r):
        self.rules[r] = self.rules.get(r, 0) + 1

    def load(self):
        top = {}
        plist = []
        nexec = 0
        for d in self.decls:
            if d[0] == 'prc':
                chans = [self.fresh(d[2][1]) for _ in d[1]]
                for n, c in zip(d[1], chans):
                    top[n] = c
                plist.append((d[3], chans, 'prc:' + d[1][0]))
        for d in self.decls:
            if d[0] == 'exec':
                nexec += 1
                f = self.funs[d[1]]
                c = self.fresh(f[3][1])
                plist.append((['call', d[1], []], [c], 'exec:' + d[1]))
        for body, chans, origin in plist:
            env = dict(top)
            self.spawn(body, env, chans, origin)

    # -- helpers
    def ch(self, p, n):
        if n == 'self':
            return SELF
        if n not in p.env:
            raise Stuck("unbound name %s in %s" % (n, p.origin))
        return p.env[n]

    def is_self(self, p, n):
        return self.ch(p, n) == SELF

    def free_chans(self, p):
        if p.body[0] == 'resend':
            return [c for c in p.body[1][1:] if isinstance(c, int)]
        out = []
        for n in free_idents(p.body):
            c = p.env.get(n)
            if isinstance(c, int) and c not in out:
                out.append(c)
        return out

    def put(self, c, msg):
        if self.cmsg[c] is not None:
            raise Stuck("channel %d written twice (%s then %s)" % (c, self.cmsg[c][0], msg[0]))
        self.cmsg[c] = msg

    def take(self, c):
        m = self.cmsg[c]
        self.cmsg[c] = None
        return m

    def kill(self, p):
        self.dead += 1
        self.procs.remove(p)

    def dup(self, p):
        self.rule('DUP')
        fcs = self.free_chans(p)
        fresh = {c: [self.fresh(self.ctype[c]) for _ in p.prov] for c in fcs}
        for i, pr in enumerate(p.prov):
            if p.body[0] == 'resend':
                m = p.body[1]
                body = ['resend', tuple(fresh[x][i] if isinstance(x, int) and x in fresh else x for x in m)]
                env = {}
            else:
                body = p.body
                env = {n: (fresh[c][i] if isinstance(c, int) and c in fresh else c) for n, c in p.env.items()}
            self.spawn(body, env, [pr], p.origin)
        for c in fcs:
            self.spawn(['fwd', 'self', '$c'], {'$c': c}, fresh[c], p.origin + '/dupfwd')
        self.kill(p)

    def drop_chan(self, c, origin):
        self.spawn(['dfwd', '$c'], {'$c': c}, [self.fresh(self.ctype[c])], origin + '/drop')

    # -- one step of process p; returns True when it moved
    def step(self, p):
        f = p.body
        k = f[0]
        if k != 'fwd' and k != 'dfwd' and len(p.prov) > 1:
            self.dup(p)
            return True
        tenv = self.tenv
        if k == 'print':
            self.prints.append((f[1], p.origin))
            self.rule('PRINT')
            p.body = f[2]
            return True
        if k == 'new':
            if f[3][0] == 'call':
                t = self.funs[f[3][1]][3][1]
            else:
                t = f[2][1]
            c = self.fresh(t)
            self.spawn(f[3], dict(p.env), [c], p.origin + '/new')
            p.env = dict(p.env)
            p.env[f[1]] = c
            p.body = f[4]
            self.rule('CUT')
            return True
        if k == 'call':
            d = self.funs[f[1]]
            params = [n for n, _ in d[2]]
            args = f[2]
            if len(args) == len(params) + 1:
                if not self.is_self(p, args[0]):
                    raise Stuck("explicit self argument is not self")
                args = args[1:]
            elif len(args) != len(params):
                raise Stuck("arity")
            env = {}
            for n, a in zip(params, args):
                c = self.ch(p, a)
                if c == SELF:
                    raise Stuck("self passed as argument")
                env[n] = c
            if d[5] is not None:
                env[d[5]] = SELF
            p.env = env
            p.body = d[4]
            self.rule('CALL')
            return True
        if k == 'drop':
            c = self.ch(p, f[1])
            self.drop_chan(c, p.origin)
            p.body = f[2]
            self.rule('DROP')
            return True
        if k == 'split':
            c = self.ch(p, f[3])
            t = self.ctype[c]
            a, b = self.fresh(t), self.fresh(t)
            p.env = dict(p.env)
            p.env[f[1]] = a
            p.env[f[2]] = b
            self.spawn(['fwd', 'self', '$c'], {'$c': c}, [a, b], p.origin + '/splitfwd')
            p.body = f[4]
            self.rule('SPLIT')
            return True
        if k == 'send':
            if self.is_self(p, f[1]):
                self.put(p.prov[0], ('SND', self.ch(p, f[2]), self.ch(p, f[3])))
                self.kill(p)
            else:
                if not self.is_self(p, f[3]):
                    raise Stuck("send to client without self continuation")
                self.put(self.ch(p, f[1]), ('RCV', self.ch(p, f[2]), p.prov[0]))
                self.procs.remove(p)
            return True
        if k == 'sel':
            if self.is_self(p, f[1]):
                self.put(p.prov[0], ('SEL', self.ch(p, f[3]), None, f[2]))
                self.kill(p)
            else:
                if not self.is_self(p, f[3]):
                    raise Stuck("select on client without self continuation")
                self.put(self.ch(p, f[1]), ('BRA', p.prov[0], None, f[2]))
                self.procs.remove(p)
            return True
        if k == 'cast':
            if self.is_self(p, f[1]):
                self.put(p.prov[0], ('CST', self.ch(p, f[2]), None))
                self.kill(p)
            else:
                if not self.is_self(p, f[2]):
                    raise Stuck("cast on client without self continuation")
                self.put(self.ch(p, f[1]), ('SHF', p.prov[0], None))
                self.procs.remove(p)
            return True
        if k == 'close':
            if not self.is_self(p, f[1]):
                raise Stuck("close on client")
            self.put(p.prov[0], ('CLS', None, None))
            self.kill(p)
            return True
        if k == 'resend':
            self.put(p.prov[0], f[1])
            self.kill(p)
            return True
        if k == 'fwd':
            if not self.is_self(p, f[1]):
                raise Stuck("fwd not on self")
            c = self.ch(p, f[2])
            if polarity(self.ctype[c], tenv) == '-':
                self.put(c, ('FWD', list(p.prov), None))
                self.rule('FWD-')
                self.procs.remove(p)
                return True
            m = self.cmsg[c]
            if m is None:
                return False
            self.take(c)
            self.rule('FWD+')
            p.body = ['resend', m]
            p.env = {}
            return True
        if k == 'dfwd':
            c = self.ch(p, f[1])
            if polarity(self.ctype[c], tenv) == '-':
                self.put(c, ('GC', None, None))
                self.procs.remove(p)
                return True
            m = self.cmsg[c]
            if m is None:
                return False
            self.take(c)
            for x in m[1:3]:
                if isinstance(x, int):
                    self.drop_chan(x, p.origin)
            self.kill(p)
            return True
        # receiving forms
        if k in ('recv', 'case', 'shift', 'wait'):
            src = f[3] if k == 'recv' else (f[2] if k == 'shift' else f[1])
            on_self = self.is_self(p, src)
            c = p.prov[0] if on_self else self.ch(p, src)
            m = self.cmsg[c]
            if m is None:
                return False
            self.take(c)
            if m[0] == 'FWD':
                self.dead += 1
                p.prov = list(m[1])
                return True
            if m[0] == 'GC':
                for x in self.free_chans(p):
                    self.drop_chan(x, p.origin)
                self.rule('GC')
                self.kill(p)
                return True
            want = {('recv', True): 'RCV', ('recv', False): 'SND', ('case', True): 'BRA', ('case', False): 'SEL',
                    ('shift', True): 'SHF', ('shift', False): 'CST', ('wait', False): 'CLS'}.get((k, on_self))
            if m[0] != want:
                raise Stuck("expected %s, found %s in %s" % (want, m[0], p.origin))
            self.rule(want)
            p.env = dict(p.env)
            if k == 'recv':
                p.env[f[1]] = m[1]
                if on_self:
                    p.env[f[2]] = SELF
                    self.dead += 1
                    p.prov = [m[2]]
                else:
                    p.env[f[2]] = m[2]
                p.body = f[4]
            elif k == 'case':
                for l, pay, b in f[2]:
                    if l == m[3]:
                        break
                else:
                    raise Stuck("no branch for label %s" % m[3])
                if on_self:
                    p.env[pay] = SELF
                    self.dead += 1
                    p.prov = [m[1]]
                else:
                    p.env[pay] = m[1]
                p.body = b
            elif k == 'shift':
                if on_self:
                    p.env[f[1]] = SELF
                    self.dead += 1
                    p.prov = [m[1]]
                else:
                    p.env[f[1]] = m[1]
                p.body = f[3]
            else:
                p.body = f[2]
            return True
        raise Stuck("unknown form " + k)

    def run(self):
        """returns 'done' | 'fuel' | 'error: ...'"""
        try:
            self.load()
            steps = 0
            while True:
                moved = False
                for p in list(self.procs):
                    if p not in self.procs:
                        continue
                    # run p as far as it goes (cheap, and the result does not depend on the schedule)
                    while p in self.procs and self.step(p):
                        moved = True
                        steps += 1
                        if steps > self.fuel:
                            return 'fuel'
                if not moved:
                    return 'done'
        except Stuck as e:
            if str(e) == "too many processes":
                return 'fuel'
            self.error = str(e)
            return 'error: ' + str(e)


def run_reference(decls, fuel=20000, max_procs=400):
    """-> dict(status, prints (list of labels in one possible order), prints_by_origin, processes, live, rules)"""
    m = Machine(decls, fuel, max_procs)
    st = m.run()
    return {
        'status': st,
        'prints': [l for l, _ in m.prints],
        'processes': m.spawned,
        'dead': m.dead,
        'live': len(m.procs),
        'live_origins': [p.origin + ':' + p.body[0] for p in m.procs],
        'rules': dict(m.rules),
    }
