"""Self-test of the program generator against the real code:  python3 lib/vlib/proggen_selftest.py <seed> <n> [quick|thorough|mixed]

Prints: acceptance rate of generated programs by the real typechecker (probe tc), the rejected
programs, fraction of mutants rejected (and 'same-verdict' mutants that changed the verdict),
run results of the closed accepted programs under `probe run1 async 0 150` against the predicted
print multiset / survivors / process count, the same for renamings, and the coverage table with
its empty cells.  Deviations are written to .cache/proggen_selftest/ for inspection."""
import collections
import json
import os
import random
import subprocess
import sys
from concurrent.futures import ThreadPoolExecutor

HERE = os.path.dirname(os.path.abspath(__file__))
sys.path.insert(0, os.path.dirname(HERE))
from vlib import proggen  # noqa: E402
from vlib import common as C  # noqa: E402

OUT = os.path.join(C.CACHE, "proggen_selftest")


def probe_path():
    for p in (os.path.join(C.BIN, "probe"), "/verif/.cache/bin/probe"):
        if os.path.exists(p):
            return p
    raise SystemExit("probe not built: run bin/setup")


def tc_all(probe, texts):
    """verdict per text: ACCEPT | REJECT | PARSE-ERR | REJECT-INTERNAL | CRASH"""
    os.makedirs(OUT, exist_ok=True)
    path = os.path.join(OUT, "cases.%d" % os.getpid())
    res = {}
    todo = list(enumerate(texts))
    while todo:
        with open(path, "w") as f:
            for i, t in todo:
                f.write("%d\t%s\n" % (i, t.encode("utf8").hex()))
        r = subprocess.run([probe, "tc", path], capture_output=True, text=True, errors="replace")
        got = {}
        for line in r.stdout.split("\n"):
            if "\t" in line:
                i, v = line.split("\t", 1)
                if i.isdigit():
                    got[int(i)] = v.split("\t")[0].split(" ")[0]
        res.update(got)
        rest = [(i, t) for i, t in todo if i not in got]
        if not rest:
            break
        res[rest[0][0]] = "CRASH"
        todo = rest[1:]
    os.remove(path)
    return [res.get(i, "MISSING") for i in range(len(texts))]


def run1(probe, text, timeout_ms=150, mode="async"):
    try:
        r = subprocess.run([probe, "run1", mode, "0", str(timeout_ms), text.encode("utf8").hex()],
                           capture_output=True, text=True, errors="replace", timeout=60)
    except subprocess.TimeoutExpired:
        return {"outcome": "timeout", "prints": [], "live": None, "processes": None, "detail": ""}
    prints = [l[2:] for l in r.stdout.split("\n") if l.startswith("> ")]
    res = None
    for l in r.stdout.split("\n"):
        if l.startswith("@@RESULT "):
            res = json.loads(l[9:])
    if res is None:
        msg = [l for l in r.stderr.split("\n") if l.startswith("panic:") or l.startswith("fatal error")]
        return {"outcome": "panic", "prints": prints, "live": None, "processes": None,
                "detail": (msg[0] if msg else r.stderr[:200])}
    return {"outcome": res["verdict"], "prints": prints, "live": len(res.get("live") or []),
            "processes": res.get("processes"), "detail": res.get("detail", "")}


def judge(meta, got, label_map=None):
    exp = meta["expected_prints"]
    if label_map:
        exp = sorted(label_map.get(l, l) for l in exp)
    if got["outcome"] != "ran":
        return got["outcome"]
    if sorted(got["prints"]) != exp:
        return "prints-differ"
    if got["live"] != meta["expected_live"]:
        return "live-differ"
    return "ok"


def run_and_judge(probe, text, meta, label_map=None):
    got = run1(probe, text)
    v = judge(meta, got, label_map)
    if v in ("prints-differ", "live-differ", "timeout"):
        # the 150 ms heartbeat can cut a run short under load: one retry with a long one
        got = run1(probe, text, 600)
        v = judge(meta, got, label_map)
    return v, got


def save(kind, idx, text, info):
    os.makedirs(OUT, exist_ok=True)
    p = os.path.join(OUT, "%s_%s.grits" % (kind, idx))
    with open(p, "w") as f:
        f.write("// %s\n" % json.dumps(info)[:1500])
        f.write(text)
    return p


def main():
    seed = int(sys.argv[1]) if len(sys.argv) > 1 else 1
    n = int(sys.argv[2]) if len(sys.argv) > 2 else 200
    size = sys.argv[3] if len(sys.argv) > 3 else "mixed"
    probe = probe_path()
    rng = random.Random(seed)
    progs = []
    for i in range(n):
        sz = size if size != "mixed" else ("thorough" if i % 4 == 3 else "quick")
        closed = (i % 7) != 6
        progs.append(proggen.gen_program(rng, sz, closed=closed))
    report = {"seed": seed, "n": n, "size": size}
    report["generator_abandoned_draws"] = proggen.GEN_FAILURES[0]
    report["generator_bugs"] = sum(1 for p in progs if p.meta.get("generator_bug"))
    report["not_terminating_in_reference"] = sum(1 for p in progs if p.meta["closed"] and not p.meta.get("terminates"))
    forms = sorted(p.meta["n_forms"] for p in progs)
    report["forms_median_max"] = [forms[len(forms) // 2], forms[-1]]
    # ---- 1. acceptance
    verdicts = tc_all(probe, [p.text for p in progs])
    vc = collections.Counter(verdicts)
    report["tc_verdicts"] = dict(vc)
    report["acceptance_rate"] = round(vc["ACCEPT"] / float(n), 4)
    rejected = []
    for i, (p, v) in enumerate(zip(progs, verdicts)):
        if v != "ACCEPT":
            d = run1(probe, p.text)
            rejected.append(save("rejected", "%d_%d" % (seed, i), p.text, {"verdict": v, "detail": d["detail"]}))
    report["rejected_files"] = rejected
    # ---- 2. runs
    closed_ok = [(i, p) for i, (p, v) in enumerate(zip(progs, verdicts))
                 if v == "ACCEPT" and p.meta["closed"] and p.meta.get("terminates")]
    with ThreadPoolExecutor(4) as ex:
        outs = list(ex.map(lambda ip: run_and_judge(probe, ip[1].text, ip[1].meta), closed_ok))
    rc = collections.Counter(v for v, _ in outs)
    report["runs"] = dict(rc)
    report["runs_total"] = len(closed_ok)
    report["runs_with_predicted_prints"] = sum(1 for _, p in closed_ok if p.meta["expected_prints"] is not None)
    report["runs_nonempty_prints"] = sum(1 for _, p in closed_ok if p.meta["expected_prints"])
    report["runs_with_survivors_predicted"] = sum(1 for _, p in closed_ok if p.meta["expected_live"])
    pcd = sum(1 for (i, p), (v, got) in zip(closed_ok, outs) if v == "ok" and got["processes"] != p.meta["expected_processes"])
    report["process_count_differs"] = pcd
    devs = []
    for (i, p), (v, got) in zip(closed_ok, outs):
        if v == "ok":
            continue
        # classify: does the globally-unique-names variant behave? then it is a name-capture defect
        uniq = proggen.renamings(random.Random(0), p, 12)
        cls = "unexplained"
        for t, lm in uniq:
            if "u1_" in t:
                v2, _ = run_and_judge(probe, t, p.meta, lm)
                cls = "name-capture (unique-name variant ok)" if v2 == "ok" else "persists with unique names"
                break
        devs.append({"file": save("run_deviation", "%d_%d" % (seed, i), p.text,
                                  {"verdict": v, "detail": got["detail"], "expected": p.meta["expected_prints"],
                                   "got": sorted(got["prints"]), "live": got["live"],
                                   "expected_live": p.meta["expected_live"], "class": cls}),
                     "verdict": v, "class": cls, "detail": got["detail"][:160]})
    report["run_deviations"] = devs
    # ---- 3. mutants
    mrng = random.Random(seed + 1)
    muts = []
    for i, (p, v) in enumerate(zip(progs, verdicts)):
        if v != "ACCEPT":
            continue
        for kind, text, exp in proggen.mutants(mrng, p, 4):
            muts.append((i, kind, text, exp))
    mv = tc_all(probe, [m[2] for m in muts])
    mc = collections.Counter()
    bykind = collections.defaultdict(collections.Counter)
    same_viol = []
    for (i, kind, text, exp), v in zip(muts, mv):
        rej = v != "ACCEPT"
        if exp == "may-differ":
            mc["may-differ:" + ("rejected" if rej else "accepted")] += 1
        else:
            mc["same-verdict:" + ("VIOLATED" if rej else "held")] += 1
            if rej:
                d = run1(probe, text)
                same_viol.append(save("mutant_same_verdict_violated", "%d_%d_%d" % (seed, i, len(same_viol)), text,
                                      {"kind": kind, "verdict": v, "detail": d["detail"]}))
        bykind[kind.split("/")[0]][("rej" if rej else "acc")] += 1
        if v not in ("ACCEPT", "REJECT", "PARSE-ERR"):
            mc["abnormal:" + v] += 1
            save("mutant_abnormal", "%d_%d" % (seed, len(mc)), text, {"kind": kind, "verdict": v})
    report["mutants"] = dict(mc)
    nm = mc["may-differ:rejected"] + mc["may-differ:accepted"]
    report["mutants_total"] = len(muts)
    report["mutants_may_differ_rejected_fraction"] = round(mc["may-differ:rejected"] / float(max(1, nm)), 4)
    report["mutants_by_kind"] = {k: dict(c) for k, c in sorted(bykind.items())}
    report["same_verdict_violations"] = same_viol
    # ---- 4. renamings
    rrng = random.Random(seed + 2)
    rens = []
    for i, (p, v) in enumerate(zip(progs, verdicts)):
        for t, lm in proggen.renamings(rrng, p, 2):
            rens.append((i, p, v, t, lm))
    rv = tc_all(probe, [r[3] for r in rens])
    ren_verdict_changed = []
    for (i, p, v, t, lm), v2 in zip(rens, rv):
        if v2 != v:
            d = run1(probe, t)
            ren_verdict_changed.append(save("renaming_verdict_changed", "%d_%d_%d" % (seed, i, len(ren_verdict_changed)),
                                            t + "\n/* ORIGINAL:\n" + p.text + "*/\n",
                                            {"orig": v, "renamed": v2, "detail": d["detail"]}))
    report["renamings_total"] = len(rens)
    report["renamings_verdict_changed"] = ren_verdict_changed
    runnable = [(i, p, t, lm) for (i, p, v, t, lm), v2 in zip(rens, rv)
                if v2 == "ACCEPT" and p.meta["closed"] and p.meta.get("terminates")]
    with ThreadPoolExecutor(4) as ex:
        routs = list(ex.map(lambda x: run_and_judge(probe, x[2], x[1].meta, x[3]), runnable))
    rrc = collections.Counter(v for v, _ in routs)
    report["renaming_runs"] = dict(rrc)
    rdev = []
    for (i, p, t, lm), (v, got) in zip(runnable, routs):
        if v != "ok":
            rdev.append({"file": save("renaming_run_deviation", "%d_%d_%d" % (seed, i, len(rdev)),
                                      t + "\n/* ORIGINAL:\n" + p.text + "*/\n",
                                      {"verdict": v, "detail": got["detail"], "got": sorted(got["prints"]),
                                       "expected": sorted(lm.get(l, l) for l in p.meta["expected_prints"])}),
                         "verdict": v, "detail": got["detail"][:160]})
    report["renaming_run_deviations"] = rdev
    # ---- 5. coverage
    cov = proggen.coverage_report([p for p, v in zip(progs, verdicts) if v == "ACCEPT"])
    report["coverage_required_cells"] = cov["required"]
    report["coverage_empty_cells"] = cov["empty"]
    report["coverage_cells"] = cov["cells"]
    cells = report.pop("coverage_cells")
    print(json.dumps(report, indent=1))
    print("COVERAGE TABLE (cell: number of accepted programs using it)")
    for k, v in cells.items():
        print("  %-40s %d" % (k, v))
    print("EMPTY REQUIRED CELLS:", cov["empty"])
    bad = (report["generator_bugs"] or rejected or devs or same_viol or ren_verdict_changed or rdev)
    return 1 if bad else 0


if __name__ == "__main__":
    sys.exit(main())
