"""Shared machinery of /verif/bin/check: paths, subprocess helpers, the build prelude
(translators -> generated .v files -> full coq build -> extraction -> Go probe), evidence and
replay writers, known-findings handling."""
import fcntl
import hashlib
import json
import os
import re
import subprocess
import sys
import time

VERIF = os.path.dirname(os.path.dirname(os.path.dirname(os.path.abspath(__file__))))
REPO = os.environ.get("VERIF_REPO", "/repo")
CACHE = os.path.join(VERIF, ".cache")
COQ = os.path.join(VERIF, "coq")
THEORIES = os.path.join(COQ, "theories")
GEN = os.path.join(THEORIES, "gen")
HARNESS = os.path.join(VERIF, "harness")
BIN = os.path.join(CACHE, "bin")
EVIDENCE = os.path.join(VERIF, "evidence")
REPLAY = os.path.join(VERIF, "replay")
CORPUS = os.path.join(VERIF, "corpus")
KNOWN = os.path.join(VERIF, "known_findings.jsonl")

GOENV = dict(os.environ, GOFLAGS="-mod=mod", GOPROXY="off", GOSUMDB="off", GOTOOLCHAIN="local",
             CGO_ENABLED=os.environ.get("CGO_ENABLED", "1"))

ALLOWED_AXIOMS = {
    # standard-library axioms that may appear under Print Assumptions; each one that does is
    # reported verbatim in the evidence.  (The development is written to need none.)
    "functional_extensionality_dep", "proof_irrelevance", "classic", "JMeq_eq", "eq_rect_eq",
    "propositional_extensionality", "constructive_indefinite_description",
}


def log(*a):
    print(*a, file=sys.stderr, flush=True)


def run(cmd, cwd=None, env=None, timeout=None, input=None, check=False):
    """run a command, return (rc, stdout, stderr); never raises on non-zero unless check"""
    try:
        p = subprocess.run(cmd, cwd=cwd, env=env, timeout=timeout, input=input,
                           stdout=subprocess.PIPE, stderr=subprocess.PIPE, text=True, errors="replace")
        rc, out, err = p.returncode, p.stdout, p.stderr
    except subprocess.TimeoutExpired as e:
        rc, out, err = 124, (e.stdout or b"").decode("utf8", "replace") if isinstance(e.stdout, bytes) else (e.stdout or ""), "timeout"
    out = "\n".join(l for l in out.split("\n") if "conda.cli.condarc" not in l)
    if check and rc != 0:
        raise RuntimeError("command failed (%d): %s\n%s\n%s" % (rc, cmd, out[-2000:], err[-2000:]))
    return rc, out, err


def sha(s):
    if isinstance(s, str):
        s = s.encode()
    return hashlib.sha256(s).hexdigest()


def write_if_changed(path, content):
    try:
        with open(path) as f:
            if f.read() == content:
                return False
    except FileNotFoundError:
        pass
    os.makedirs(os.path.dirname(path), exist_ok=True)
    tmp = path + ".tmp"
    with open(tmp, "w") as f:
        f.write(content)
    os.replace(tmp, path)
    return True


def tree_hash(root, exts, skip=(".git",)):
    h = hashlib.sha256()
    for d, dirs, files in os.walk(root):
        dirs[:] = sorted(x for x in dirs if x not in skip and not x.startswith(".cache"))
        for fn in sorted(files):
            if fn.endswith(exts):
                p = os.path.join(d, fn)
                h.update(p.encode())
                with open(p, "rb") as f:
                    h.update(hashlib.sha256(f.read()).digest())
    return h.hexdigest()


class Lock:
    def __init__(self, name="lock"):
        os.makedirs(CACHE, exist_ok=True)
        self.path = os.path.join(CACHE, name)

    def __enter__(self):
        self.f = open(self.path, "w")
        fcntl.flock(self.f, fcntl.LOCK_EX)
        return self

    def __exit__(self, *a):
        fcntl.flock(self.f, fcntl.LOCK_UN)
        self.f.close()


# ----------------------------------------------------------------------------------------
# the build prelude
# ----------------------------------------------------------------------------------------

class Build:
    """result of the prelude: what built, what did not, and where the binaries are"""

    def __init__(self):
        self.probe = os.path.join(BIN, "probe")
        self.model = os.path.join(BIN, "model")
        self.grits = os.path.join(BIN, "grits")
        self.coq_failed = {}      # relative .v path -> error text
        self.coq_log = ""
        self.probe_error = None   # text when the probe does not build (the tree does not compile)
        self.gen_errors = {}      # generated file -> translator error
        self.model_error = None
        self.model_failed_areas = []   # Extract_<area>.v / drv_<area>.ml that did not build
        self.deps = {}            # .v -> set of .v it depends on (direct)

    def cone(self, vfile):
        """transitive dependencies of a .v file (relative paths under coq/), including itself"""
        seen, todo = set(), [vfile]
        while todo:
            x = todo.pop()
            if x in seen:
                continue
            seen.add(x)
            todo.extend(self.deps.get(x, ()))
        return seen

    def broken_in_cone(self, vfile):
        c = self.cone(vfile)
        return {f: e for f, e in self.coq_failed.items() if f in c}


def go_build(pkgdir, out, tags="verif", timeout=900):
    os.makedirs(os.path.dirname(out), exist_ok=True)
    cmd = ["go", "build", "-o", out]
    if tags:
        cmd += ["-tags", tags]
    cmd += ["."]
    rc, o, e = run(cmd, cwd=pkgdir, env=GOENV, timeout=timeout)
    return rc, (o + e)


def go_build_race(pkgdir, out, tags="verif", timeout=1800):
    os.makedirs(os.path.dirname(out), exist_ok=True)
    rc, o, e = run(["go", "build", "-race", "-tags", tags, "-o", out, "."], cwd=pkgdir, env=GOENV, timeout=timeout)
    return rc, (o + e)


GENERATORS = []   # (output file under theories/gen, probe subcommand); filled from lib/vlib/gens/*.py


def parse_coq_errors(text):
    """map file -> first error text, from make -k output"""
    failed = {}
    cur = None
    lines = text.split("\n")
    for i, l in enumerate(lines):
        m = re.match(r'File "\./(theories/[^"]+\.v)", line (\d+), characters', l)
        if m:
            cur = (m.group(1), i)
        m2 = re.match(r"make(\[\d+\])?: \*\*\* \[[^\]]*: (theories/\S+)\.vo\] Error", l)
        if m2:
            f = m2.group(2) + ".v"
            if f not in failed:
                start = cur[1] if cur and cur[0] == f else max(0, i - 12)
                failed[f] = "\n".join(lines[start:i])[:3000]
    return failed


def read_deps():
    """parse coq/.Makefile.d into a map  theories/X.v -> {theories/Y.v}"""
    deps = {}
    p = os.path.join(COQ, ".Makefile.d")
    if not os.path.exists(p):
        return deps
    with open(p) as f:
        txt = f.read().replace("\\\n", " ")
    for line in txt.split("\n"):
        if ":" not in line:
            continue
        lhs, rhs = line.split(":", 1)
        tgts = [t for t in lhs.split() if t.endswith(".vo")]
        if not tgts:
            continue
        v = tgts[0][:-1]  # X.vo -> X.v
        ds = set()
        for d in rhs.split():
            if d.endswith(".vo") and d.startswith("theories/"):
                ds.add(d[:-1])
        deps.setdefault(v, set()).update(ds)
    return deps


def prelude(need_model=True, need_grits=False):
    """Rebuild everything that depends on /repo's current working tree.  Idempotent and cheap
    when nothing changed.  Serialised by a file lock so that checks can be started in a row."""
    b = Build()
    with Lock():
        t0 = time.time()
        os.makedirs(BIN, exist_ok=True)
        # 1. the Go probe, linked against /repo's working tree (build tag verif)
        write_if_changed(os.path.join(HARNESS, "go.sum"), open(os.path.join(REPO, "go.sum")).read())
        gm = os.path.join(HARNESS, "go.mod")
        write_if_changed(gm, re.sub(r"replace grits => \S+", "replace grits => " + REPO, open(gm).read()))
        rc, out = go_build(HARNESS, b.probe)
        if rc != 0:
            b.probe_error = out[-4000:]
            log("[prelude] probe does not build:\n" + out[-1500:])
        # 2. translators: regenerate theories/gen/*.v (write-if-changed)
        if not b.probe_error:
            for fn, sub in GENERATORS:
                rc, out, err = run([b.probe] + sub, timeout=120)
                if rc != 0 or not out.strip():
                    b.gen_errors[fn] = (out + err)[-2000:]
                    log("[prelude] translator %s failed: %s" % (fn, (out + err)[-500:]))
                else:
                    if write_if_changed(os.path.join(GEN, fn), out):
                        log("[prelude] regenerated gen/%s" % fn)
        for g in EXTRA_GENERATORS:
            try:
                g(b)
            except Exception as ex:  # a translator that crashes is reported, not fatal
                b.gen_errors[getattr(g, "__name__", "gen")] = repr(ex)
                log("[prelude] translator %s crashed: %r" % (getattr(g, "__name__", "gen"), ex))
        # 3. full coq build (make -k: everything that can build does)
        rc, out, err = run(["bash", os.path.join(COQ, "build.sh")], timeout=3000)
        b.coq_log = out + err
        write_if_changed(os.path.join(CACHE, "coq_build.log"), b.coq_log)
        if rc != 0:
            b.coq_failed = parse_coq_errors(b.coq_log)
            if not b.coq_failed:
                b.coq_failed = {"theories/?": b.coq_log[-3000:]}
            log("[prelude] coq build failed for: %s" % ", ".join(sorted(b.coq_failed)))
        b.deps = read_deps()
        # files that depend on a failed file are not built either
        changed = True
        while changed:
            changed = False
            for v, ds in b.deps.items():
                if v not in b.coq_failed and any(d in b.coq_failed for d in ds):
                    b.coq_failed[v] = "dependency failed: " + ", ".join(sorted(d for d in ds if d in b.coq_failed))
                    changed = True
        # 4. extraction + OCaml driver
        if need_model:
            build_model(b)
        if need_grits:
            rc, out = go_build(REPO, b.grits, tags="")
            if rc != 0:
                b.probe_error = b.probe_error or out[-4000:]
        log("[prelude] done in %.1fs" % (time.time() - t0))
    return b


EXTRA_GENERATORS = []


def _load_generator_modules():
    """every module lib/vlib/gens/*.py may define GENERATORS (list of (file, probe-args)) and
    EXTRA (list of functions taking the Build) - so that adding a translator touches no shared file"""
    import importlib
    import pkgutil
    from . import gens
    for m in pkgutil.iter_modules(gens.__path__):
        mod = importlib.import_module("vlib.gens." + m.name)
        for g in getattr(mod, "GENERATORS", []):
            if g not in GENERATORS:
                GENERATORS.append(g)
        for g in getattr(mod, "EXTRA", []):
            if g not in EXTRA_GENERATORS:
                EXTRA_GENERATORS.append(g)


_load_generator_modules()


def build_model(b):
    """extract the executable model to OCaml and build the driver (only when sources changed)"""
    ex = os.path.join(COQ, "extract")
    import glob as _glob
    if not _glob.glob(os.path.join(ex, "Extract_*.v")):
        return
    stamp = tree_hash(THEORIES, (".v",)) + tree_hash(ex, (".v", "registry.ml", "driver.ml", "build.sh")) + \
        sha("".join(open(f).read() for f in sorted(_glob.glob(os.path.join(ex, "drv_*.ml")))))
    sp = os.path.join(CACHE, "model.stamp")

    def read_failed():
        try:
            b.model_failed_areas = open(b.model + ".failed").read().split()
        except OSError:
            b.model_failed_areas = []
    if os.path.exists(b.model) and os.path.exists(sp) and open(sp).read() == stamp:
        read_failed()
        return
    rc, out, err = run(["bash", os.path.join(ex, "build.sh"), b.model], timeout=1800)
    if rc != 0:
        b.model_error = (out + err)[-4000:]
        log("[prelude] model extraction/build failed:\n" + b.model_error[-1500:])
        try:
            os.remove(sp)
        except FileNotFoundError:
            pass
    else:
        with open(sp, "w") as f:
            f.write(stamp)
        read_failed()
        if b.model_failed_areas:
            log("[prelude] model areas that did not build: %s" % " ".join(b.model_failed_areas))


# ----------------------------------------------------------------------------------------
# proof accounting
# ----------------------------------------------------------------------------------------

THM_RE = re.compile(r"^\s*(?:Local\s+|Global\s+|#\[[^\]]*\]\s*)*(Theorem|Lemma|Corollary|Example|Fact|Proposition|Remark)\s+([A-Za-z_][A-Za-z0-9_']*)", re.M)


def theorems_in(vpath):
    try:
        with open(os.path.join(COQ, vpath)) as f:
            return [m.group(2) for m in THM_RE.finditer(f.read())]
    except FileNotFoundError:
        return []


def forbidden_scan():
    """no Admitted/admit/Axiom/Parameter/... anywhere in the development"""
    bad = []
    pat = re.compile(r"\b(Admitted|admit|Axiom|Axioms|Parameter|Parameters|Conjecture|Conjectures|Hypothesis|Hypotheses|Variable|Variables|Admit Obligations|bypass_check|Unset Guard Checking|Unset Positivity Checking|Unset Universe Checking|type-in-type|impredicative-set)\b")
    for d, _, files in os.walk(THEORIES):
        for fn in files:
            if not fn.endswith(".v"):
                continue
            p = os.path.join(d, fn)
            txt = open(p).read()
            txt_nc = strip_coq_comments(txt)
            depth = 0
            for ln, line in enumerate(txt_nc.split("\n"), 1):
                if re.match(r"\s*Section\b", line):
                    depth += 1
                if re.match(r"\s*End\b", line) and depth > 0:
                    depth -= 1
                for m in pat.finditer(line):
                    w = m.group(1)
                    if w in ("Variable", "Variables", "Hypothesis", "Hypotheses") and depth > 0:
                        continue  # section-local: discharged at End
                    bad.append("%s:%d: %s" % (os.path.relpath(p, COQ), ln, line.strip()[:120]))
    return bad


def strip_coq_comments(txt):
    out, depth, i, n = [], 0, 0, len(txt)
    instr = False
    while i < n:
        if not instr and txt.startswith("(*", i):
            depth += 1
            i += 2
            continue
        if not instr and depth > 0 and txt.startswith("*)", i):
            depth -= 1
            i += 2
            continue
        c = txt[i]
        if depth == 0:
            if c == '"':
                instr = not instr
            out.append(c if not instr or c == '"' else " ")
        elif c == "\n":
            out.append(c)
        i += 1
    return "".join(out)


def print_assumptions(prop_v, names):
    """run Print Assumptions on every theorem of a props file (loads the compiled .vo)"""
    mod = "Grits." + prop_v[len("theories/"):-2].replace("/", ".")
    src = "Require Import %s.\n" % mod + "".join("Print Assumptions %s.\n" % n for n in names)
    d = os.path.join(CACHE, "pa")
    os.makedirs(d, exist_ok=True)
    fn = os.path.join(d, "PA_" + os.path.basename(prop_v))
    with open(fn, "w") as f:
        f.write(src)
    rc, out, err = run(["coqc", "-Q", os.path.join(COQ, "theories"), "Grits", fn], cwd=d, timeout=600)
    txt = out + err
    closed = txt.count("Closed under the global context")
    axioms = []
    if "Axioms:" in txt:
        for m in re.finditer(r"^([A-Za-z_][A-Za-z0-9_.']*)\s*:", txt, re.M):
            axioms.append(m.group(1))
    return rc, closed, sorted(set(axioms)), txt


class ProofStatus:
    def __init__(self):
        self.obligations = 0
        self.discharged = 0
        self.theorems = []          # property theorems (names)
        self.broken = {}            # file -> error
        self.axioms = []
        self.pa_text = ""
        self.forbidden = []
        self.ok = False
        self.cone_files = []


def proof_status(b, prop_v):
    """obligations = Theorem/Lemma/... statements in the dependency cone of props/<id>.v;
    discharged = those in files whose .vo was built by this run's full make."""
    ps = ProofStatus()
    cone = sorted(b.cone(prop_v)) if b.deps else [prop_v]
    if prop_v not in cone:
        cone.append(prop_v)
    ps.cone_files = cone
    ps.broken = {f: e for f, e in b.coq_failed.items() if f in cone or f == "theories/?"}
    for f in cone:
        ths = theorems_in(f)
        ps.obligations += len(ths)
        if f not in ps.broken and os.path.exists(os.path.join(COQ, f + "o")):
            ps.discharged += len(ths)
    ps.theorems = theorems_in(prop_v)
    ps.forbidden = forbidden_scan()
    if not ps.broken and os.path.exists(os.path.join(COQ, prop_v + "o")):
        rc, closed, axioms, txt = print_assumptions(prop_v, ps.theorems)
        ps.pa_text = txt
        ps.axioms = axioms
        bad_ax = [a for a in axioms if a.split(".")[-1] not in ALLOWED_AXIOMS]
        ps.ok = (rc == 0 and not bad_ax and not ps.forbidden and ps.discharged == ps.obligations
                 and closed + (1 if axioms else 0) >= 1)
        if bad_ax:
            ps.broken[prop_v] = "theorem depends on non-standard axioms: " + ", ".join(bad_ax)
    return ps


def coqchk_once(timeout=3600):
    """thorough tier: re-check every compiled .vo of the development (and everything it depends on)
    with the independent checker coqchk, once per state of coq/theories; returns the report text
    (axioms as coqchk lists them).  Cached on disk by content hash."""
    stamp = tree_hash(THEORIES, (".v",))
    cf = os.path.join(CACHE, "coqchk-%s.txt" % stamp[:16])
    if os.path.exists(cf):
        return open(cf).read()
    mods = []
    for d, _, files in os.walk(THEORIES):
        for fn in sorted(files):
            if fn.endswith(".vo"):
                rel = os.path.relpath(os.path.join(d, fn), THEORIES)[:-3]
                if rel.startswith("diag"):
                    continue
                mods.append("Grits." + rel.replace(os.sep, "."))
    with Lock("coqchk.lock"):
        if os.path.exists(cf):
            return open(cf).read()
        t0 = time.time()
        rc, out, err = run(["coqchk", "-silent", "-o", "-Q", THEORIES, "Grits"] + sorted(mods), cwd=COQ, timeout=timeout)
        txt = "coqchk rc=%d in %.0fs over %d modules\n%s\n%s" % (rc, time.time() - t0, len(mods), out[-6000:], err[-2000:])
        if rc in (0,):
            with open(cf, "w") as f:
                f.write(txt)
        return txt


# ----------------------------------------------------------------------------------------
# results
# ----------------------------------------------------------------------------------------

class Violation:
    def __init__(self, what, replay, found_input=True):
        self.what = what
        self.replay = replay          # dict written to the replay file
        self.found_input = found_input


def known_findings(prop):
    out = []
    if os.path.exists(KNOWN):
        for line in open(KNOWN):
            line = line.strip()
            if not line or line.startswith("#"):
                continue
            try:
                r = json.loads(line)
            except json.JSONDecodeError:
                continue
            if r.get("property") == prop and r.get("status") == "known":
                out.append(r)
    return out


def write_replay(prop, payload):
    os.makedirs(REPLAY, exist_ok=True)
    body = json.dumps(payload, indent=1, sort_keys=True)
    fn = os.path.join(REPLAY, "%s-%s.json" % (prop, sha(body)[:12]))
    with open(fn, "w") as f:
        f.write(body + "\n")
    return fn


def trusted_base(ps, extra=()):
    tb = [
        "Coq 8.16.1 kernel (coqc), vm_compute for finite-table theorems; no native_compute",
        "Print Assumptions on every property theorem: " + ("Closed under the global context (no axioms)" if not ps.axioms else "axioms: " + ", ".join(ps.axioms)),
        "full .vo build with make (never -vos); grep for Admitted/admit/Axiom/Parameter/... over coq/theories finds nothing" if not ps.forbidden else "FORBIDDEN constructs present: " + "; ".join(ps.forbidden[:5]),
    ]
    tb.extend(extra)
    return tb


def write_evidence(prop, tier, seed, coverage, assumptions, wall_s, violations, level="proof"):
    os.makedirs(EVIDENCE, exist_ok=True)
    ev = {
        "property_id": prop,
        "tier": tier,
        "seed": int(seed),
        "level": level,
        "coverage": coverage,
        "assumptions": assumptions,
        "wall_s": round(wall_s, 2),
        "violations": int(violations),
    }
    with open(os.path.join(EVIDENCE, prop + ".json"), "w") as f:
        json.dump(ev, f, indent=1, sort_keys=True)
        f.write("\n")
    return ev
