"""Shared logic of the property checks that sit on the `run` suite (C01–C04)."""
import collections
import json

from . import common as C
from . import runsuite as R


def settings(tier):
    return {"max_programs": 45 if tier == "quick" else 300}


def model_prints(d, i, m, sd="0"):
    return collections.Counter(d.model[i][m][sd]["prints"])


def confirm(b, text, cfg, bad, tries=2):
    """a deviation only counts if it shows again with a generous quiescence timeout (the real
    runtime detects quiescence with a timer; on a loaded machine a run can be cut short)"""
    last = None
    for k in range(tries):
        last = R.rerun(b, text, cfg, timeout_ms=1200 * (k + 1))
        if not bad(last):
            return None
    return last


def violation(prop, kind, what, i, text, cfg, observed, expected):
    return C.Violation(
        "%s: %s on program %s in configuration %s" % (prop, what, i, list(cfg)),
        {"property": prop, "kind": kind, "program_id": i, "program_text": text, "input_hex": R.hexs(text),
         "mode": cfg[0], "monitor": cfg[1], "gomaxprocs": cfg[2], "observed": observed, "expected_by_model": expected,
         "replay_cmd": "bin/check %s --replay <this file>" % prop})


def replay(b, path, prop, bad_of):
    r = json.load(open(path))
    if "input_hex" not in r:
        print("no concrete input in this replay file:", r.get("no_longer_checks"))
        return 1
    text = bytes.fromhex(r["input_hex"]).decode("latin1")
    res = R.run_impl_once(b.probe, text, r["mode"], r["monitor"], 1200, r.get("gomaxprocs"))
    print(json.dumps({k: res[k] for k in ("verdict", "prints", "live", "panic")}, indent=1))
    return 1 if bad_of(r, res) else 0


COMMON_ASSUMPTIONS = [
    "the Go scheduler, memory model and timers are outside the model; the model's quiescence is exact, the runtime's is detected by a timer (deviations are re-run with a longer timeout before they count)",
    "monitor on/off and GOMAXPROCS only vary on the implementation side",
    "programs are fed as the same text to the real pipeline and to the model pipeline (Scan/LR/Expand/Tc/Runtime)",
]
COMMON_TRUSTED = [
    "correspondence: `probe run1` (one fresh OS process per run, public API as the repository's tests use it, goroutine dump at quiescence) vs extracted model `run-<mode>-<seed>` / `trace-<mode>-0` (extraction: ExtrOcamlBasic, ExtrOcamlString; std++ gmap extracted as is)",
]
