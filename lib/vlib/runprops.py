"""Shared logic of the property checks that sit on the `run` suite (C01–C04)."""
import collections
import json

from . import common as C
from . import runsuite as R


def settings(tier):
    return {"max_programs": 45 if tier == "quick" else 300}


def model_prints(d, i, m, sd="0"):
    return collections.Counter(d.model[i][m][sd]["prints"])


def confirm(b, text, cfg, bad, tries=2):
    """a deviation only counts if it shows again with a generous quiescence timeout (the real
    runtime detects quiescence with a timer; on a loaded machine a run can be cut short)"""
    last = None
    for k in range(tries):
        last = R.rerun(b, text, cfg, timeout_ms=1200 * (k + 1))
        if not bad(last):
            return None
    return last


def violation(prop, kind, what, i, text, cfg, observed, expected):
    return C.Violation(
        "%s: %s on program %s in configuration %s" % (prop, what, i, list(cfg)),
        {"property": prop, "kind": kind, "program_id": i, "program_text": text, "input_hex": R.hexs(text),
         "mode": cfg[0], "monitor": cfg[1], "gomaxprocs": cfg[2], "observed": observed, "expected_by_model": expected,
         "replay_cmd": "bin/check %s --replay <this file>" % prop})


def replay(b, path, prop, bad_of):
    r = json.load(open(path))
    if "input_hex" not in r:
        print("no concrete input in this replay file:", r.get("no_longer_checks"))
        return 1
    text = bytes.fromhex(r["input_hex"]).decode("latin1")
    res = R.run_impl_once(b.probe, text, r["mode"], r["monitor"], 1200, r.get("gomaxprocs"))
    print(json.dumps({k: res[k] for k in ("verdict", "prints", "live", "panic")}, indent=1))
    return 1 if bad_of(r, res) else 0


def premise_check(b, d, seed, tier):
    """the premises of the C01 / C02 theorems, CHECKED per program.  (1) `tc_annotations_typed`: the extracted
    checker proofs/RtStaticCheck.v (sound: static_check_sound) is run on the annotated output of the
    typechecker model for every candidate program of the suite (not only the ones that were run).
    returns (coverage dict, list of accepted in-fragment programs the judgement does NOT type)"""
    import collections as _c
    from . import suite as S
    cands = R.candidate_programs(seed, tier)
    res = S.run_tool(b.model, "static-typed", [(i, "", t) for i, t in cands], timeout=1800)
    cnt = _c.Counter((res.get(i, "MISSING").split(" ")[0]) for i, _ in cands)
    ran = {i for i, _ in d.programs}
    not_typed = [(i, t) for i, t in cands if res.get(i, "").startswith("NOT-TYPED") or res.get(i, "MISSING").startswith(("MISSING", "CRASH", "EXN"))]
    cov = {
        "premise_tc_annotations_typed_checked_on": int(cnt.get("TYPED", 0)),
        "premise_outside_fragment": int(cnt.get("OUTSIDE-FRAGMENT", 0)),
        "premise_failed_on": len(not_typed),
        "premise_rule": "every candidate program of the suite is parsed and typechecked by the model; if it is accepted and in the fragment of the theorems "
                        "the extracted checker static_typed_b decides whether the annotated program satisfies the run-time "
                        "typing judgement; TYPED means the premise of safety_partial / progress_run_partial is a theorem for that program (static_check_sound)",
        "premise_checked_among_programs_run": sum(1 for i, _ in cands if i in ran and res.get(i, "").startswith("TYPED")),
    }
    # the theorems that no longer assume tc_annotations_typed (proofs/RtTheoremsTc.v) have two COMPUTABLE premises
    # on the AST instead: prog_syn_ok and raw_ok (types and names as the parser + expansion leave them).  Both are
    # THEOREMS for parsed programs (proofs/ParseSynOk.v, proofs/ParseRaw.v); evaluating them with the extracted model
    # on every candidate program cross-checks those two proofs against the extraction, and the verdict must agree with
    # the independent verified checker static_typed_b.
    sres = S.run_tool(b.model, "syn-premises", [(i, "", t) for i, t in cands], timeout=1800)
    scnt = _c.Counter((sres.get(i, "MISSING").split(" ")[0]) for i, _ in cands)
    syn_bad = [(i, t + "\n// syn-premises: " + sres.get(i, "MISSING")) for i, t in cands
               if res.get(i, "").startswith(("TYPED", "NOT-TYPED")) and not sres.get(i, "MISSING").startswith("SYN-OK")]
    cov.update({
        "premise_syn_ok_on": int(scnt.get("SYN-OK", 0)),
        "premise_syn_failed_on": len(syn_bad),
        "premise_syn_rule": "prog_syn_ok p && raw_ok p evaluated by the extracted model (syn_premises_text) on every candidate program; both are theorems for parsed programs "
                            "(parse_syn_ok, parse_raw_ok), so SYN-OK is expected on EVERY accepted closed program and means static_typed holds of the checker's output by THEOREM "
                            "(tc_annotations_typed_parsed), independently of the checker static_typed_b; the two verdicts are required to agree (TYPED <-> SYN-OK)",
    })
    not_typed = not_typed + syn_bad
    # the premise topo_reachable: TESTED (not proved) along model runs of every program of the fragment
    typed = [(i, "", t) for i, t in cands if res.get(i, "").startswith("TYPED")]
    seeds = (0, 1) if tier == "quick" else (0, 1, 2, 3)
    confs, runs, bad = 0, 0, []
    for md in ("async", "sync", "np"):
        for sd in seeds:
            tr = S.run_tool(b.model, "topo-%s-%d" % (md, sd), typed, timeout=1800)
            for i, _, t in typed:
                r = tr.get(i, "MISSING")
                if r.startswith("TOPO-OK"):
                    runs += 1
                    confs += int(r.split(" ")[1])
                elif not r.startswith("SKIP"):
                    bad.append((i, t, "%s seed %d: %s" % (md, sd, r)))
    cov.update({
        "premise_topo_tested_model_runs": runs,
        "premise_topo_tested_configurations": confs,
        "premise_topo_failed": len(bad),
        "premise_topo_rule": "the executable test topo_code of proofs/TopoCheck.v (unique provider object, unique client object, no dangling client, closed channels unused, "
                             "rank certificate for acyclicity) evaluated on EVERY configuration of model runs (async, sync and non-polarized, schedules %s) of every program on which the typing premise was checked; "
                             "a test, not a proof: topo_reachable remains a premise of the theorems" % (list(seeds),),
    })
    not_typed = not_typed + [(i, t + "\n// " + why) for i, t, why in bad]
    return cov, not_typed


COMMON_ASSUMPTIONS = [
    "the Go scheduler, memory model and timers are outside the model; the model's quiescence is exact, the runtime's is detected by a timer (deviations are re-run with a longer timeout before they count)",
    "monitor on/off and GOMAXPROCS only vary on the implementation side",
    "programs are fed as the same text to the real pipeline and to the model pipeline (Scan/LR/Expand/Tc/Runtime)",
]
COMMON_TRUSTED = [
    "correspondence: `probe run1` (one fresh OS process per run, public API as the repository's tests use it, goroutine dump at quiescence) vs extracted model `run-<mode>-<seed>` / `trace-<mode>-0` (extraction: ExtrOcamlBasic, ExtrOcamlString; std++ gmap extracted as is)",
]


def accepted_set_check(b, prop, seed, tier, is_bad):
    """the theorems speak about what the MODEL's checker accepts; the runs only cover what the model accepts.  So the
    accepted sets must agree: every candidate program of the run suite (accepted or not) and the type-equality stress
    programs are given to the real checker and to the model; a program the implementation accepts and the model
    rejects is RUN by the real interpreter in the polarized modes - a run-time error there is a concrete violation of
    safety, and without one the divergence is still reported (the safety theorem no longer covers what the code accepts)."""
    from . import suite as S
    from . import eqstress
    progs = [(i, t) for i, t in R.candidate_programs(seed, tier)]
    have = {t for _, t in progs}
    for e in eqstress.programs():
        i, t = e[0], e[-1]
        if t not in have and R.is_closed(t):
            progs.append(("eq:" + str(i), t))
    # ILL-TYPED neighbours of well-typed programs: single-edit mutants of generated closed programs (a case branch
    # removed, a label changed, a use deleted / duplicated, payload and continuation swapped, ...).  The model rejects most
    # of them; one that the real checker accepts is run, and a run-time error is then a concrete violation.
    nmut = 0
    try:
        import random as _random
        from . import proggen
        from . import proggen_mut
        rng = _random.Random(seed * 7 + 5)
        nprog, per = (40, 8) if tier == "quick" else (300, 16)
        for k in range(nprog):
            try:
                pr = proggen.gen_program(rng, size=tier, closed=True, want_terminating=True)
            except Exception:  # noqa: BLE001
                continue
            ms = proggen_mut.mutants(rng, pr, per)
            for kind in ("remove-branch", "remove-branch", "change-label", "delete-use"):
                decls = proggen_mut.clone(pr.decls)
                try:
                    r = proggen_mut._mutate(rng, decls, kind)
                except (IndexError, KeyError):
                    r = None
                if r is not None:
                    ms.append((kind + "/" + str(r[0]), proggen_mut._text_with_overrides(decls, pr.layout_seed), r[1]))
            for j, (kind, text, exp) in enumerate(ms):
                if text not in have and text != pr.text and R.is_closed(text):
                    have.add(text)
                    progs.append(("mut:%d:%d:%s" % (k, j, kind.split("/")[0]), text))
                    nmut += 1
    except ImportError:
        pass
    cases = [(i, "", t) for i, t in progs]
    first = lambda x: x.split("\t")[0].split(" ")[0]
    impl, model, mism = S.correspond(b, "tc", cases, project=first, timeout=1800)
    vio = []
    wider = [(i, t) for i, _, t, a, m in mism if first(a) == "ACCEPT" and first(m) != "ACCEPT"]
    for i, t in wider[:6]:
        hit = None
        for cfg in (("async", 0, None, 0), ("sync", 0, None, 0), ("np", 0, None, 0)):
            r = R.rerun(b, t, cfg, 600)
            if is_bad(r):
                hit = (cfg, r)
                break
        if hit:
            cfg, r = hit
            vio.append(violation(prop, "runtime-error", "the real checker accepts a program the model rejects, and the interpreter then %s" % (r["panic"] or r["verdict"]),
                                 i, t, cfg, {"panic": r["panic"], "verdict": r["verdict"], "prints": r["prints"]}, {"model_verdict": first(model.get(i, ""))}))
    if wider and not vio:
        i, t = wider[0]
        vio.append(C.Violation("the real checker accepts %d program(s) the model rejects (e.g. %s); no run-time error was observed on them" % (len(wider), i),
                               {"property": prop, "kind": "unproven", "no_longer_checks": [{"what": "correspondence (accepted sets)", "detail": t[:1500]}]}, found_input=False))
    narrower = [i for i, _, t, a, m in mism if first(m) == "ACCEPT" and first(a) != "ACCEPT"]
    cov = {"accepted_set_programs": len(progs), "accepted_set_mutants": nmut, "accepted_by_both": sum(1 for i, _ in progs if first(impl.get(i, "")) == "ACCEPT" and first(model.get(i, "")) == "ACCEPT"),
           "accepted_by_implementation_only": len(wider), "accepted_by_model_only": len(narrower)}
    return cov, vio
