"""Input texts for the front-end suites: seeds harvested from /repo (examples, snippets in the
test files) plus /verif/corpus, and seeded mutation streams (token-boundary edits, illegal
characters, truncations, comment / NUL / UTF-8 edge cases, random bytes)."""
import glob
import os
import random
import re

from . import common as C

ILLEGAL_CHARS = list("@#$~!?\"^`") + ["\x00", "\x7f", "\xc3\xa9", "\xff", "\\", "/"]
TOKENS = ["send", "recv", "receive", "case", "close", "wait", "cast", "shift", "drop", "split", "new", "fwd", "forward",
          "type", "let", "prc", "self", "print", "assuming", "exec", "in", "end", "sprc", "acc", "push", "snew",
          "<-", "=>", "=", "<", ">", "(", ")", "[", "]", "{", "}", ".", ";", ":", ",", "|", "+", "-", "*", "&", "%",
          "1", "-*", "-o", "/\\", "\\/", "x", "y", "zz", "A", "lin", "aff", "rep", "mul", "l1", "1a", "a'", "_b",
          "/* c */", "// c\n", " ", "\n", "\t"]


def harvest_seeds():
    seeds = []
    for p in sorted(glob.glob(os.path.join(C.REPO, "examples", "**", "*.grits"), recursive=True)):
        try:
            seeds.append(("ex:" + os.path.basename(p), open(p, "rb").read().decode("latin1")))
        except OSError:
            pass
    for p in sorted(glob.glob(os.path.join(C.REPO, "*", "*_test.go"))):
        src = open(p, encoding="utf8", errors="replace").read()
        n = 0
        for m in re.finditer(r"`([^`]{8,})`", src):
            s = m.group(1)
            if re.search(r"\b(prc|let|type|send|recv|close|wait)\b", s):
                seeds.append(("t:%s:%d" % (os.path.basename(p), n), s))
                n += 1
        for m in re.finditer(r'"((?:[^"\\\n]|\\.){8,})"', src):
            s = m.group(1)
            if re.search(r"\b(prc|let|type|send|recv|close|wait)\b", s) and "%" not in s:
                try:
                    s2 = bytes(s, "utf8").decode("unicode_escape")
                except Exception:
                    continue
                seeds.append(("q:%s:%d" % (os.path.basename(p), n), s2))
                n += 1
    for p in sorted(glob.glob(os.path.join(C.CORPUS, "text", "*"))):
        seeds.append(("corpus:" + os.path.basename(p), open(p, "rb").read().decode("latin1")))
    # dedupe by content
    seen, out = set(), []
    for i, s in seeds:
        if s not in seen:
            seen.add(s)
            out.append((i, s))
    return out


TOKEN_RE = re.compile(r"\s+|/\*.*?\*/|//[^\n]*|[A-Za-z0-9_']+|<-|=>|-\*|-o|/\\|\\/|.", re.S)


def boundaries(s):
    """offsets of token boundaries of s (approximate tokenizer: only used to pick edit points)"""
    bs, pos = [0], 0
    for m in TOKEN_RE.finditer(s):
        pos = m.end()
        bs.append(pos)
    return sorted(set(bs))


def mutate(rng, s):
    """one random edit; returns (kind, text)"""
    bs = boundaries(s)
    k = rng.choice(["ins_illegal", "ins_token", "del_token", "dup_token", "swap_token", "truncate", "ins_comment",
                    "unterminated_comment", "ins_nul", "replace_byte", "ins_ws", "star_slash", "ins_illegal", "ins_token"])
    if k == "ins_illegal":
        p = rng.choice(bs)
        return k, s[:p] + rng.choice(ILLEGAL_CHARS) + s[p:]
    if k == "ins_token":
        p = rng.choice(bs)
        return k, s[:p] + " " + rng.choice(TOKENS) + " " + s[p:]
    if k in ("del_token", "dup_token", "swap_token") and len(bs) > 3:
        i = rng.randrange(len(bs) - 1)
        a, b = bs[i], bs[i + 1]
        if k == "del_token":
            return k, s[:a] + s[b:]
        if k == "dup_token":
            return k, s[:b] + s[a:b] + s[b:]
        j = rng.randrange(len(bs) - 1)
        c, d = bs[j], bs[j + 1]
        if b <= c:
            return k, s[:a] + s[c:d] + s[b:c] + s[a:b] + s[d:]
        return "del_token", s[:a] + s[b:]
    if k == "truncate":
        return k, s[:rng.randrange(len(s) + 1)]
    if k == "ins_comment":
        p = rng.choice(bs)
        body = rng.choice(["", "*", "**", "x * y / z", "/", "/*", " prc[q] : 1 = close self ", "a*/b", "*/", "\n", "\xc3\xa9"])
        return k, s[:p] + "/*" + body + "*/" + s[p:]
    if k == "unterminated_comment":
        p = rng.choice(bs)
        return k, s[:p] + rng.choice(["/*", "/* x", "/* *", "/*/", "//", "/"]) + (s[p:] if rng.random() < 0.3 else "")
    if k == "ins_nul":
        p = rng.choice(bs)
        return k, s[:p] + "\x00" + s[p:]
    if k == "replace_byte" and s:
        p = rng.randrange(len(s))
        return k, s[:p] + chr(rng.randrange(256)) + s[p + 1:]
    if k == "ins_ws":
        p = rng.choice(bs)
        return k, s[:p] + rng.choice([" ", "\n", "\t", "\r\n", "\v", "\x0c", "\xa0"]) + s[p:]
    if k == "star_slash":
        p = rng.choice(bs)
        return k, s[:p] + rng.choice(["*/", "* /", "/ *", "/**/", "/***/", "/*/ */"]) + s[p:]
    return "id", s


def random_bytes(rng, n):
    alphabet = [chr(rng.randrange(256)) for _ in range(4)] + list(" \n;:()[]<>=-*+&{}.,|/\\1abcxyz_'") + ["prc", "let", "type", "self", "close", "/*", "*/", "//"]
    return "".join(rng.choice(alphabet) for _ in range(n))


def random_token_soup(rng, n):
    return " ".join(rng.choice(TOKENS) for _ in range(n))


def stream(seed, n_mut, n_rand, max_len=4000):
    """yields (id, kind, text); text is a str of latin1 code points = bytes"""
    rng = random.Random(seed)
    seeds = [(i, s) for i, s in harvest_seeds() if len(s) <= max_len]
    for i, s in seeds:
        yield i, "seed", s
    if seeds:
        for j in range(n_mut):
            i, s = rng.choice(seeds)
            kind, t = mutate(rng, s)
            if rng.random() < 0.25:
                k2, t = mutate(rng, t)
                kind += "+" + k2
            yield "m%d" % j, kind, t[:max_len]
    for j in range(n_rand):
        if j % 2:
            yield "r%d" % j, "random_bytes", random_bytes(rng, rng.randrange(0, 60))
        else:
            yield "s%d" % j, "token_soup", random_token_soup(rng, rng.randrange(1, 25))


def write_cases(path, cases):
    with open(path, "w") as f:
        for i, _, t in cases:
            f.write("%s\t%s\n" % (i, t.encode("latin1", "replace").hex()))
