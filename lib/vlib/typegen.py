"""Type-definition environments AS PROGRAM TEXT for the `wf` / `wfann` suites (C10, C16).

* `gen_env`    : an environment that is well-formed BY CONSTRUCTION (recursive, mutually recursive,
                 aliases and alias chains, legal shifts between all four modes, head annotations in
                 every placement the grammar offers: none / head / head on a shift (redundant);
                 definitions printed in a random order, so names are used before their definition)
* `mutants`    : single-edit mutants of it, one per defect class of the property text
* `oracle`     : an INDEPENDENT well-formedness checker and mode assigner on the source AST,
                 written from the property text (not from the Go code, not from the Coq model):
                 expected verdict, expected modes of every node, expected unfolding
* `render`     : AST -> text (random but meaning-preserving parenthesisation, all spellings of the
                 mode words)
Everything derives from one `random.Random(seed)`.

AST: ("name", x) | ("unit",) | ("tensor", a, b) | ("lolli", a, b) | ("plus", [(l, t)..]) |
     ("with", [(l, t)..]) | ("up", f, t, a) | ("down", f, t, a)      (f, t: mode WORDS)
Definition: (name, head-word-or-None, body).   The grammar admits an annotation only at the head of
a type (`session_type : modality session_type_init`) and in the two positions of a shift, so "inner
redundant annotation" exists only as the head annotation of a shift-headed type.
"""
import random

MODES = ["rep", "mul", "aff", "lin"]
SPELL = {"rep": ["rep", "replicable", "r", "Rep", "REPLICABLE"], "mul": ["mul", "multicast", "m", "MUL"],
         "aff": ["aff", "affine", "a", "Affine"], "lin": ["lin", "linear", "l", "LIN", "Linear"]}
WORD2MODE = {w.lower(): m for m, ws in SPELL.items() for w in ws}
BAD_WORDS = ["foo", "linn", "replica", "x", "unset", "li", "affin", "multi", "T0"]
LABELS = ["la", "lb", "lc", "ld", "zero", "succ", "nil", "cons"]


def word_mode(w):
    """StringToMode: None for an unknown word"""
    return WORD2MODE.get(w.lower())


def geq(a, b):
    """the mode preorder: rep on top, lin at the bottom, mul and aff incomparable"""
    return a == b or a == "rep" or b == "lin"


def shift_ok(kind, f, t):
    # f /\ t A lifts A from f up to t (needs t >= f); f \/ t A brings it down (needs f >= t)
    return geq(t, f) if kind == "up" else geq(f, t)


# ----------------------------------------------------------------------------------------
# rendering
# ----------------------------------------------------------------------------------------

def atomic(t):
    return t[0] in ("name", "unit", "plus", "with")


def render_type(t, rng=None, top=True):
    k = t[0]
    if k == "name":
        return t[1]
    if k == "unit":
        return "1"
    if k in ("tensor", "lolli"):
        op = " * " if k == "tensor" else (" -* " if rng is None or rng.random() < 0.8 else " -o ")
        a, b = t[1], t[2]
        sa = render_type(a, rng, False)
        if not atomic(a):
            sa = "(" + sa + ")"
        sb = render_type(b, rng, False)
        # all binary operators and shifts are right associative at one precedence level
        if not atomic(b) and not (rng is not None and rng.random() < 0.35):
            sb = "(" + sb + ")"
        return sa + op + sb
    if k in ("plus", "with"):
        body = ", ".join("%s : %s" % (l, render_type(a, rng, False)) for l, a in t[1])
        return ("+{" if k == "plus" else "&{") + body + "}"
    if k in ("up", "down"):
        arrow = " /\\ " if k == "up" else " \\/ "
        sa = render_type(t[3], rng, False)
        if not atomic(t[3]) and not (rng is not None and rng.random() < 0.35):
            sa = "(" + sa + ")"
        return t[1] + arrow + t[2] + " " + sa
    raise ValueError(t)


def render_annot(head, body, rng=None):
    s = render_type(body, rng)
    if head is None:
        if rng is not None and rng.random() < 0.1:
            s = "(" + s + ")"
        return s
    if not atomic(body) or (rng is not None and rng.random() < 0.2):
        s = "(" + s + ")"
    return head + " " + s


def render(env, rng=None, anns=None):
    """env: list of definitions; anns: optional annotation types [(where, head, body)..] rendered as
    function signatures / assumed names / process types with trivial bodies"""
    lines = ["type %s = %s" % (n, render_annot(h, b, rng)) for n, h, b in env]
    if anns:
        k = 0
        lets, assumes, prcs = [], [], []
        for where, h, b in anns:
            k += 1
            s = render_annot(h, b, rng)
            if where == "funret":
                lets.append("let f%d() : %s = close self" % (k, s))
            elif where == "funparam":
                lets.append("let f%d(y%d : %s) : 1 = close self" % (k, k, s))
            elif where == "assume":
                assumes.append("assuming a%d : %s" % (k, s))
            else:
                prcs.append("prc[p%d] : %s = close self" % (k, s))
        lines += lets + assumes + prcs
    return "\n".join(lines) + "\n"


def ann_order(anns):
    """the annotation types of render(env, anns=anns) in the order the probe visits them: functions (provider
    type, then parameters), assumed names, processes"""
    lets, assumes, prcs = [], [], []
    for where, h, b in anns:
        if where == "funret":
            lets.append((where, h, b))
        elif where == "funparam":
            lets.append(("funret", None, ("unit",)))
            lets.append((where, h, b))
        elif where == "assume":
            assumes.append((where, h, b))
        else:
            prcs.append((where, h, b))
    return lets + assumes + prcs


# ----------------------------------------------------------------------------------------
# the independent oracle (the property text, executable)
# ----------------------------------------------------------------------------------------

def subterms(t):
    yield t
    k = t[0]
    if k in ("tensor", "lolli"):
        yield from subterms(t[1])
        yield from subterms(t[2])
    elif k in ("plus", "with"):
        for _, a in t[1]:
            yield from subterms(a)
    elif k in ("up", "down"):
        yield from subterms(t[3])


def region(t):
    """nodes of the mode region that starts at t: everything down to (and including) the next shifts,
    not their continuations"""
    yield t
    k = t[0]
    if k in ("tensor", "lolli"):
        yield from region(t[1])
        yield from region(t[2])
    elif k in ("plus", "with"):
        for _, a in t[1]:
            yield from region(a)


def dump_mode(m):
    return m if m in MODES else "invalid:" + str(m)


def dump(t, m, defmode):
    """dump of a type whose region mode is m; a reference is printed with the mode of ITS region (which
    the checks force to be the definition's)"""
    k = t[0]
    if k == "name":
        return "(N %s %s)" % (t[1], m)
    if k == "unit":
        return "(1 %s)" % m
    if k in ("tensor", "lolli"):
        return "(%s %s %s %s)" % ("*" if k == "tensor" else "-o", m, dump(t[1], m, defmode), dump(t[2], m, defmode))
    if k in ("plus", "with"):
        return "(%s %s%s)" % ("+" if k == "plus" else "&", m, "".join(" (%s %s)" % (l, dump(a, m, defmode)) for l, a in t[1]))
    f, to = word_mode(t[1]), word_mode(t[2])
    return "(%s %s %s %s)" % ("up" if k == "up" else "dn", f, to, dump(t[3], f, defmode))


def check_region(t, m, defmode, reasons):
    """mode uniformity of the region of mode m starting at t, recursively through shifts"""
    for n in region(t):
        k = n[0]
        if k == "name":
            if n[1] in defmode and defmode[n[1]] != m:
                reasons.add("ref-mode")
        elif k in ("up", "down"):
            f, to = word_mode(n[1]), word_mode(n[2])
            if f is None or to is None:
                continue  # reported as unknown-mode
            if to != m:
                reasons.add("mode-mismatch")
            if not shift_ok(k, f, to):
                reasons.add("illegal-shift")
            check_region(n[3], f, defmode, reasons)


def oracle(env, anns=(), strict_head=True):
    """returns dict: ok, reasons (set), modes {name: mode}, dump [type-lines], unfold [name=dump],
    ann [(ok, dump)] for the annotation types (meaningful when ok)"""
    reasons = set()
    names = [n for n, _, _ in env]
    if len(set(names)) != len(names):
        reasons.add("dup-def")
    defs = {n: (h, b) for n, h, b in env}      # a later duplicate wins, as in a Go map (irrelevant: rejected)
    for n, h, b in env:
        for s in subterms(b):
            if s[0] == "name" and s[1] not in defs:
                reasons.add("undefined")
            if s[0] in ("plus", "with"):
                ls = [l for l, _ in s[1]]
                if len(set(ls)) != len(ls):
                    reasons.add("dup-label")
            if s[0] in ("up", "down") and (word_mode(s[1]) is None or word_mode(s[2]) is None):
                reasons.add("unknown-mode")
        if h is not None and word_mode(h) is None and (strict_head or b[0] not in ("up", "down")):
            reasons.add("unknown-mode")
    # contractivity: no cycle through definitions whose body is a bare name
    for n in defs:
        seen, cur = set(), n
        while cur in defs and defs[cur][1][0] == "name":
            if cur in seen:
                reasons.add("not-contractive")
                break
            seen.add(cur)
            cur = defs[cur][1][1]
    # the mode of a definition: the annotation if there is one; else whatever a component of its first
    # region fixes (the target of a shift, or a named type that itself has a fixed mode); else rep
    fix = {}
    for n, (h, b) in defs.items():
        if b[0] in ("up", "down"):
            to = word_mode(b[2])
            fix[n] = {to} if to else set()
            if h is not None and word_mode(h) != to:
                reasons.add("head-vs-shift" if strict_head else "head-vs-shift-ignored")
        elif h is not None:
            fix[n] = {word_mode(h)} if word_mode(h) else set()
        else:
            fix[n] = {word_mode(s[2]) for s in region(b) if s[0] in ("up", "down") and word_mode(s[2])}
    changed = True
    while changed:
        changed = False
        for n, (h, b) in defs.items():
            if h is None and b[0] not in ("up", "down"):
                for s in region(b):
                    if s[0] == "name" and s[1] in fix and not fix[s[1]] <= fix[n]:
                        fix[n] |= fix[s[1]]
                        changed = True
    defmode = {}
    for n in defs:
        if len(fix[n]) > 1:
            reasons.add("mode-conflict")
        defmode[n] = sorted(fix[n])[0] if fix[n] else "rep"
    for n, (h, b) in defs.items():
        check_region(b, defmode[n], defmode, reasons)
    reasons.discard("head-vs-shift-ignored")
    ok = not reasons
    res = {"ok": ok, "reasons": reasons, "modes": defmode, "dump": [], "unfold": [], "ann": []}
    if ok:
        for n, h, b in env:
            res["dump"].append("type %s %s %s" % (n, defmode[n], dump(b, defmode[n], defmode)))
        for n, h, b in env:
            cur = n
            while defs[cur][1][0] == "name":
                cur = defs[cur][1][1]
            res["unfold"].append("%s=%s" % (n, dump(defs[cur][1], defmode[cur], defmode)))
        for where, h, b in anns:
            r = set()
            for s in subterms(b):
                if s[0] == "name" and s[1] not in defs:
                    r.add("undefined")
                if s[0] in ("plus", "with") and len({l for l, _ in s[1]}) != len(s[1]):
                    r.add("dup-label")
                if s[0] in ("up", "down") and (word_mode(s[1]) is None or word_mode(s[2]) is None):
                    r.add("unknown-mode")
            if h is not None and word_mode(h) is None and (strict_head or b[0] not in ("up", "down")):
                r.add("unknown-mode")
            if b[0] in ("up", "down"):
                fx = {word_mode(b[2])} - {None}
                if h is not None and word_mode(h) != word_mode(b[2]) and strict_head:
                    r.add("head-vs-shift")
            elif h is not None:
                fx = {word_mode(h)} - {None}
            else:
                fx = set()
                for s in region(b):
                    if s[0] in ("up", "down") and word_mode(s[2]):
                        fx.add(word_mode(s[2]))
                    if s[0] == "name" and s[1] in defs:
                        # a named type carries its definition's mode (rep when nothing fixed it)
                        if fix[s[1]]:
                            fx |= fix[s[1]]
            if len(fx) > 1:
                r.add("mode-conflict")
            m = sorted(fx)[0] if fx else "rep"
            check_region(b, m, defmode, r)
            res["ann"].append((not r, dump(b, m, defmode) if not r else "", r))
    return res


# ----------------------------------------------------------------------------------------
# generation: well-formed by construction
# ----------------------------------------------------------------------------------------

class Gen:
    def __init__(self, rng, thorough=False):
        self.rng = rng
        self.maxdefs = 12 if thorough else 6
        self.maxdepth = 7 if thorough else 4

    def word(self, m):
        r = self.rng
        return m if r.random() < 0.7 else r.choice(SPELL[m])

    def labels(self, k):
        return self.rng.sample(LABELS, k)

    def ty(self, m, depth, by_mode, allow_name=True):
        """a type whose first region has mode m; references only to definitions of the region's mode"""
        r = self.rng
        cands = by_mode.get(m, [])
        if depth <= 0:
            if cands and allow_name and r.random() < 0.6:
                return ("name", r.choice(cands))
            return ("unit",)
        c = r.random()
        if c < 0.18:
            return ("unit",)
        if c < 0.38 and cands and allow_name:
            return ("name", r.choice(cands))
        if c < 0.52:
            return ("tensor", self.ty(m, depth - 1, by_mode), self.ty(m, depth - 1, by_mode))
        if c < 0.64:
            return ("lolli", self.ty(m, depth - 1, by_mode), self.ty(m, depth - 1, by_mode))
        if c < 0.80:
            k = r.randint(1, 3)
            return (r.choice(["plus", "with"]), [(l, self.ty(m, depth - 1, by_mode)) for l in self.labels(k)])
        return self.shift(m, depth, by_mode)

    def shift(self, m, depth, by_mode):
        r = self.rng
        kind = r.choice(["up", "down"])
        srcs = [f for f in MODES if shift_ok(kind, f, m)]
        f = r.choice(srcs)
        return (kind, self.word(f), self.word(m), self.ty(f, depth - 1, by_mode))

    def env(self):
        r = self.rng
        n = r.randint(1, self.maxdefs)
        names = ["T%d" % i for i in range(n)]
        if r.random() < 0.3:
            r.shuffle(names)
        # few distinct modes per environment, so that references are frequent
        pool = r.sample(MODES, r.randint(1, min(3, len(MODES))))
        mode = {x: r.choice(pool) for x in names}
        by_mode = {}
        for x in names:
            by_mode.setdefault(mode[x], []).append(x)
        # aliases: a definition whose body is a bare name of a definition of lower rank (no cycle)
        rank = {x: i for i, x in enumerate(r.sample(names, n))}
        env = []
        for x in names:
            m = mode[x]
            lower = [y for y in by_mode[m] if rank[y] < rank[x]]
            c = r.random()
            if lower and c < 0.25:
                body = ("name", r.choice(lower))
            elif c < 0.4:
                body = self.shift(m, r.randint(1, self.maxdepth), by_mode)
            else:
                body = self.ty(m, r.randint(1, self.maxdepth), by_mode, allow_name=False)
                if body[0] == "name":
                    body = ("tensor", body, ("unit",))
            head = self.word(m) if r.random() < 0.5 else None
            env.append((x, head, body))
        r.shuffle(env)
        # the construction fixes the intended modes; where nothing in the text fixes a non-default mode
        # the definition needs its annotation: let the oracle say where
        for _ in range(3):
            o = oracle(env)
            if o["ok"] and all(o["modes"][x] == mode[x] for x in names):
                break
            env = [(x, (h if h is not None else (self.word(mode[x]) if (not o["ok"] or o["modes"][x] != mode[x]) else None)), b)
                   for x, h, b in env]
        return env, mode

    def ann(self, env, mode):
        """annotation types over a (well-formed) environment"""
        r = self.rng
        by_mode = {}
        for x, m in mode.items():
            by_mode.setdefault(m, []).append(x)
        out = []
        for _ in range(r.randint(1, 4)):
            m = r.choice(MODES)
            b = self.ty(m, r.randint(0, self.maxdepth - 1), by_mode)
            h = self.word(m) if r.random() < 0.5 else None
            out.append((r.choice(["funret", "funparam", "assume", "prc"]), h, b))
        return out


# ----------------------------------------------------------------------------------------
# single-edit mutants
# ----------------------------------------------------------------------------------------

def paths(t, p=()):
    yield p, t
    k = t[0]
    if k in ("tensor", "lolli"):
        yield from paths(t[1], p + (1,))
        yield from paths(t[2], p + (2,))
    elif k in ("plus", "with"):
        for i, (_, a) in enumerate(t[1]):
            yield from paths(a, p + (("b", i),))
    elif k in ("up", "down"):
        yield from paths(t[3], p + (3,))


def replace(t, p, new):
    if not p:
        return new
    s = p[0]
    if isinstance(s, tuple):
        bs = list(t[1])
        bs[s[1]] = (bs[s[1]][0], replace(bs[s[1]][1], p[1:], new))
        return (t[0], bs)
    l = list(t)
    l[s] = replace(t[s], p[1:], new)
    return tuple(l)


MUTATIONS = ["defmode-cycle", "undefined-name", "drop-def", "dup-def", "dup-label", "cycle-two", "cycle-self", "alias-cycle",
             "illegal-shift", "ref-mode", "inner-mode", "unknown-head", "unknown-shift-mode", "head-contradicts",
             "head-vs-shift", "swap-head", "strip-head"]


def mutate(rng, env, kind):
    """returns a mutated copy of env or None when the mutation does not apply"""
    env = list(env)
    i = rng.randrange(len(env))
    n, h, b = env[i]
    nodes = list(paths(b))
    if kind == "defmode-cycle":
        # F23's shape: two structural definitions of different modes tied into one cycle by two aliases
        a, c = rng.sample(MODES, 2)
        fa, fc = rng.choice([f for f in MODES if shift_ok("up", f, a)]), rng.choice([f for f in MODES if shift_ok("up", f, c)])
        ch = rng.choice(["plus", "with"])
        gadget = [("W1", None, (ch, [("la", ("name", "U1")), ("lb", ("up", fa, a, ("unit",)))])),
                  ("U1", None, ("name", "V1")),
                  ("V1", None, (ch, [("la", ("name", "X1")), ("lb", ("up", fc, c, ("unit",)))])),
                  ("X1", None, ("name", "W1"))]
        if rng.random() < 0.5:
            rng.shuffle(gadget)
        for g in gadget:
            env.insert(rng.randrange(len(env) + 1), g)
        return env
    if kind == "undefined-name":
        p, _ = rng.choice(nodes)
        env[i] = (n, h, replace(b, p, ("name", rng.choice(["Undef", "T99", "t0"]))))
        return env
    if kind == "drop-def":
        if len(env) < 2:
            return None
        del env[i]
        return env
    if kind == "dup-def":
        j = rng.randrange(len(env) + 1)
        env.insert(j, (n, h, b) if rng.random() < 0.5 else (n, None, ("unit",)))
        return env
    if kind == "dup-label":
        cs = [(p, t) for p, t in nodes if t[0] in ("plus", "with") and len(t[1]) >= 2]
        if not cs:
            p, t = rng.choice(nodes)
            env[i] = (n, h, replace(b, p, ("plus", [("la", t), ("la", ("unit",))])))
            return env
        p, t = rng.choice(cs)
        bs = list(t[1])
        a, c = rng.sample(range(len(bs)), 2)
        bs[a] = (bs[c][0], bs[a][1])
        env[i] = (n, h, replace(b, p, (t[0], bs)))
        return env
    if kind == "cycle-two":
        j = rng.randrange(len(env) + 1)
        env.insert(j, ("X1", None, ("name", "X2")))
        env.insert(rng.randrange(len(env) + 1), ("X2", rng.choice([None, "lin"]), ("name", "X1")))
        return env
    if kind == "cycle-self":
        env.insert(rng.randrange(len(env) + 1), ("X1", rng.choice([None, "aff"]), ("name", "X1")))
        return env
    if kind == "alias-cycle":
        # redirect the end of an alias chain back to its start
        al = [k for k, (_, _, bb) in enumerate(env) if bb[0] == "name"]
        if not al:
            return None
        k = rng.choice(al)
        start = env[k][0]
        defs = {x: bb for x, _, bb in env}
        cur, guard = start, 0
        while defs[cur][0] == "name" and defs[cur][1] in defs and guard < 50:
            cur, guard = defs[cur][1], guard + 1
        env = [(x, hh, ("name", start)) if x == cur else (x, hh, bb) for x, hh, bb in env]
        return env
    if kind == "illegal-shift":
        cs = [(p, t) for p, t in nodes if t[0] in ("up", "down")]
        if not cs:
            return None
        p, t = rng.choice(cs)
        to = word_mode(t[2])
        bad = [f for f in MODES if not shift_ok(t[0], f, to)]
        if not bad:
            # flip the direction instead
            other = "down" if t[0] == "up" else "up"
            f = word_mode(t[1])
            if shift_ok(other, f, to):
                return None
            env[i] = (n, h, replace(b, p, (other, t[1], t[2], t[3])))
            return env
        env[i] = (n, h, replace(b, p, (t[0], rng.choice(bad), t[2], t[3])))
        return env
    if kind == "ref-mode":
        # change the annotation of a definition that others refer to
        m0 = word_mode(h) if h else None
        others = [m for m in MODES if m != m0]
        env[i] = (n, rng.choice(others), b)
        return env
    if kind == "inner-mode":
        cs = [(p, t) for p, t in nodes if t[0] in ("up", "down") and p]
        if not cs:
            p, t = rng.choice(nodes)
            if not p:
                return None
            m = rng.choice(MODES)
            env[i] = (n, h, replace(b, p, ("up", m, m, t)))
            return env
        p, t = rng.choice(cs)
        to = word_mode(t[2])
        env[i] = (n, h, replace(b, p, (t[0], t[1], rng.choice([m for m in MODES if m != to]), t[3])))
        return env
    if kind == "unknown-head":
        env[i] = (n, rng.choice(BAD_WORDS), b)
        return env
    if kind == "unknown-shift-mode":
        cs = [(p, t) for p, t in nodes if t[0] in ("up", "down")]
        if not cs:
            return None
        p, t = rng.choice(cs)
        w = rng.choice(BAD_WORDS)
        env[i] = (n, h, replace(b, p, (t[0], w, t[2], t[3]) if rng.random() < 0.5 else (t[0], t[1], w, t[3])))
        return env
    if kind == "head-contradicts":
        # an annotation on a body whose first region contains a shift to another mode
        cs = [(p, t) for p, t in nodes if t[0] in ("up", "down") and p and all(s != 3 for s in p)]
        if not cs:
            return None
        to = word_mode(cs[0][1][2])
        env[i] = (n, rng.choice([m for m in MODES if m != to]), b)
        return env
    if kind == "head-vs-shift":
        # F15's shape: annotation directly on a shift whose target differs
        ks = [k for k, (_, _, bb) in enumerate(env) if bb[0] in ("up", "down")]
        if not ks:
            m = rng.choice(MODES)
            env[i] = (n, rng.choice([x for x in MODES if x != m]), ("up", m, m, b if h is None else ("unit",)))
            return env
        k = rng.choice(ks)
        x, hh, bb = env[k]
        env[k] = (x, rng.choice([m for m in MODES if m != word_mode(bb[2])] + ["foo"]), bb)
        return env
    if kind == "swap-head":
        if h is None:
            return None
        env[i] = (n, rng.choice(SPELL[word_mode(h)]) if word_mode(h) else h, b)
        return env
    if kind == "strip-head":
        if h is None:
            return None
        env[i] = (n, None, b)
        return env
    return None


def stream(seed, n_envs, thorough=False):
    """yields (id, kind, env, anns) ; kind 'wf' for the by-construction environments"""
    rng = random.Random(seed)
    g = Gen(rng, thorough)
    for e in range(n_envs):
        env, mode = g.env()
        anns = g.ann(env, mode)
        yield ("e%d" % e, "wf", env, anns)
        for kind in rng.sample(MUTATIONS, 4 if not thorough else 8):
            m = mutate(rng, env, kind)
            if m is not None:
                yield ("e%d:%s" % (e, kind), kind, m, anns)


FIXED = [
    ("fix:f23", "defmode-cycle", [("w", None, ("plus", [("l", ("name", "u")), ("r", ("up", "lin", "lin", ("unit",)))])), ("u", None, ("name", "v")),
                                  ("v", None, ("plus", [("l", ("name", "x")), ("r", ("up", "aff", "aff", ("unit",)))])), ("x", None, ("name", "w"))]),
    ("fix:f15", "head-vs-shift", [("A", "aff", ("up", "mul", "mul", ("unit",)))]),
    ("fix:f3", "dup-label", [("A", None, ("plus", [("a", ("unit",)), ("a", ("lolli", ("unit",), ("unit",)))]))]),
    ("fix:selfalias", "cycle-self", [("A", None, ("name", "A"))]),
    ("fix:cycle3", "alias-cycle", [("C", None, ("name", "D")), ("D", None, ("name", "E")), ("E", None, ("name", "C"))]),
    ("fix:nat", "wf", [("nat", "lin", ("plus", [("zero", ("unit",)), ("succ", ("name", "nat"))])),
                       ("listNat", "lin", ("plus", [("cons", ("tensor", ("name", "nat"), ("name", "listNat"))), ("nil", ("unit",))])),
                       ("mapType", None, ("up", "lin", "rep", ("lolli", ("name", "nat"), ("name", "nat"))))]),
    ("fix:chain", "wf", [("A", None, ("name", "B")), ("B", None, ("name", "C")), ("C", None, ("down", "rep", "lin", ("name", "D"))),
                         ("D", None, ("with", [("l", ("name", "D")), ("r", ("unit",))]))]),
    ("fix:usebeforedef", "wf", [("A", None, ("tensor", ("name", "B"), ("unit",))), ("B", "lin", ("unit",))]),
    ("fix:refdefault", "ref-mode", [("A", "lin", ("tensor", ("name", "B"), ("unit",))), ("B", None, ("unit",))]),
    ("fix:unknown", "unknown-head", [("A", "foo", ("unit",))]),
    ("fix:lateinfer", "wf", [("A", None, ("name", "B")), ("B", None, ("plus", [("l", ("name", "B")), ("r", ("name", "C"))])),
                             ("C", None, ("up", "lin", "aff", ("unit",)))]),
    ("fix:cutoff", "wf", [("A", None, ("name", "B")), ("B", None, ("tensor", ("name", "C"), ("name", "E"))),
                          ("C", None, ("plus", [("l", ("name", "B")), ("r", ("name", "E"))])), ("E", "lin", ("unit",))]),
    ("fix:conflict", "mode-conflict", [("B", None, ("tensor", ("name", "C"), ("name", "E"))),
                                       ("C", None, ("plus", [("l", ("name", "B")), ("r", ("name", "F"))])),
                                       ("E", "aff", ("unit",)), ("F", "lin", ("unit",))]),
]
