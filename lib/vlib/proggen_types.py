"""Type generation part of proggen: type definitions over all eight constructors, recursive data /
service shapes, aliases, mutual pairs, annotation placement checked against the inference model."""
from .proggen_ast import (MODES, WEAK, CONTR, mode_ge, modes_ge, modes_le, t1, tname, unfold, teq,
                          infer_def_modes, infer_occ_mode, KEYWORDS, ALL_MODE_WORDS)

INF = 10 ** 6

TYPE_NAMES = ['A', 'B', 'C', 'D', 'T', 'N', 'S', 'U', 'V', 'L', 'nat', 'list', 'st', 'A1', 'B2', "T'", 'tree', 'srv',
              'Q', 'R0', "A'", 'W', 'X', 'K', 'opt']
FUN_NAMES = ['f', 'g', 'h', 'k', 'mk', 'eat', 'go', 'aux', 'step', 'loop', 'cp', 'run', 'use', 'gen', "f'", 'h1', 'g2']
PRC_NAMES = ['a', 'b', 'c', 'd', 'p', 'q', 'r', 's', 'x', 'y', 'z', 'w', 'a1', 'b1', "p'", 'q2', 'm0', 'n', 'o', 'e']
LOCAL_NAMES = ['x', 'y', 'z', 'u', 'v', 'w', 'a', 'b', 'c', 'k', 'p', 'q', 'r', 's', 't', "x'", "y'", 'x1', 'x2',
               '_t', 'c1', 'c2', "u'", 'z0', 'n', 'h', 'd', 'e', 'i', 'j']
CHOICE_LABELS = ['l', 'r', 'a', 'b', 'ok', 'no', 'zero', 'succ', 'nil', 'cons', 'left', 'right', 'stop', 'next',
                 'base', 'step', 'get', 'put', 'l1', "c'", 'one', 'two', 'more', 'done']
PRINT_WORDS = ['p', 'hello', 'got', 'pre', 'post', 'at', 'L', 'tick', 'ev']


def legal_ident(s):
    return s not in KEYWORDS and s != '1' and s != 'root' and s not in ALL_MODE_WORDS


class TypeGen:
    """mixin: needs self.rng, self.cfg, self.cov"""

    def init_types(self):
        self.tenv = {}       # name -> body
        self.tinfo = {}      # name -> dict(shape, rec, group)
        self.tdecls = []     # ['type', name, tyocc]
        self.defmodes = {}

    # ---- predicates / costs
    def rec_kind(self, name):
        """'data' | 'service' for a recursive definition (by the head constructor after aliases)"""
        k = unfold(tname(None, name), self.tenv)[0]
        return 'data' if k == '+' else 'service'

    def is_rec(self, t):
        return t[0] == 'n' and self.tinfo.get(t[2], {}).get('rec', False)

    def elim_ok(self, t, mc, prog=frozenset()):
        if t[1] in WEAK:
            return True
        k = t[0]
        if k == '1':
            return True
        if k == '*':
            return self.elim_ok(t[2], mc, prog) and self.elim_ok(t[3], mc, prog)
        if k == '+':
            return all(self.elim_ok(b, mc, prog) for _, b in t[2])
        if k == 'dn':
            return self.elim_ok(t[3], mc, prog)
        if k == '-*':
            return self.elim_ok(t[3], mc, prog)
        if k == '&':
            return any(self.elim_ok(b, mc, prog) for _, b in t[2])
        if k == 'up':
            return mode_ge(t[2], mc) and self.elim_ok(t[3], mc, prog)
        nm = t[2]
        if nm in prog:
            return self.rec_kind(nm) == 'data'
        return self.elim_ok(self.tenv[nm], mc, prog | {nm})

    def pcost(self, t, prog=frozenset()):
        k = t[0]
        if k == '1':
            return 1
        if k == '*':
            return min(INF, 3 + self.pcost(t[2], prog) + self.pcost(t[3], prog))
        if k == '+':
            return min(INF, 2 + min(self.pcost(b, prog) for _, b in t[2]))
        if k == 'dn':
            return min(INF, 2 + self.pcost(t[3], prog))
        if k == '-*':
            return min(INF, 1 + self.ecost(t[2], prog) + self.pcost(t[3], prog))
        if k == '&':
            return min(INF, 1 + sum(self.pcost(b, prog) for _, b in t[2]))
        if k == 'up':
            return min(INF, 1 + self.pcost(t[3], prog))
        nm = t[2]
        if nm in prog:
            return 2 if self.rec_kind(nm) == 'service' else INF
        return self.pcost(self.tenv[nm], prog | {nm})

    def ecost(self, t, prog=frozenset()):
        if t[1] in WEAK:
            return 1
        k = t[0]
        if k == '1':
            return 1
        if k == '*':
            return min(INF, 1 + self.ecost(t[2], prog) + self.ecost(t[3], prog))
        if k == '+':
            return min(INF, 1 + sum(self.ecost(b, prog) for _, b in t[2]))
        if k == 'dn':
            return min(INF, 1 + self.ecost(t[3], prog))
        if k == '-*':
            return min(INF, 2 + self.pcost(t[2], prog) + self.ecost(t[3], prog))
        if k == '&':
            return min(INF, 2 + min(self.ecost(b, prog) for _, b in t[2]))
        if k == 'up':
            return min(INF, 2 + self.ecost(t[3], prog))
        nm = t[2]
        if nm in prog:
            return 2 if self.rec_kind(nm) == 'data' else INF
        return self.ecost(self.tenv[nm], prog | {nm})

    def plabel(self, t):
        """cheapest branch of an internal choice to provide (never a recursive one for data)"""
        best = min(t[2], key=lambda lb: self.pcost(lb[1]))
        return best

    def elabel(self, t, mc):
        """cheapest branch of an external choice to select when eliminating"""
        ok = [lb for lb in t[2] if self.elim_ok(lb[1], mc)]
        return min(ok or list(t[2]), key=lambda lb: self.ecost(lb[1]))

    def hereditarily_positive(self, t, prog=frozenset()):
        k = t[0]
        if k == '1':
            return True
        if k == '*':
            return self.hereditarily_positive(t[2], prog) and self.hereditarily_positive(t[3], prog)
        if k == '+':
            return all(self.hereditarily_positive(b, prog) for _, b in t[2])
        if k == 'dn':
            return self.hereditarily_positive(t[3], prog)
        if k == 'n':
            if t[2] in prog:
                return True
            return self.hereditarily_positive(self.tenv[t[2]], prog | {t[2]})
        return False

    # ---- random types
    def pick_mode(self):
        return self.rng.choices(MODES, weights=[30, 20, 20, 30])[0]

    def labels(self, n):
        return self.rng.sample(CHOICE_LABELS, n)

    def gen_type(self, m, depth, mc=None, names=None, positive_only=False):
        """random type of mode m that is eliminable under provider mode mc (<= m) and providable"""
        rng = self.rng
        if mc is None or not mode_ge(m, mc):
            mc = m
        if names is None:
            names = list(self.tenv)
        cands = [n for n in names if self.tenv[n][1] == m and self.elim_ok(tname(m, n), mc)
                 and (not positive_only or self.hereditarily_positive(tname(m, n)))]
        if depth <= 0:
            if cands and rng.random() < 0.5:
                return tname(m, rng.choice(cands))
            return t1(m)
        kinds = ['1', '*', '+', 'dn'] if positive_only else ['1', '*', '-*', '+', '&', 'up', 'dn']
        w = {'1': 3, '*': 2.5, '-*': 2.5, '+': 2.5, '&': 2.5, 'up': 1.3, 'dn': 1.3}
        ws = [w[k] for k in kinds]
        if cands:
            kinds = kinds + ['n']
            ws = ws + [3]
        k = rng.choices(kinds, weights=ws)[0]
        d = depth - 1
        if k == '1':
            return t1(m)
        if k == 'n':
            return tname(m, rng.choice(cands))
        if k == '*':
            return ('*', m, self.gen_type(m, d, mc, names, positive_only), self.gen_type(m, d, mc, names, positive_only))
        if k == '-*':
            return ('-*', m, self.gen_type(m, d, m, names), self.gen_type(m, d, mc, names))
        if k in ('+', '&'):
            n = rng.choice([1, 2, 2, 2, 3]) if self.cfg['max_branches'] >= 3 else rng.choice([1, 2])
            return (k, m, tuple((l, self.gen_type(m, d, mc, names, positive_only)) for l in self.labels(n)), None)
        if k == 'up':
            froms = [q for q in modes_le(m) if m in WEAK or mode_ge(q, mc)]
            q = rng.choice(froms)
            return ('up', m, q, self.gen_type(q, d, mc if mode_ge(q, mc) else q, names))
        q = rng.choice(modes_ge(m))
        return ('dn', m, q, self.gen_type(q, d, mc, names, positive_only))

    def gen_step(self, m, selfname, depth, others):
        """F[T]: a type of mode m mentioning the recursive name in a positive position"""
        rng = self.rng
        T = tname(m, selfname)
        if depth <= 0:
            return T
        k = rng.choices(['T', 'G*T', 'T*T', 'G-*T', 'dnT', 'upT'], weights=[40, 25, 5, 12, 9, 9])[0]
        if k == 'T':
            return T
        if k == 'G*T':
            g = self.gen_type(m, 1, m, others)
            if rng.random() < 0.5:
                return ('*', m, g, self.gen_step(m, selfname, depth - 1, others))
            return ('*', m, self.gen_step(m, selfname, depth - 1, others), g)
        if k == 'T*T':
            return ('*', m, T, T)
        if k == 'G-*T':
            return ('-*', m, self.gen_type(m, 1, m, others), self.gen_step(m, selfname, depth - 1, others))
        if k == 'dnT':
            return ('dn', m, m, self.gen_step(m, selfname, depth - 1, others))
        return ('up', m, m, self.gen_step(m, selfname, depth - 1, others))

    def fresh_type_name(self):
        pool = [n for n in TYPE_NAMES if n not in self.tenv and n not in self.reserved_tnames]
        if pool and self.rng.random() < 0.9:
            n = self.rng.choice(pool)
        else:
            i = len(self.tenv)
            n = 'T%d' % i
            while n in self.tenv or n in self.reserved_tnames:
                i += 1
                n = 'T%d' % i
        self.reserved_tnames.add(n)
        return n

    def gen_rec_body(self, kind, m, nm, target, others):
        """+{base : 1, step : F[target]} / &{stop : 1, next : F[target]} with random labels and order"""
        rng = self.rng
        base_l, step_l = self.labels(2)
        if rng.random() < 0.5:
            base_l, step_l = (('base', 'step') if kind == 'data' else ('stop', 'next'))
        base_t = t1(m) if rng.random() < 0.85 else self.gen_type(m, 1, m, others)
        brs = [(base_l, base_t), (step_l, self.gen_step(m, target, rng.choice([0, 1, 1, 2]), others))]
        if rng.random() < 0.2:
            extra = [l for l in CHOICE_LABELS if l not in (base_l, step_l)]
            brs.append((rng.choice(extra), self.gen_type(m, 1, m, others)))
        rng.shuffle(brs)
        return ('+' if kind == 'data' else '&', m, tuple(brs), None)

    def gen_typedefs(self):
        rng = self.rng
        self.reserved_tnames = set()
        n = rng.randint(0, self.cfg['max_types'])
        defs = []   # (name, body, shape)
        while len(defs) < n:
            m = self.pick_mode()
            shape = rng.choices(['plain', 'data', 'service', 'alias', 'mutual'], weights=[45, 20, 15, 10, 10])[0]
            others = [d[0] for d in defs]
            if shape == 'alias' and not defs:
                shape = 'plain'
            if shape == 'mutual' and len(defs) + 2 > n:
                shape = 'data'
            if shape == 'plain':
                nm = self.fresh_type_name()
                mc = rng.choice(modes_le(m)) if rng.random() < 0.25 else m
                body = self.gen_type(m, self.cfg['type_depth'], mc, others)
                if body[0] == 'n':
                    shape = 'alias'
                self._add_def(nm, body, shape, False, {nm})
                defs.append((nm, body, shape))
            elif shape in ('data', 'service'):
                nm = self.fresh_type_name()
                body = self.gen_rec_body(shape, m, nm, nm, others)
                self._add_def(nm, body, shape, True, {nm})
                defs.append((nm, body, shape))
            elif shape == 'alias':
                tgt = rng.choice(defs)[0]
                nm = self.fresh_type_name()
                body = tname(self.tenv[tgt][1], tgt)
                info = self.tinfo[tgt]
                self._add_def(nm, body, 'alias', info['rec'], info['group'])
                defs.append((nm, body, 'alias'))
            else:
                kind = rng.choice(['data', 'service'])
                n1, n2 = self.fresh_type_name(), self.fresh_type_name()
                # register both before generating bodies (bodies mention each other)
                self.tenv[n1] = t1(m)
                self.tenv[n2] = t1(m)
                b1 = self.gen_rec_body(kind, m, n1, n2, others)
                b2 = self.gen_rec_body(kind, m, n2, n1, others)
                grp = {n1, n2}
                self._add_def(n1, b1, 'mutual', True, grp)
                self._add_def(n2, b2, 'mutual', True, grp)
                defs.append((n1, b1, 'mutual'))
                defs.append((n2, b2, 'mutual'))
        # annotation placement: random, repaired until the inference model yields the intended modes
        ann = {}
        for nm, body, shape in defs:
            m = body[1]
            ann[nm] = rng.random() < (0.15 if m == 'rep' else 0.6)
        for _ in range(len(defs) + 2):
            got = infer_def_modes({nm: (self.tenv[nm], ann[nm]) for nm, _, _ in defs})
            bad = [nm for nm, _, _ in defs if got[nm] != self.tenv[nm][1]]
            if not bad:
                break
            for nm in bad:
                ann[nm] = True
        order = list(defs)
        if rng.random() < 0.5:
            rng.shuffle(order)
        for nm, body, shape in order:
            self.tdecls.append(['type', nm, ['ty', self.tenv[nm], ann[nm]]])
            self.defmodes[nm] = self.tenv[nm][1]
            self.cov['type:' + shape] += 1
            self.cov['ann:def-' + ('head' if ann[nm] else 'none')] += 1
            self._cov_type(self.tenv[nm])

    def _add_def(self, nm, body, shape, rec, group):
        self.tenv[nm] = body
        self.tinfo[nm] = {'shape': shape, 'rec': rec, 'group': set(group)}

    def _cov_type(self, t):
        k = t[0]
        self.cov['tycon:' + k] += 1
        if k in ('up', 'dn'):
            self.cov['shift:%s:%s>%s' % (k, t[2], t[1])] += 1
            self._cov_type(t[3])
        elif k in ('*', '-*'):
            self._cov_type(t[2])
            self._cov_type(t[3])
        elif k in ('+', '&'):
            for _, b in t[2]:
                self._cov_type(b)

    def occ(self, t, force_ann=None):
        """type occurrence for printing: head annotation only when needed or (randomly) redundantly;
        sometimes a one-step unfolding of a (non-recursive) name is printed instead of the name"""
        rng = self.rng
        if t[0] == 'n' and not self.tinfo[t[2]]['rec'] and rng.random() < 0.07:
            t = self.tenv[t[2]]
            self.cov['ann:unfolded-name'] += 1
        can_omit = infer_occ_mode(t, self.defmodes) == t[1]
        if force_ann is not None:
            ann = force_ann or not can_omit
        elif can_omit:
            ann = rng.random() < 0.25
        else:
            ann = True
        self.cov['ann:occ-' + ('head' if ann else 'none')] += 1
        self._cov_type(t)
        return ['ty', t, ann]
