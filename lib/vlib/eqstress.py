"""Programs that stress type equality THROUGH the typechecker (used by C07, C08, C09): recursive
types compared out of phase (different unrollings, different periods), deep definition chains with
shared alternatives, alias chains — each as a complete program whose verdict needs the comparison."""


def nest(k, inner, ctor="1 * "):
    return ctor * k + inner


def programs():
    out = []

    def add(kind, text):
        out.append(("eqs:%d" % len(out), "eqstress:" + kind, text))
    # same recursive type written with periods p and q, compared at every phase k
    for ctor, tag in (("1 * ", "tensor"), ("1 -* ", "lolli")):
        for p in range(1, 5):
            for q in range(1, 5):
                for k in range(0, 4):
                    a = "type A = " + nest(p, "A", ctor)
                    b = "type B = " + nest(q, "B", ctor)
                    add("phase-%s-%d-%d-%d" % (tag, p, q, k),
                        "%s\n%s\nlet f(x : A) : %s = fwd self x\n" % (a, b, nest(k, "B", ctor)))
    # choices: periods through labels, branch order permuted
    for p in range(1, 4):
        for q in range(1, 4):
            a = "type A = " + "+{l : " * p + "A" + "}" * p
            b = "type B = " + "+{l : " * q + "B" + "}" * q
            add("phase-choice-%d-%d" % (p, q), "%s\n%s\nlet f(x : A) : B = fwd self x\n" % (a, b))
            add("phase-choice-mixed-%d-%d" % (p, q), "%s\n%s\ntype C = +{l : B}\nlet f(x : A) : C = fwd self x\n" % (a, b))
    # deep chains with two alternatives per level, two copies of the chain (memoisation across siblings)
    for depth in (6, 12, 24, 40):
        lines = ["type T0 = lin 1", "type U0 = lin 1"]
        for i in range(1, depth + 1):
            lines.append("type T%d = lin +{a : T%d, b : T%d}" % (i, i - 1, i - 1))
            lines.append("type U%d = lin +{a : U%d, b : U%d}" % (i, i - 1, i - 1))
        lines.append("let f(x : T%d) : U%d = fwd self x" % (depth, depth))
        add("chain-%d" % depth, "\n".join(lines) + "\n")
    # near misses (must be rejected)
    add("miss-period", "type A = 1 * (1 * A)\ntype B = 1 * (1 -* B)\nlet f(x : A) : B = fwd self x\n")
    add("miss-label", "type A = +{l : A}\ntype B = +{l : +{k : B}}\nlet f(x : A) : B = fwd self x\n")
    add("alias-chain", "type A = B\ntype B = C\ntype C = 1\ntype D = 1 * 1\nlet f(x : A) : D = fwd self x\n")
    add("alias-chain-ok", "type A = B\ntype B = C\ntype C = 1 * 1\ntype D = 1 * 1\nlet f(x : A) : D = fwd self x\n")
    # omega-words: X follows u^omega, P follows v^omega, one definition per position, an exit `e : 1` at every node; with
    # v = u + u[:j] the two agree on a long prefix and get back to already-visited definitions OUT OF PHASE before they
    # differ (rejected unless v^omega = u^omega, which gives the accepted controls)
    import itertools
    for plen in (1, 2, 3):
        for u in itertools.product("ab", repeat=plen):
            u = "".join(u)
            for j in range(1, plen + 1):
                v = u + u[:j]
                lines = []
                for i, ch in enumerate(u):
                    lines.append("type X%d = +{k%s : X%d, e : 1}" % (i, ch, (i + 1) % len(u)))
                for i, ch in enumerate(v):
                    lines.append("type P%d = +{k%s : P%d, e : 1}" % (i, ch, (i + 1) % len(v)))
                same = (u * 24)[:24] == (v * 24)[:24]
                lines.append("let f(x : X0) : P0 = fwd self x")
                lines.append("let g(x : P0) : X0 = fwd self x")
                # runnable: a producer that follows v^omega for K labels and then leaves, a consumer that follows u^omega;
                # K reaches the first position where the two words differ (there the consumer has no matching branch)
                uw, vw = (u * 24)[:24], (v * 24)[:24]
                K = 5 if same else next(i for i in range(24) if uw[i] != vw[i]) + 1
                lines.append("let unit() : 1 = close self")
                lines.append("let pk%d() : P%d = t <- new unit(); self.e<t>" % (K, K % len(v)))
                for i in range(K - 1, -1, -1):
                    lines.append("let pk%d() : P%d = n <- new pk%d(); self.k%s<n>" % (i, i % len(v), i + 1, vw[i]))
                for i, ch in enumerate(u):
                    lines.append("let c%d(x : X%d) : 1 = case x (k%s<y> => print k%s; r <- new c%d(y); wait r; close self | e<t> => wait t; print fin; close self)"
                                 % (i, i, ch, ch, (i + 1) % len(u)))
                lines.append("prc[main] : 1 = p <- new pk0(); r <- new c0(p); wait r; print done; close self")
                add("omega-%s-%s-%s" % (u, v, "same" if same else "differ"), "\n".join(lines) + "\n")
    return out
