"""Programs that stress type equality THROUGH the typechecker (used by C07, C08, C09): recursive
types compared out of phase (different unrollings, different periods), deep definition chains with
shared alternatives, alias chains — each as a complete program whose verdict needs the comparison."""


def nest(k, inner, ctor="1 * "):
    return ctor * k + inner


def programs():
    out = []

    def add(kind, text):
        out.append(("eqs:%d" % len(out), "eqstress:" + kind, text))
    # same recursive type written with periods p and q, compared at every phase k
    for ctor, tag in (("1 * ", "tensor"), ("1 -* ", "lolli")):
        for p in range(1, 5):
            for q in range(1, 5):
                for k in range(0, 4):
                    a = "type A = " + nest(p, "A", ctor)
                    b = "type B = " + nest(q, "B", ctor)
                    add("phase-%s-%d-%d-%d" % (tag, p, q, k),
                        "%s\n%s\nlet f(x : A) : %s = fwd self x\n" % (a, b, nest(k, "B", ctor)))
    # choices: periods through labels, branch order permuted
    for p in range(1, 4):
        for q in range(1, 4):
            a = "type A = " + "+{l : " * p + "A" + "}" * p
            b = "type B = " + "+{l : " * q + "B" + "}" * q
            add("phase-choice-%d-%d" % (p, q), "%s\n%s\nlet f(x : A) : B = fwd self x\n" % (a, b))
            add("phase-choice-mixed-%d-%d" % (p, q), "%s\n%s\ntype C = +{l : B}\nlet f(x : A) : C = fwd self x\n" % (a, b))
    # deep chains with two alternatives per level, two copies of the chain (memoisation across siblings)
    for depth in (6, 12, 24, 40):
        lines = ["type T0 = lin 1", "type U0 = lin 1"]
        for i in range(1, depth + 1):
            lines.append("type T%d = lin +{a : T%d, b : T%d}" % (i, i - 1, i - 1))
            lines.append("type U%d = lin +{a : U%d, b : U%d}" % (i, i - 1, i - 1))
        lines.append("let f(x : T%d) : U%d = fwd self x" % (depth, depth))
        add("chain-%d" % depth, "\n".join(lines) + "\n")
    # near misses (must be rejected)
    add("miss-period", "type A = 1 * (1 * A)\ntype B = 1 * (1 -* B)\nlet f(x : A) : B = fwd self x\n")
    add("miss-label", "type A = +{l : A}\ntype B = +{l : +{k : B}}\nlet f(x : A) : B = fwd self x\n")
    add("alias-chain", "type A = B\ntype B = C\ntype C = 1\ntype D = 1 * 1\nlet f(x : A) : D = fwd self x\n")
    add("alias-chain-ok", "type A = B\ntype B = C\ntype C = 1 * 1\ntype D = 1 * 1\nlet f(x : A) : D = fwd self x\n")
    return out
