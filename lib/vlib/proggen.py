"""Seeded, type-directed generator of Grits programs as TEXT, with mutants and metamorphic variants
(DESIGN.md Appendix D).  Pure Python 3, standard library only; everything derives from the
`random.Random` handed in.

API:  gen_program(rng, size, closed, want_terminating) -> Program (.text, .meta, .decls)
      mutants(rng, program, n)    -> [(kind, text, expectation)]
      renamings(rng, program, n)  -> [(text, label_map)]
      coverage_report(programs)   -> dict

Parts: proggen_ast (types, forms, printer, model of mode inference), proggen_types (type
definitions), proggen_terms (proof search), proggen_sem (reference interpreter used to predict the
prints / processes / survivors and to certify termination), proggen_mut (mutants, renamings)."""
import collections
import random

from .proggen_ast import (MODES, WEAK, CONTR, mode_ge, t1, tname, unfold, teq, polarity, Program, Layout,
                          show_program, program_forms, decl_bodies, walk_forms, prints_in_order, count_forms)
from .proggen_types import TypeGen, PRC_NAMES, legal_ident
from .proggen_terms import TermGen, Scope
from .proggen_sem import run_reference
from .proggen_mut import mutants, renamings  # noqa: F401  (re-exported)

CFG = {
    'quick': dict(max_types=4, type_depth=2, max_branches=3, prc=(1, 4), budget=(1, 6), max_split=1,
                  max_helper_depth=2, max_forms=30, max_procs=12, p_print=0.22, p_reuse_name=0.08,
                  p_explicit_provider=0.2, p_explicit_self_arg=0.3, p_reuse_cut_name=0.08, fuel=4000),
    'thorough': dict(max_types=10, type_depth=3, max_branches=3, prc=(1, 8), budget=(3, 22), max_split=3,
                     max_helper_depth=4, max_forms=130, max_procs=60, p_print=0.2, p_reuse_name=0.1,
                     p_explicit_provider=0.2, p_explicit_self_arg=0.3, p_reuse_cut_name=0.1, fuel=20000),
}

GEN_FAILURES = [0]

FORMS14 = ['send', 'recv', 'sel', 'case', 'new', 'call', 'close', 'fwd', 'split', 'wait', 'cast', 'shift', 'drop',
           'print']
RULES = ['1R', '1L', '*R', '*L', '-*R', '-*L', '+R', '+L', '&R', '&L', 'dnR', 'dnL', 'upR', 'upL', 'id+', 'id-',
         'cut-call', 'cut-axiom', 'tail-call', 'drop', 'split']
REQUIRED_CELLS = (['form:' + f for f in FORMS14] + ['rule:' + r for r in RULES] +
                  ['decl:prc-multi', 'decl:exec', 'decl:assuming', 'decl:let-explicit-provider',
                   'call:explicit-self-arg', 'type:data', 'type:service', 'type:alias', 'type:mutual',
                   'tycon:up', 'tycon:dn'] + ['prov:' + m for m in MODES] +
                  ['tycon:' + k for k in ('1', '*', '-*', '+', '&', 'n')] +
                  ['drop:aff', 'drop:rep', 'split:mul', 'split:rep', 'ann:def-head', 'ann:def-none',
                   'ann:occ-head', 'ann:occ-none', 'self:shadow-name', 'self:explicit-provider-name',
                   'top:unused-negative-provider'] +
                  ['shift:up:%s>%s' % (a, b) for a in MODES for b in MODES if mode_ge(b, a)] +
                  ['shift:dn:%s>%s' % (a, b) for a in MODES for b in MODES if mode_ge(a, b)] +
                  ['cut:new %s >= prov %s' % (a, b) for a in MODES for b in MODES if mode_ge(a, b)] +
                  ['cut:arg %s >= new %s' % (a, b) for a in MODES for b in MODES if mode_ge(a, b)])


class Gen(TypeGen, TermGen):
    def __init__(self, rng, size, closed, want_terminating, collide=None):
        self.rng = rng
        self.size = size
        self.cfg = dict(CFG[size])
        self.closed = closed
        self.want_terminating = want_terminating
        self.cov = collections.Counter()
        self.collide = rng.choice([0.0, 0.5, 1.0, 1.0]) if collide is None else collide
        self.init_types()
        self.init_terms()

    def root_type(self, m):
        """type of a process nobody uses: hereditarily positive, so that nothing stays blocked"""
        return self.gen_type(m, self.rng.choice([0, 0, 1, 1, 2]), m, positive_only=True)

    def generate(self):
        rng = self.rng
        cfg = self.cfg
        self.gen_typedefs()
        nprc = rng.randint(*cfg['prc'])
        names = []
        pool = [n for n in PRC_NAMES]
        rng.shuffle(pool)
        # prc names are fixed first: bodies of processes must not bind them
        multi_at = rng.randrange(nprc) if rng.random() < (0.25 if self.size == 'quick' else 0.4) else -1
        for i in range(nprc):
            k = 2 if i == multi_at else 1
            if k == 2 and rng.random() < 0.15:
                k = 3
            names.append([pool.pop() for _ in range(k)])
        assumed = []
        if not self.closed:
            for _ in range(rng.choice([1, 1, 2])):
                assumed.append(pool.pop())
        all_top = {n for ns in names for n in ns} | set(assumed)
        avail = []   # (name, type) of top-level names not yet used
        adecl = []
        for n in assumed:
            m = self.pick_mode()
            t = self.gen_type(m, rng.choice([0, 1, 2]), rng.choice([q for q in MODES if mode_ge(m, q)]))
            avail.append((n, t))
            adecl.append([n, self.occ(t)])
            self.cov['decl:assuming'] += 1
        prcs = []
        keep_negative = rng.random() < 0.12
        for i, ns in enumerate(names):
            last = i == nprc - 1
            # context: some of the names still unused
            take = []
            if avail:
                kmax = len(avail) if last and rng.random() < 0.8 else rng.choice([0, 1, 1, 2])
                cand = list(avail)
                rng.shuffle(cand)
                take = cand[:kmax]
            multi = len(ns) > 1
            # provider mode: below every context entry, contractable for a multi-name declaration
            modes = [m for m in MODES if all(mode_ge(t[1], m) and self.elim_ok(t, m) for _, t in take)]
            if multi:
                modes = [m for m in modes if m in CONTR]
                while not modes and take:
                    take.pop()
                    modes = [m for m in MODES if m in CONTR and
                             all(mode_ge(t[1], m) and self.elim_ok(t, m) for _, t in take)]
            while not modes:
                take.pop()
                modes = [m for m in MODES if all(mode_ge(t[1], m) and self.elim_ok(t, m) for _, t in take)]
            m = rng.choice(modes)
            will_be_used = not last and rng.random() < 0.8
            if will_be_used or (keep_negative and rng.random() < 0.5):
                # a later process will consume it: any type; eliminable at some mode below
                mc = rng.choice([q for q in MODES if mode_ge(m, q)])
                C = self.gen_type(m, rng.choice([0, 1, 1, 2, cfg['type_depth']]), mc)
            else:
                C = self.root_type(m)
            for n, _ in take:
                avail = [(a, t) for a, t in avail if a != n]
            sc = Scope(reserved=all_top)
            self.cov['prov:' + m] += 1
            self.cov['decl:prc-multi' if multi else 'decl:prc'] += 1
            if multi:
                self.cov['prc-multi:' + m] += 1
            for _, t in take:
                self.cov['prc:ctx %s >= prov %s' % (t[1], m)] += 1
            body = self.provide(list(take), C, rng.randint(*cfg['budget']), sc)
            prcs.append(['prc', list(ns), self.occ(C), body])
            for n in ns:
                avail.append((n, C))
        # whatever is left must be consumed if assumed (assumed names are used exactly once)
        left_assumed = [(n, t) for n, t in avail if n in assumed]
        if left_assumed:
            take = left_assumed
            modes = [m for m in MODES if all(mode_ge(t[1], m) and self.elim_ok(t, m) for _, t in take)]
            nm = pool.pop()
            all_top.add(nm)
            m = rng.choice(modes)
            C = self.root_type(m)
            self.cov['prov:' + m] += 1
            self.cov['decl:prc'] += 1
            body = self.provide(list(take), C, rng.randint(*cfg['budget']), Scope(reserved=all_top))
            prcs.append(['prc', [nm], self.occ(C), body])
            avail = [(a, t) for a, t in avail if a not in {n for n, _ in take}] + [(nm, C)]
        roots = [(n, t) for n, t in avail]
        execs = []
        if rng.random() < (0.3 if self.size == 'quick' else 0.5):
            for _ in range(rng.choice([1, 1, 2])):
                nullary = [f for f, s in self.fsig.items() if not s['params'] and s['complete']
                           and self.hereditarily_positive(s['res'])]
                if nullary and rng.random() < 0.5:
                    f = rng.choice(nullary)
                else:
                    m = self.pick_mode()
                    f = self.new_function([], self.root_type(m), rng.randint(*cfg['budget']))
                execs.append(['exec', f])
                self.cov['decl:exec'] += 1
                roots.append(('exec:' + f, self.fsig[f]['res']))
        self.diverges = False
        if not self.want_terminating and self.closed and rng.random() < 0.7:
            # a client that asks a recursive server for ever (bounded number of live processes)
            tn = self.fresh_type_name()
            lab = rng.choice(['next', 'more', 'again'])
            body = ('&', 'lin', ((lab, tname('lin', tn)),), None)
            self.tenv[tn] = body
            self.tinfo[tn] = {'shape': 'service', 'rec': True, 'group': {tn}}
            self.defmodes[tn] = 'lin'
            self.tdecls.append(['type', tn, ['ty', body, True]])
            srv, cli = self.fresh_fun('loop'), None
            self.fsig[srv] = {'params': [], 'res': tname('lin', tn), 'explicit': False, 'complete': True, 'lib': True}
            cli = self.fresh_fun('run')
            self.fsig[cli] = {'params': [('x', tname('lin', tn))], 'res': t1('lin'), 'explicit': False,
                              'complete': True, 'lib': True}
            T = tname('lin', tn)
            self.fdecls.append(['let', srv, [], ['ty', T, False],
                                ['case', 'self', [[lab, 'k', ['print', self.print_label(), ['call', srv, []]]]]], None])
            self.fdecls.append(['let', cli, [['x', ['ty', T, False]]], ['ty', t1('lin'), True],
                                ['new', 'y', ['ty', T, False], ['sel', 'x', lab, 'self'], ['call', cli, ['y']]], None])
            nm = pool.pop()
            prcs.append(['prc', [nm], ['ty', t1('lin'), True], ['new', 's', None, ['call', srv, []], ['call', cli, ['s']]]])
            roots.append((nm, t1('lin')))
            self.diverges = True
            self.cov['top:diverging-client-server'] += 1
        unused_neg = [n for n, t in roots if not self.hereditarily_positive(t)]
        if unused_neg:
            self.cov['top:unused-negative-provider'] += 1
        # assemble in a random order of declarations
        groups = self.tdecls + self.fdecls + prcs + execs + ([['assuming', adecl]] if adecl else [])
        r = rng.random()
        if r < 0.4:
            decls = self.tdecls + ([['assuming', adecl]] if adecl else []) + self.fdecls + prcs + execs
        elif r < 0.6:
            decls = prcs + execs + self.fdecls[::-1] + self.tdecls + ([['assuming', adecl]] if adecl else [])
        else:
            decls = list(groups)
            rng.shuffle(decls)
        return decls, roots, unused_neg


def _meta(g, decls, roots, unused_neg, ref):
    uses_contr = g.cov['form:split'] > 0 or g.cov['decl:prc-multi'] > 0
    by_proc = {}
    for d, body in decl_bodies(decls):
        key = ('prc:' + ','.join(d[1])) if d[0] == 'prc' else ('let:' + d[1])
        by_proc[key] = prints_in_order(body)
    meta = {
        'size': g.size,
        'closed': g.closed,
        'rules': sorted(k for k in g.cov if g.cov[k] > 0),
        'coverage': dict(g.cov),
        'n_types': sum(1 for d in decls if d[0] == 'type'),
        'n_functions': sum(1 for d in decls if d[0] == 'let'),
        'n_processes': sum(1 for d in decls if d[0] in ('prc', 'exec')),
        'n_forms': program_forms(decls),
        'constructs': sorted(set(k.split(':')[1] for k in g.cov if k.startswith('form:') and g.cov[k] > 0)),
        'contraction': uses_contr,
        'drop': g.cov['form:drop'] > 0,
        'name_collision_level': g.collide,
        'print_labels_by_process': by_proc,
        'roots': [n for n, _ in roots],
        'unused_negative_providers': unused_neg,
        'diverges_by_construction': getattr(g, 'diverges', False),
    }
    if ref is not None:
        meta['reference_status'] = ref['status']
        meta['terminates'] = ref['status'] == 'done'
        meta['expected_prints'] = sorted(ref['prints']) if ref['status'] == 'done' else None
        meta['expected_processes'] = ref['processes'] if ref['status'] == 'done' else None
        meta['expected_live'] = ref['live'] if ref['status'] == 'done' else None
        meta['expected_rules'] = ref['rules']
    else:
        meta['expected_prints'] = None
        meta['terminates'] = None
    return meta


def gen_program(rng, size='quick', closed=True, want_terminating=True, collide=None):
    """a random well-typed program.  Closed programs are run through the reference interpreter; the
    draw is repeated (sub-seeds from rng) until it terminates within the size limits."""
    last = None
    for attempt in range(30):
        sub = random.Random(rng.getrandbits(64))
        layout_seed = sub.getrandbits(32)
        g = Gen(sub, size, closed, want_terminating, collide)
        try:
            decls, roots, unused_neg = g.generate()
        except (RecursionError, AssertionError):
            GEN_FAILURES[0] += 1      # a draw the search could not complete (reported by the self-test)
            continue
        ref = None
        if closed and getattr(g, 'diverges', False):
            p = Program(decls, _meta(g, decls, roots, unused_neg, None), layout_seed)
            p.meta['terminates'] = False
            return p
        if closed:
            ref = run_reference(decls, fuel=g.cfg['fuel'], max_procs=4 * g.cfg['max_procs'])
            if ref['status'].startswith('error'):
                # the reference interpreter found a protocol violation: a generator bug; keep it visible
                meta = _meta(g, decls, roots, unused_neg, ref)
                meta['generator_bug'] = ref['status']
                return Program(decls, meta, layout_seed)
        nforms = program_forms(decls)
        p = Program(decls, _meta(g, decls, roots, unused_neg, ref), layout_seed)
        last = p
        if nforms > g.cfg['max_forms']:
            continue
        if closed and want_terminating and (ref['status'] != 'done' or ref['processes'] > g.cfg['max_procs']):
            continue
        return p
    return last


def coverage_report(programs):
    """per typing rule / construct / mode pair: number of programs using it; required cells that are empty"""
    cells = collections.Counter()
    for p in programs:
        for k, v in p.meta.get('coverage', {}).items():
            if v > 0:
                cells[k] += 1
    empty = [c for c in REQUIRED_CELLS if cells.get(c, 0) == 0]
    return {'programs': len(programs), 'cells': dict(sorted(cells.items())), 'empty': empty,
            'required': len(REQUIRED_CELLS)}
