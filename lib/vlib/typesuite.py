"""Shared machinery of the C10 / C16 checks: the `wf` and `wfann` correspondence runs (Go probe vs
extracted Coq model on the same program TEXT), the comparison with the independent source-level
oracle of typegen.py, classification of disagreements, shrinking, coverage statistics."""
import collections
import os
import random

from . import common as C
from . import suite as S
from . import typegen as G

F15 = "F15"


def sizes(tier):
    return (1200, False) if tier == "quick" else (20000, True)


def corpus_cases():
    """texts kept from earlier disagreements: corpus/types/*.grits (text only: no oracle)"""
    out = []
    d = os.path.join(C.CORPUS, "types")
    if os.path.isdir(d):
        for fn in sorted(os.listdir(d)):
            out.append(("corpus:" + fn, "corpus", open(os.path.join(d, fn), encoding="latin1").read()))
    return out


def build(seed, tier):
    n, thorough = sizes(tier)
    rng = random.Random(seed * 31 + 5)
    items = [(i, k, e, []) for i, k, e in G.FIXED] + list(G.stream(seed, n, thorough))
    cases = [(i, k, G.render(e, rng)) for i, k, e, _ in items]
    return items, cases


# ---- observables ----

def vclass(obs):
    """verdict class of a wf observable"""
    h = obs.split("\t", 1)[0]
    if h.startswith("REJECT"):
        return "REJECT"
    if h in ("OK", "PARSE-ERR", "HANG", "PANIC", "ANN"):
        return h
    return h.split()[0] if h else "MISSING"     # CRASH / EXN / MISSING


def err_class(model_obs):
    h = model_obs.split("\t", 1)[0]
    return h[len("REJECT:"):] if h.startswith("REJECT:") else ""


def type_lines(obs):
    p = obs.split("\t")
    return p[1].split(" ;; ") if len(p) > 1 and p[1] else []


def unfolds(obs):
    p = obs.split("\t")
    return p[2].split(" ;; ") if len(p) > 2 and p[2] else []


def proj_c10(obs):
    """what C10 talks about: the verdict class and, when accepted, what every name unfolds to"""
    return (vclass(obs), tuple(unfolds(obs)) if vclass(obs) == "OK" else ())


def proj_c16(obs):
    """what C16 talks about: the modes in the dump of every definition"""
    c = vclass(obs)
    return (c if c not in ("OK", "REJECT") else "PARSED", tuple(type_lines(obs)))


def proj_ann(obs):
    if not obs.startswith("ANN\t"):
        return (vclass(obs), ())
    items = [x for x in obs.split("\t", 1)[1].split(" ;; ") if x]
    return ("ANN", tuple((x.split(" ", 1)[0].split(":")[0], x.split(" ", 1)[1] if " " in x else "") for x in items))


def line_modes(line):
    """`type NAME MODE BODY` -> (NAME, MODE, BODY)"""
    p = line.split(" ", 3)
    return (p[1], p[2], p[3] if len(p) > 3 else "")


# ---- running ----

def run_capped(binary, sub, cases, timeout=1200, max_crashes=6):
    """suite.run_tool, but a tool that keeps dying (e.g. a stack overflow of Unfold on every cyclic
    environment) is not restarted more than max_crashes times: the remaining cases are NOT-RUN"""
    import tempfile
    os.makedirs(os.path.join(C.CACHE, "tmp"), exist_ok=True)
    res, todo, crashes = {}, list(cases), 0
    while todo:
        fd, path = tempfile.mkstemp(dir=os.path.join(C.CACHE, "tmp"), suffix=".cases")
        os.close(fd)
        with open(path, "w") as f:
            for i, _, t in todo:
                f.write("%s\t%s\n" % (i, t.encode("latin1", "replace").hex()))
        rc, out, err = C.run([binary, sub, path], timeout=timeout)
        os.remove(path)
        got = S._parse_lines(out)
        res.update(got)
        rest = [c for c in todo if c[0] not in got]
        if (rc == 0 and len(got) >= len(todo)) or not rest:
            break
        crashes += 1
        tail = (err or "")[-300:].replace("\n", " | ")
        res[rest[0][0]] = "CRASH rc=%d %s" % (rc, "TIMEOUT" if rc == 124 else tail)
        todo = rest[1:]
        if crashes >= max_crashes:
            for c in todo:
                res[c[0]] = "NOT-RUN (tool crashed %d times before)" % crashes
            break
    return res


def run_both(b, sub, cases, timeout=1200):
    impl = run_capped(b.probe, sub, cases, timeout) if not b.probe_error else {}
    model = run_capped(b.model, sub, cases, timeout) if not (b.model_error or b.probe_error) else {}
    return impl, model


def impl_obs(b, sub, text):
    return S.run_tool(b.probe, sub, [("x", "", text)], timeout=60).get("x", "MISSING")


def model_obs(b, sub, text):
    return S.run_tool(b.model, sub, [("x", "", text)], timeout=60).get("x", "MISSING")


def shrink_env(env, still_fails, budget=80):
    """drop definitions one at a time while the failure persists"""
    cur = list(env)
    changed = True
    while changed and budget > 0:
        changed = False
        for i in range(len(cur)):
            cand = cur[:i] + cur[i + 1:]
            budget -= 1
            if cand and still_fails(cand):
                cur, changed = cand, True
                break
            if budget <= 0:
                break
    return cur


def f15_shaped(env):
    """the recorded shape of F15: the strict reading of the spec rejects the environment ONLY because of a
    head annotation placed directly on a shift whose target mode differs (or is no mode word at all)"""
    return (not G.oracle(env)["ok"]) and G.oracle(env, strict_head=False)["ok"]


def known_ids(prop):
    return {k.get("id") for k in C.known_findings(prop)}


def f15_is_known(prop):
    return any(k.get("id") == F15 for k in C.known_findings(prop))


def known_line(prop, n, example):
    return "%s head annotation placed directly on a shift is dropped by conversion: accepted with the shift's own target mode " \
           "(%d generated environments of exactly this shape, e.g. `%s`)" % (F15, n, example.strip().replace("\n", " ; ")[:120])


def stats(items, cases, impl, model):
    kinds = collections.Counter(k for _, k, _, _ in items)
    verdicts = collections.Counter(vclass(impl.get(i, "MISSING")) for i, _, _ in cases)
    errs = collections.Counter(err_class(model.get(i, "")) for i, _, _ in cases if err_class(model.get(i, "")))
    ndefs = collections.Counter(min(len(e), 12) for _, _, e, _ in items)
    feats = collections.Counter()
    for _, _, e, _ in items:
        names = {n for n, _, _ in e}
        f = set()
        for n, h, bdy in e:
            if h is not None:
                f.add("head-annotation")
            if bdy[0] == "name":
                f.add("alias")
            if bdy[0] in ("up", "down") and h is not None:
                f.add("head-on-shift")
            for s in G.subterms(bdy):
                if s[0] in ("up", "down"):
                    f.add("shift")
                if s[0] == "name" and s[1] == n:
                    f.add("self-recursion")
                elif s[0] == "name" and s[1] in names:
                    f.add("reference")
                if s[0] in ("plus", "with"):
                    f.add("choice")
        for x in f:
            feats[x] += 1
    return {"mutation_kinds": dict(kinds), "impl_verdicts": dict(verdicts), "model_error_classes": dict(errs),
            "definitions_per_environment": {str(k): v for k, v in sorted(ndefs.items())}, "features": dict(feats)}


def nontrivial(items, cases, impl):
    """distinct texts with >= 2 definitions, or one definition using a shift / choice / recursion, that parsed"""
    seen = set()
    for (i, k, e, _), (_, _, t) in zip(items, cases):
        if vclass(impl.get(i, "MISSING")) not in ("OK", "REJECT"):
            continue
        big = len(e) >= 2 or any(s[0] in ("up", "down", "plus", "with") for _, _, b in e for s in G.subterms(b))
        if big:
            seen.add(t)
    return len(seen)


# ---- the generic analysis of one suite run ----

def to_env(j):
    """JSON (lists) -> AST (tuples)"""
    def ty(t):
        k = t[0]
        if k in ("tensor", "lolli"):
            return (k, ty(t[1]), ty(t[2]))
        if k in ("plus", "with"):
            return (k, [(l, ty(a)) for l, a in t[1]])
        if k in ("up", "down"):
            return (k, t[1], t[2], ty(t[3]))
        return tuple(t)
    return [(n, h, ty(b)) for n, h, b in j]


def analyse(b, prop, sub, items, cases, impl, model, proj, spec_check, render_item, max_report=4):
    """items[k] = (id, kind, env, anns) and cases[k] = (id, kind, text) describe the same case.
    proj: observable -> what the property talks about (compared between implementation and model)
    spec_check(env, anns, impl_observable) -> ("ok"|"known"|"violation"|"skip", detail)
    returns (violations, known_count, known_example, counters)"""
    violations, known_n, known_ex = [], 0, ""
    known_by = {}
    cnt = collections.Counter()
    spec_bad, model_bad = [], []
    for (i, k, e, anns), (_, _, t) in zip(items, cases):
        a, m = impl.get(i, "MISSING"), model.get(i, "MISSING")
        cnt["class:" + vclass(a)] += 1
        if vclass(a) == "NOT-RUN":
            continue
        if vclass(a) == "PARSE-ERR":
            cnt["parse-err"] += 1
        st, detail = spec_check(e, anns, a)
        cnt["spec:" + st] += 1
        if st == "known":
            known_n += 1
            known_ex = known_ex or t
            n0, ex0 = known_by.get(detail, (0, t))
            known_by[detail] = (n0 + 1, ex0)
        elif st == "violation":
            spec_bad.append((i, k, e, anns, t, a, detail))
        if proj(a) != proj(m):
            model_bad.append((i, k, e, anns, t, a, m))
    for i, k, e, anns, t, a, detail in spec_bad[:max_report]:
        def still(cand, _anns=anns):
            txt = render_item(cand, _anns)
            return spec_check(cand, _anns, impl_obs(b, sub, txt))[0] == "violation"
        small = shrink_env(e, still, budget=80 if vclass(a) in ("OK", "REJECT") else 12)
        txt = render_item(small, anns)
        obs = impl_obs(b, sub, txt)
        violations.append(C.Violation(
            "%s: the implementation contradicts the specification on a generated environment (%s, %s): %s" % (prop, i, k, detail),
            {"property": prop, "kind": "spec-disagreement", "suite": sub, "case": i, "mutation": k, "detail": spec_check(small, anns, obs)[1],
             "input_text": txt, "input_hex": txt.encode("latin1", "replace").hex(), "env": small, "anns": anns,
             "implementation": obs[:600], "oracle_accepts": G.oracle(small)["ok"], "oracle_reasons": sorted(G.oracle(small)["reasons"]),
             "replay_cmd": "bin/check %s --replay <this file>" % prop}))
    spec_ids = {x[0] for x in spec_bad}
    for i, k, e, anns, t, a, m in model_bad[:max_report]:
        if i in spec_ids:
            continue   # already reported with a concrete input: the implementation is wrong there, not the model
        small = S.shrink_text(t, lambda x: proj(impl_obs(b, sub, x)) != proj(model_obs(b, sub, x)), budget=120)
        violations.append(C.Violation(
            "%s: model and implementation disagree on %s (%s) while the implementation agrees with the specification oracle: "
            "the model no longer mirrors the code" % (prop, i, k),
            {"property": prop, "kind": "unproven", "suite": sub, "case": i, "mutation": k,
             "no_longer_checks": [{"what": "correspondence %s (Go probe vs extracted model)" % sub,
                                   "detail": "impl=%s | model=%s" % (impl_obs(b, sub, small)[:300], model_obs(b, sub, small)[:300])}],
             "input_text": small, "input_hex": small.encode("latin1", "replace").hex(),
             "replay_cmd": "bin/check %s --replay <this file>" % prop},
            found_input=False))
    cnt["model-disagreements"] = len(model_bad)
    cnt["spec-disagreements"] = len(spec_bad)
    cnt["known_by"] = {k: v[0] for k, v in known_by.items()}
    return violations, known_by, known_ex, cnt


def known_lines(prop, *known_bys):
    """one KNOWN-FINDING line per recorded finding that showed up"""
    tot = {}
    for kb in known_bys:
        for k, (n, ex) in (kb or {}).items():
            n0, ex0 = tot.get(k, (0, ex))
            tot[k] = (n0 + n, ex0)
    out = []
    for k, (n, ex) in sorted(tot.items()):
        out.append(known_line(prop, n, ex))
    return out, sum(n for n, _ in tot.values()), {k: n for k, (n, _) in tot.items()}


def corpus_check(b, prop, sub, proj):
    cs = corpus_cases()
    if not cs or b.probe_error or b.model_error:
        return [], 0
    impl, model = run_both(b, sub, cs)
    out = []
    for i, k, t in cs:
        if proj(impl.get(i, "MISSING")) != proj(model.get(i, "MISSING")):
            out.append(C.Violation("%s: corpus case %s: model and implementation disagree" % (prop, i),
                                   {"property": prop, "kind": "unproven", "suite": sub, "input_text": t, "input_hex": t.encode("latin1", "replace").hex(),
                                    "no_longer_checks": [{"what": "corpus correspondence " + sub, "detail": impl.get(i, "")[:200] + " | " + model.get(i, "")[:200]}]},
                                   found_input=False))
    return out, len(cs)


def replay_generic(b, prop, path, proj_of, spec_check_of):
    import json
    r = json.load(open(path))
    if "input_hex" not in r:
        print("no concrete input in this replay file:", r.get("no_longer_checks"))
        return 1
    t = bytes.fromhex(r["input_hex"]).decode("latin1")
    sub = r.get("suite", "wf")
    proj = proj_of(sub)
    a, m = impl_obs(b, sub, t), model_obs(b, sub, t)
    print("implementation:", a[:400])
    print("model         :", m[:400])
    bad = proj(a) != proj(m)
    if "env" in r:
        st, detail = spec_check_of(sub)(to_env(r["env"]), [tuple(x[:2]) + (to_env([["_", None, x[2]]])[0][2],) for x in r.get("anns", [])], a)
        print("specification :", st, detail)
        bad = bad or st == "violation"
    return 1 if bad else 0


def proj_ann_modes(obs):
    """C16's view of the wfann observable: the dumps (modes) of the annotation types, not the verdicts"""
    c, items = proj_ann(obs)
    return (c, tuple(d for _, d in items))
