"""C10 — only well-formed, contractive, consistently-moded types are admitted; unfolding an accepted
name reaches a structural type.  Proof: props/C10.v (wf_sound, wf_complete, contractive_fuel_enough,
unfold_terminates over the Gallina model of SanityChecksTypeDefinitions / Unfold, all environments).
Tie: suites `wf` and `wfann`: the Go probe and the extracted model run on the same program texts and
must agree on the verdict class and on what every name unfolds to; both are also compared with an
independent source-level well-formedness checker (typegen.oracle) written from the property text."""
import random

from .. import common as C
from .. import suite as S
from .. import typegen as G
from .. import typesuite as TS

PROP = "C10"
PROP_V = "theories/props/C10.v"
MODEL_AREAS = ('front', 'types')


def spec_check_wf(env, anns, obs):
    c = TS.vclass(obs)
    if c in ("HANG", "PANIC", "CRASH", "MISSING", "EXN"):
        return "violation", "the checks / Unfold do not return: " + obs[:80]
    if c == "PARSE-ERR":
        return "skip", "generated text does not parse"
    if c == "NOT-RUN":
        return "skip", "not run"
    o = G.oracle(env)
    if (c == "OK") != o["ok"]:
        if c == "OK" and TS.f15_shaped(env) and TS.f15_is_known(PROP):
            lo = G.oracle(env, strict_head=False)
            if tuple(lo["unfold"]) == tuple(TS.unfolds(obs)):
                return "known", "F15"
        return "violation", "verdict %s but the independent checker says %s %s" % (
            c, "well-formed" if o["ok"] else "ill-formed", sorted(o["reasons"]))
    if c == "OK":
        us = TS.unfolds(obs)
        if any(u.split("=", 1)[1].startswith("(N ") or u.endswith("=_") for u in us):
            return "violation", "Unfold of an accepted name is not a structural type: " + str(us)[:200]
        if tuple(us) != tuple(o["unfold"]):
            return "violation", "Unfold results differ from the expected unfolding: %s vs %s" % (us[:3], o["unfold"][:3])
    return "ok", ""


def spec_check_ann(env, anns, obs):
    c, got = TS.proj_ann(obs)
    if c in ("HANG", "PANIC", "CRASH", "MISSING", "EXN"):
        return "violation", "AddMissingModalities / SanityChecksType do not return: " + obs[:80]
    if c != "ANN":
        return "skip", c
    anns = G.ann_order(anns)
    o = G.oracle(env, anns)
    if not o["ok"]:
        return "skip", "environment itself ill-formed"
    if len(got) != len(o["ann"]):
        return "violation", "number of annotation types differs: %d vs %d" % (len(got), len(o["ann"]))
    lo = G.oracle(env, anns, strict_head=False)
    known = False
    for (v, d), (ok, exp, why), (lok, lexp, _) in zip(got, o["ann"], lo["ann"]):
        if (v == "OK") == ok:
            continue
        if v == "OK" and lok and TS.f15_is_known(PROP):
            known = True
            continue
        return "violation", "annotation type verdict %s but the independent checker says %s %s" % (
            v, "well-formed" if ok else "ill-formed", sorted(why))
    return ("known", "F15") if known else ("ok", "")


def ann_items(seed, tier):
    n, thorough = TS.sizes(tier)
    rng = random.Random(seed * 17 + 3)
    g = G.Gen(rng, thorough)
    items = []
    for e in range(max(40, n // 2)):
        env, mode = g.env()
        anns = g.ann(env, mode)
        # defective annotation types: one single-edit mutant of an annotation, same defect classes
        if rng.random() < 0.5:
            k = rng.randrange(len(anns))
            where, h, bdy = anns[k]
            kind = rng.choice(["undefined-name", "dup-label", "illegal-shift", "inner-mode", "unknown-head", "unknown-shift-mode",
                               "head-contradicts", "head-vs-shift", "ref-mode", "strip-head"])
            m = G.mutate(rng, [("Zann", h, bdy)], kind)
            if m is not None and len(m) == 1:
                anns = anns[:k] + [(where, m[0][1], m[0][2])] + anns[k + 1:]
                items.append(("a%d:%s" % (e, kind), "ann:" + kind, env, anns))
                continue
        if rng.random() < 0.15:
            m = G.mutate(rng, env, rng.choice(G.MUTATIONS))
            if m is not None:
                items.append(("a%d:envmut" % e, "ann:env-mutant", m, anns))
                continue
        items.append(("a%d" % e, "ann:wf", env, anns))
    rr = random.Random(seed * 13 + 1)
    cases = [(i, k, G.render(e, rr, a)) for i, k, e, a in items]
    return items, cases


def run(b, ps, tier, seed):
    items, cases = TS.build(seed, tier)
    violations, known = [], []
    impl, model = TS.run_both(b, "wf", cases)
    v1, kn, kex, cnt = TS.analyse(b, PROP, "wf", items, cases, impl, model, TS.proj_c10, spec_check_wf,
                                  lambda e, a: G.render(e)) if impl else ([], 0, "", {})
    violations += v1
    aitems, acases = ann_items(seed, tier)
    aimpl, amodel = TS.run_both(b, "wfann", acases)
    v2, kn2, kex2, cnt2 = TS.analyse(b, PROP, "wfann", aitems, acases, aimpl, amodel, TS.proj_ann, spec_check_ann,
                                     lambda e, a: G.render(e, None, a)) if aimpl else ([], 0, "", {})
    violations += v2
    v3, ncorpus = TS.corpus_check(b, PROP, "wf", TS.proj_c10)
    violations += v3
    # the CHECKER's use of the well-formedness checks: annotation types reach them in LISTS (all annotations of a function,
    # accumulated over the functions; assumed names; process types).  Verdict of the real checker against the model on
    # programs with several look-alike annotations of which one is ill-moded (lib/vlib/declshapes.py fam_annlists) and on
    # the mode families: a type that is not well-formed must be refused wherever it stands in such a list.
    ntc = 0
    if impl and not b.probe_error and not b.model_error:
        from .. import declshapes as DS
        from .. import suite as S
        from .. import lingen as LG
        tcases = [(i, k, t) for i, k, t in DS.fam_annlists()] + [(i, k, t) for i, k, t in DS.fam_modes()]
        ntc = len(tcases)
        ti, tm, tmis = S.correspond(b, "tc", tcases, project=LG.verdict, timeout=900)
        for i, k, t, a, m in tmis[:4]:
            violations.append(C.Violation(
                "the checker's verdict on a program with several annotation types differs from the model (%s): %s vs %s" % (i, LG.verdict(a), LG.verdict(m)),
                {"property": PROP, "kind": "checker-annotation-list", "suite": "tc", "input_text": t, "input_hex": t.encode("latin1").hex(),
                 "implementation": a[:400], "model": m[:400]}))
    known, nknown, known_seen = TS.known_lines(PROP, kn, kn2)
    if impl and cnt.get("parse-err", 0) + (cnt2.get("class:PARSE-ERR", 0) if cnt2 else 0) > 0:
        violations.append(C.Violation("generated type environments no longer parse (%d texts): the suite does not exercise the property" % cnt.get("parse-err", 0),
                                      {"property": PROP, "kind": "unproven", "no_longer_checks": [{"what": "generator typegen.py vs the grammar", "detail": "PARSE-ERR on generated text"}]},
                                      found_input=False))
    st = TS.stats(items, cases, impl, model) if impl else {}
    cov = {
        "evaluations": len(cases) + len(acases) + ncorpus,
        "distinct_nontrivial": (TS.nontrivial(items, cases, impl) + TS.nontrivial(aitems, acases, {i: "OK" for i, _, _ in acases})) if impl else 0,
        "rule": "environments of 1-%d type definitions generated well-formed by construction (recursion, mutual recursion, alias chains, "
                "legal shifts between all four modes, head annotations present/absent/on a shift, all spellings of mode words, random "
                "definition order) + single-edit mutants (%s) + %d fixed cases; program texts with annotation types on let / assuming / prc "
                "(suite wfann). Non-trivial = distinct text that parses and has >= 2 definitions or a shift/choice in a body" % (
                    12 if tier != "quick" else 6, ", ".join(G.MUTATIONS), len(G.FIXED)),
        "samples": [{"id": i, "kind": k, "text": t[:200], "impl": impl.get(i, "")[:160], "model_class": TS.err_class(model.get(i, "")) or TS.vclass(model.get(i, ""))}
                    for i, k, t in (cases[12:16] + cases[40:43] + acases[:2])] if impl else [],
        "wf_suite": st,
        "wf_counters": dict(cnt) if cnt else {},
        "wfann_counters": dict(cnt2) if cnt2 else {},
        "corpus_cases": ncorpus,
        "checker_level_cases": ntc,
        "known_finding_cases": nknown,
        "known_findings_seen": known_seen,
    }
    return {"violations": violations, "known": known, "coverage": cov,
            "assumptions": [
                "a Modality interface value is never nil in a parsed program (ParseString always runs SetModalityTypeDef); the nil disjuncts of checkTypeModalities are not modelled",
                "the theorems are about environments of converted types (after toSessionType): a head annotation placed directly on a shift is already gone there (F15, known finding); "
                "the source-level reading of the property (annotation must equal the node it annotates) is checked by the oracle of the suite, not by the Coq spec",
                "annotation types of typed cuts (x : T <- new ...) are not reached by the probe (unexported fields); they go through the same AddMissingModalities + CheckTypeWellFormedness functions as the compared ones",
                "error classes are a model-side statistic only; the compared observable is the verdict class and the unfold results",
            ],
            "trusted_extra": ["correspondence: probe wf / wfann vs extracted model (harness/typeswf.go, coq/theories/WFObs.v; extraction ExtrOcamlBasic + ExtrOcamlString)",
                              "independent oracle lib/vlib/typegen.py:oracle (source-level well-formedness and mode assignment, written from the property text)"]}


def replay(b, path):
    import json
    r = json.load(open(path))
    if r.get("suite") == "tc" and "input_hex" in r:
        from .. import suite as S
        from .. import lingen as LG
        t = bytes.fromhex(r["input_hex"]).decode("latin1")
        a = S.run_tool(b.probe, "tc", [("x", "", t)], timeout=60).get("x", "MISSING")
        m = S.run_tool(b.model, "tc", [("x", "", t)], timeout=60).get("x", "MISSING")
        print("implementation:", a[:300])
        print("model (proved): ", m[:300])
        return 0 if LG.verdict(a) == LG.verdict(m) else 1
    return TS.replay_generic(b, PROP, path, lambda sub: TS.proj_c10 if sub == "wf" else TS.proj_ann,
                             lambda sub: spec_check_wf if sub == "wf" else spec_check_ann)
