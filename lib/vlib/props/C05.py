"""C05 — substructural discipline.  Proof: props/C05.v (path-counting discipline of spec/Linear.v for
every accepted program of the model; drop/split mode side conditions on the sequents of
spec/Sequents.v).  Tie: verdict correspondence probe tc / model tc on the text stream and on targeted
programs (a name used twice / never / on one path, every binder re-binding a live name or the
provider's name, drop and split at each mode, multi-name declarations at each mode), and the
extracted oracle `linoracle` (spec/Oracle.v: linear_program_b, drop_split_program_b) applied to every
program the IMPLEMENTATION accepts: an accepted program that VIOLATES is a concrete failing input."""
from .. import lingen as L

PROP = "C05"
PROP_V = "theories/props/C05.v"
MODEL_AREAS = ('front', 'tc', 'lin')


def ok(o):
    return o.startswith("OK")


def run(b, ps, tier, seed):
    if b.probe_error or b.model_error:
        return {"violations": [], "known": [], "coverage": {"evaluations": 1, "distinct_nontrivial": 2, "samples": ["(not run: build broken)"]}}
    violations, known, cov = L.run_property(b, PROP, tier, seed, L.c05_targeted(), "linoracle", ok)
    return {"violations": violations, "known": [], "coverage": cov,
            "assumptions": ["the theorem is about the Gallina model Tc.v/TcTop.v; it speaks about /repo through the verdict correspondence run on every check",
                            "premise uninit_prog of the AST-level theorems is proved of parser output (C05_parsed_uninit); the oracle line still carries the flag uninit= as a cross-check of the extracted parser",
                            "the oracle is the extraction of linear_program_b / drop_split_program_b, proved to decide LinearProgram (C05_oracle_exact) and never to flag a program the model accepts (C05_oracle_agrees, C05_oracle_modes_agrees)"],
            "trusted_extra": ["correspondence: probe tc (links /repo, -tags verif) vs extracted model on the same texts; extraction: ExtrOcamlBasic, ExtrOcamlString",
                              "oracle: coq/extract/Extract_lin.v + drv_lin.ml (linoracle)"]}


def replay(b, path):
    return L.replay_common(b, path, PROP, "linoracle", ok)
