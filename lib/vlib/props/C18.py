"""C18 — CLI gatekeeping.  Proof over Cli.cli (flag resolution + sequencing composed with the
pipeline model).  Tie: the REAL `grits` binary, built from /repo's working tree, is run on every
combination of --typecheck/--notypecheck/--execute/--noexecute/--sync/--async (x verbosity) on files
of every class, and (exit status, `> label` lines, diagnostics, panic trace) are compared with the
model."""
import collections
import concurrent.futures
import itertools
import json
import os
import random
import re

from .. import common as C
from .. import suite as S

PROP = "C18"
PROP_V = "theories/props/C18.v"
MODEL_AREAS = ('front', 'tc', 'run', 'cli')
NEED_GRITS = True

FILES = {
    "ok_hello": "prc[a] : 1 = print hello; close self\n",
    "ok_two_procs": "prc[a] : 1 = wait b; print ok; close self\nprc[b] : 1 = print first; close self\n",
    "ok_call": "type nat = +{zero : 1, succ : nat}\nlet z() : nat = x : 1 <- new close self; print zero; self.zero<x>\nprc[a] : 1 = n <- new z(); case n ( zero<c> => wait c; print got_zero; close self | succ<c> => drop c; close self )\n",
    "syntax_error": "prc[a] : 1 = print hello; close self )\n",
    "illegal_char": "prc[a] : 1 = print hello; close self\n@ prc[b] : 1 = print evil; close self\n",
    "type_error": "prc[a] : 1 * 1 = print hello; close self\n",
    "type_error_linear": "prc[a] : lin 1 = print hello; close self\nprc[b] : lin 1 = print b; close self\nprc[c] : lin 1 = wait a; wait a; close self\n",
    "empty": "",
    "only_types": "type A = 1 * 1\n",
    # files without any process: everything before the runtime must still happen (parse, check, status)
    "only_defs_ok": "type nat = +{zero : 1, succ : nat}\nlet z() : nat = x : 1 <- new close self; self.zero<x>\n",
    "only_defs_type_error": "type nat = +{zero : 1, succ : nat}\nlet consume(n : nat) : 1 = case n ( zero<c> => wait c; close self | succ<c> => fwd self c )\n",
    "only_types_bad": "type A = A\n",
    "only_defs_dup_function": "let f() : 1 = close self\nlet f() : 1 = close self\n",
    "procs_commented_out": "let g(x : 1) : 1 = close self\n// prc[a] : 1 = print hello; close self\n/* prc[b] : 1 = close self */\n",
    "only_assumption": "assuming x : 1 * 1\n",
    # forwards: an unchecked run reads the polarity of a forward from the explicit annotation (+x / -x), a checked one from the type
    "fwd_explicit_pos": "prc[a] : 1 = x : 1 <- new close self; fwd self +x\nprc[b] : 1 = wait a; print done; close self\n",
    "fwd_explicit_neg": "type N = &{go : 1}\nprc[s] : N = case self (go<c> => print served; close c)\nprc[f] : N = fwd self -s\nprc[m] : 1 = r : 1 <- new f.go<self>; wait r; print done; close self\n",
    "fwd_unannotated": "prc[a] : 1 = x : 1 <- new close self; fwd self x\nprc[b] : 1 = wait a; print done; close self\n",
    "open_program": "assuming x : 1\nprc[a] : 1 = wait x; print never; close self\n",
    "rejected_but_runnable": "prc[a] : 1 = print unchecked; close self\nprc[b] : 1 * 1 = print second; close self\n",
}
OPEN_OR_UNCHECKED = {"open_program"}


# file-LEVEL shapes: the CLI is the only client of ParseFile, so how the file is read (buffering, line length, line
# endings, encoding marks, size) is exercised here and nowhere else
_LONG = "// " + "x" * 70000 + "\n"
_PAD = "".join("// padding line %06d %s\n" % (i, "." * 80) for i in range(900))          # ~ 90 KiB of short lines
FILES.update({
    "longline_then_ok": _LONG + FILES["ok_hello"],
    "longline_then_type_error": _LONG + FILES["type_error"],
    "longline_then_syntax_error": _LONG + FILES["syntax_error"],
    "ok_then_longline_then_type_error": FILES["ok_hello"] + _LONG + "prc[b] : 1 * 1 = print second; close self\n",
    "long_label": "prc[a] : 1 = print " + "l" * 70000 + "; close self\n",
    "long_label_then_type_error": "prc[a] : 1 = print " + "l" * 70000 + "; close self\nprc[b] : 1 * 1 = close self\n",
    "bigfile_then_type_error": _PAD + FILES["type_error"],
    "bigfile_then_ok": _PAD + FILES["ok_hello"],
    "crlf": FILES["ok_two_procs"].replace("\n", "\r\n"),
    "crlf_type_error": FILES["type_error"].replace("\n", "\r\n"),
    "no_trailing_newline": "prc[a] : 1 = print hello; close self",
    "no_trailing_newline_type_error": "prc[a] : 1 * 1 = print hello; close self",
    "utf8_bom": "\xef\xbb\xbf" + FILES["ok_hello"],
    "one_line_many_decls": " ".join("prc[p%d] : 1 = close self" % i for i in range(150)) + " prc[z] : 1 * 1 = close self",
})


def flag_vectors():
    for tc, notc, ex, noex, sy, asy in itertools.product((1, 0), (0, 1), (1, 0), (0, 1), (0, 1), (1, 0)):
        yield (tc, notc, ex, noex, sy, asy)


def cmdline(fv, verbosity):
    tc, notc, ex, noex, sy, asy = fv
    a = ["--typecheck=%s" % ("true" if tc else "false"), "--execute=%s" % ("true" if ex else "false"),
         "--async=%s" % ("true" if asy else "false"), "--verbosity=%d" % verbosity]
    if notc:
        a.append("--notypecheck")
    if noex:
        a.append("--noexecute")
    if sy:
        a.append("--sync")
    return a


def run_real(grits, args, path):
    rc, out, err = C.run([grits] + args + [path], timeout=60)
    out = re.sub(r"\x1b\[[0-9;]*m", "", out)   # colour codes of the log lines (verbosity >= 2) precede a label line
    labels = sorted(l[2:] for l in out.split("\n") if l.startswith("> "))
    trace = bool(re.search(r"^goroutine \d+ \[", err + out, re.M)) or "panic:" in err
    # log.Fatal prints one line with a timestamp on stderr
    diags = len([l for l in err.split("\n") if re.match(r"^\d{4}/\d\d/\d\d \d\d:\d\d:\d\d ", l)])
    return {"exit": rc, "labels": labels, "trace": trace, "diags": diags}


def parse_model(line):
    d = {}
    for x in line.split("\t"):
        if "=" in x:
            k, v = x.split("=", 1)
            d[k] = v
    return {"exit": int(d.get("exit", -1)), "labels": sorted(y for y in d.get("labels", "").split(",") if y),
            "trace": d.get("trace") == "true", "diags": int(d.get("diags", -1)), "ran": d.get("ran") == "true"}


def same(a, m):
    return a["exit"] == m["exit"] and a["labels"] == m["labels"] and a["trace"] == m["trace"] and (a["diags"] >= 1) == (m["diags"] >= 1)


def run(b, ps, tier, seed):
    violations, known = [], []
    if b.probe_error or b.model_error or not os.path.exists(b.grits):
        return {"violations": [], "coverage": {"evaluations": 1, "distinct_nontrivial": 2, "samples": ["(not run: build broken)"]}}
    rng = random.Random(seed)
    tmp = os.path.join(C.CACHE, "cli")
    os.makedirs(tmp, exist_ok=True)
    files = dict(FILES)
    if tier == "thorough":
        import glob
        for p in sorted(glob.glob(os.path.join(C.REPO, "examples", "*.grits"))):
            files["ex_" + os.path.basename(p)[:-6]] = open(p, "rb").read().decode("latin1")
    paths = {}
    for k, t in files.items():
        paths[k] = os.path.join(tmp, k + ".grits")
        with open(paths[k], "wb") as f:
            f.write(t.encode("latin1"))
    paths["missing_file"] = os.path.join(tmp, "does_not_exist.grits")
    fvs = list(flag_vectors())
    jobs = []
    for k in paths:
        for fv in fvs:
            verbs = (1, 2, 3) if tier == "thorough" else (rng.choice((1, 2, 3)),)
            for v in verbs:
                jobs.append((k, fv, v))
    # model side: one driver call per flag vector
    model = {}
    for fv in fvs:
        sub = "cli-%d%d%d%d%d%d" % fv
        cases = [(k, "", files[k]) for k in files]
        res = S.run_tool(b.model, sub, cases, timeout=600)
        for k in files:
            model[(k, fv)] = parse_model(res.get(k, ""))
        res = S.run_tool(b.model, sub + "-missing", [("missing_file", "", "")], timeout=60)
        model[("missing_file", fv)] = parse_model(res.get("missing_file", ""))

    def work(job):
        k, fv, v = job
        return job, run_real(b.grits, cmdline(fv, v), paths[k])
    results = {}
    with concurrent.futures.ThreadPoolExecutor(max_workers=8) as ex:
        for job, r in ex.map(work, jobs):
            results[job] = r
    outcomes = collections.Counter()
    deviations = 0
    f19 = 0
    unchecked_inside = 0
    for (k, fv, v), r in sorted(results.items()):
        m = model[(k, fv)]
        outcomes[(r["exit"], r["trace"], bool(r["labels"]))] += 1
        unchecked = (k in OPEN_OR_UNCHECKED) or (fv[1] == 1 or fv[0] == 0)
        if r["trace"] and unchecked:
            # known finding F19: open / unchecked programs are executed and protocol errors surface as a Go panic
            f19 += 1
            if m["trace"]:
                continue
        if unchecked and not r["trace"] and m["trace"]:
            # the MODEL's unchecked / open run stops with an error and the real one does not die: what happens INSIDE
            # such a run is outside every claim of the property and outside the model's fidelity (without annotations
            # the model stops where the real interpreter may merely stall).  Only the gate is compared then - was the
            # runtime reached, how many diagnostics, and the status the property prescribes when the run does not die (0)
            unchecked_inside += 1
            gate_real = (r["exit"] == 1, r["diags"] >= 1)
            gate_model = (m["exit"] == 1, m["diags"] >= 1)
            if gate_real == gate_model and (m.get("ran", True) or not r["labels"]) and r["exit"] in (0, 1):
                continue
        if same(r, m):
            continue
        # the real runtime detects quiescence by a 50 ms timer: re-run before counting a label deviation
        ok = False
        for _ in range(3):
            r2 = run_real(b.grits, cmdline(fv, v), paths[k])
            if same(r2, m):
                ok = True
                break
        if ok:
            continue
        deviations += 1
        if len(violations) < 5:
            violations.append(C.Violation(
                "grits %s %s: exit=%s labels=%s trace=%s diags=%s, model: %s" % (" ".join(cmdline(fv, v)), k, r["exit"], r["labels"], r["trace"], r["diags"], m),
                {"property": PROP, "kind": "cli-outcome", "file_class": k, "file_text": files.get(k), "args": cmdline(fv, v),
                 "observed": r, "expected_by_model": m, "replay_cmd": "bin/check C18 --replay <this file>"}))
    if f19:
        known.append("F19 the CLI executes open / unchecked programs and protocol errors surface as a Go panic trace, exit status 2 (%d runs of this run)" % f19)
    cov = {
        "evaluations": len(results),
        "distinct_nontrivial": len({(k, fv) for (k, fv, v) in results}),
        "rule": "every combination of --typecheck=b/--notypecheck/--execute=b/--noexecute/--sync/--async=b (64 vectors) x verbosity x file classes %s on the real binary; all distinct" % sorted(paths),
        "samples": [{"args": cmdline(fv, v), "file": k, "observed": r} for (k, fv, v), r in list(sorted(results.items()))[:3]],
        "exhaustive": True,
        "outcomes_seen(exit,trace,printed)": {str(k): v for k, v in outcomes.items()},
        "deviations_confirmed": deviations,
        "f19_runs": f19,
        "unchecked_or_open_runs_compared_at_the_gate_only": unchecked_inside,
    }
    return {"violations": violations, "known": known, "coverage": cov,
            "assumptions": ["the `flag` package (command-line syntax) is outside the model; the real binary is driven with real command lines",
                            "exit status 0 for a closed, checked program needs type safety (C01) to exclude a run-time panic",
                            "benchmark / webserver flags are not modelled"],
            "trusted_extra": ["correspondence: the real `grits` binary built from /repo's working tree vs extracted Cli.cli (extraction: ExtrOcamlBasic, ExtrOcamlString)"]}


def replay(b, path):
    r = json.load(open(path))
    if "args" not in r:
        print("no concrete input:", r.get("no_longer_checks"))
        return 1
    tmp = os.path.join(C.CACHE, "cli")
    os.makedirs(tmp, exist_ok=True)
    p = os.path.join(tmp, "replay.grits")
    if r.get("file_text") is not None:
        open(p, "wb").write(r["file_text"].encode("latin1"))
    else:
        p = os.path.join(tmp, "does_not_exist.grits")
    res = run_real(b.grits, r["args"], p)
    print(res)
    return 0 if same(res, r["expected_by_model"]) else 1
