"""C14 (verdict half) — the typechecker's verdict is unchanged by consistent renaming and by permuting
declarations.  (To be merged into props/C14.py by the lead; runs stand-alone as `bin/check C14_verdict quick`.)
Proof: props/C14_verdict.v (on the declarative judgement, carried to the verdict through C07).
Tie (metamorphic, on the IMPLEMENTATION): verdict(P) = verdict(rho(P)) for
  * typed programs of lib/vlib/proggen.py and their `renamings` (bound channel names per body, process names,
    function names, type names, labels, permuted declarations),
  * every seed / type-level mutant text of the C07 stream (accepted and rejected ones) under the global
    renaming x -> x_r of every identifier that is not a keyword,
and the model agrees with the implementation on all of them."""
import json
import random
import re
import time

from .. import common as C
from .. import suite as S
from .. import textgen as T
from . import C07 as P7

try:
    from .. import proggen as PG
    HAVE_PROGGEN = True
except Exception:                       # noqa: BLE001
    PG = None
    HAVE_PROGGEN = False

PROP = "C14_verdict"
PROP_V = "theories/props/C14_verdict.v"


MODE_SPELLINGS = {"r", "rep", "replicable", "m", "mul", "multicast", "a", "aff", "affine", "l", "lin", "linear"}


def suffix_rename(s, suffix="_r"):
    """rename every identifier that is not a keyword (channels, functions, types, labels alike).  An identifier
    that spells a mode in any letter case is left alone: in annotation position it IS the mode keyword."""
    out = []
    for t in P7.tokens(s):
        out.append(t + suffix if P7.is_ident(t) and t.lower() not in MODE_SPELLINGS else t)
    return "".join(out)


def build_pairs(tier, seed):
    n_gen, n_ty = (250, 2500) if tier == "quick" else (8000, 60000)
    pairs = []          # (id, kind, text, variant_text)
    rng = random.Random(seed + 3)
    if HAVE_PROGGEN:
        for j in range(n_gen):
            try:
                p = PG.gen_program(rng, tier, closed=(j % 5 != 0), want_terminating=False)
                for n, (vt, _pm) in enumerate(PG.renamings(rng, p, 2)):
                    pairs.append(("g%d.%d" % (j, n), "proggen:renaming+permutation", p.text, vt))
            except Exception:  # noqa: BLE001
                continue
    seeds = [(i, t) for i, k, t in T.stream(seed, 0, 0)]
    for i, t in seeds:
        pairs.append(("s:" + i, "seed:suffix", t, suffix_rename(t)))
    # name-confusion shapes (every assignment of a small pool of names to the binders and uses of a skeleton) and the
    # declaration-level shapes, each against its image under the global renaming: collisions are preserved, so the verdict
    # must be; and implementation and model must agree on both
    from .. import smallprogs as SP
    from .. import declshapes as DS
    for i, k, t in SP.stream(seed + 2, None):
        pairs.append((i, "small:suffix", t, suffix_rename(t)))
    for i, k, t in DS.stream():
        pairs.append((i, "decl:suffix", t, suffix_rename(t)))
    for j in range(n_ty):
        i, s = rng.choice(seeds)
        kind, t = P7.type_mutate(rng, s)
        pairs.append(("y%d" % j, "ty:" + kind + ":suffix", t[:6000], suffix_rename(t[:6000])))
    return pairs


def run(b, ps, tier, seed):
    pairs = build_pairs(tier, seed)
    cases = []
    for i, k, a, v in pairs:
        cases.append((i + "/a", k, a))
        cases.append((i + "/b", k, v))
    violations = []
    t0 = time.time()
    impl, model, mism = ({}, {}, [])
    if not b.probe_error and not b.model_error:
        impl, model, mism = S.correspond(b, "tc", cases, project=P7.first_word, timeout=3000)
    dt = time.time() - t0
    bad = []
    verd = {}
    nontrivial = set()
    for i, k, a, v in pairs:
        va, vb = P7.first_word(impl.get(i + "/a", "MISSING")), P7.first_word(impl.get(i + "/b", "MISSING"))
        key = "%s->%s" % (va, vb)
        verd.setdefault(k.split(":")[0], {}).setdefault(key, 0)
        verd[k.split(":")[0]][key] += 1
        if va in ("ACCEPT", "REJECT") and a != v:
            nontrivial.add(a)
        if va != vb:
            bad.append((i, k, a, v, va, vb))
    for i, k, a, v, va, vb in bad[:3]:
        violations.append(C.Violation(
            "verdict changes under renaming / permutation: %s vs %s on %s (%s)" % (va, vb, i, k),
            {"property": "C14", "kind": "verdict-not-invariant", "input_hex": a.encode("latin1", "replace").hex(),
             "variant_hex": v.encode("latin1", "replace").hex(), "input_text": a[:3000], "variant_text": v[:3000],
             "verdict": va, "variant_verdict": vb, "replay_cmd": "bin/check C14_verdict --replay <this file>"}))
    if mism and not bad:
        i, k, t, a, m = mism[0]
        violations.append(C.Violation(
            "implementation and model disagree on %d texts of the renaming stream (e.g. %s: %s vs %s)" % (len(mism), i, a[:40], m[:40]),
            {"property": "C14", "kind": "model-divergence", "input_hex": t.encode("latin1", "replace").hex(), "input_text": t[:3000],
             "implementation": a[:200], "model": m[:200]}))
    cov = {
        "evaluations": len(cases),
        "distinct_nontrivial": len(nontrivial),
        "rule": "pairs (P, rho P): proggen typed programs with proggen.renamings (names of all four kinds renamed consistently, "
                "declarations permuted); seeds and type-level mutants of the C07 stream with every non-keyword identifier suffixed by _r. "
                "Non-trivial = P parses (verdict ACCEPT or REJECT) and rho P differs from P as a text; counted distinct by P",
        "samples": [{"id": i, "kind": k, "text": a[:200], "variant": v[:200], "impl": impl.get(i + "/a", "")[:8], "impl_variant": impl.get(i + "/b", "")[:8]}
                    for i, k, a, v in pairs[:2] + pairs[-2:]],
        "verdict_pairs_by_stream": verd,
        "pairs": len(pairs),
        "verdict_changes": len(bad),
        "model_mismatches": len(mism),
        "proggen_available": HAVE_PROGGEN,
        "suite_wall_s": round(dt, 1),
    }
    return {"violations": violations, "known": [], "coverage": cov,
            "assumptions": [
                "closed theorems: renaming of channel identifiers and function names (bijective), permutation of function / process / "
                "assumed-name declarations; renaming of type names and labels and permutation of type definitions are proved relative to a "
                "type-equality relation decided by EqualType (C08) that is invariant under the renaming / depends on the environment through lookups",
                "the theorem renames channel identifiers by ONE map for the whole program; proggen renames bound names per body (covered by the test, "
                "not literally by the theorem statement)"],
            "trusted_extra": ["metamorphic run on the real ParseString + Typecheck (probe tc)"]}


def replay(b, path):
    r = json.load(open(path))
    if "input_hex" not in r:
        print("no concrete input in this replay file")
        return 1
    a = bytes.fromhex(r["input_hex"]).decode("latin1")
    v = bytes.fromhex(r.get("variant_hex", r["input_hex"])).decode("latin1")
    res = S.run_tool(b.probe, "tc", [("a", "", a), ("b", "", v)], timeout=60)
    print("program:", res.get("a", "MISSING")[:80])
    print("variant:", res.get("b", "MISSING")[:80])
    return 0 if P7.first_word(res.get("a", "A")) == P7.first_word(res.get("b", "B")) else 1
