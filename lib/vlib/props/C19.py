"""C19 — runs are isolated.  Proof over Host.host_runs (outcomes in any history = outcomes alone;
leftover goroutines print nothing).  Tie (`seq` suite): histories of programs — accepted, rejected,
unparseable, repeated — are run inside ONE real OS process (`probe seq`), each program's stdout
captured separately, and compared with the same program run alone in a fresh process and with the
model."""
import collections
import concurrent.futures
import json
import os
import random

from .. import common as C
from .. import runsuite as R
from .. import suite as S
from .. import textgen as T

PROP = "C19"
PROP_V = "theories/props/C19.v"
MODEL_AREAS = ('front', 'tc', 'run')


def pool(seed, tier):
    progs = R.candidate_programs(seed, tier)           # closed programs (accepted or not)
    extra = [("bad:syntax", "prc[a"), ("bad:illegal", "prc[a] : 1 = close self @"), ("bad:type", "prc[a] : 1 * 1 = close self"),
             ("bad:noncontractive", "type A = A\nlet f(b : A) : A = fwd self b\n"),
             ("bad:tworec", "type A = +{l : A}\ntype B = +{l : B}\nlet g(x : A) : B = fwd self x\nprc[a] : 1 = print t; close self"),
             ("bad:dupfun", "let f() : 1 = close self\nlet f() : 1 = close self\n"),
             ("ok:empty", "")]
    return progs + extra


def seq_run(b, hist, timeout_ms):
    res = S.run_tool(b.probe, "seq", [(str(k), "", t) for k, (_, t) in enumerate(hist)], timeout=120 + len(hist) * 5, extra_args=[str(timeout_ms)])
    out = []
    for k in range(len(hist)):
        v = res.get(str(k), "MISSING")
        f = v.split("\t")
        out.append((f[0].split(" ")[0], sorted(x for x in (f[1] if len(f) > 1 else "").split(",") if x)))
    return out


def run(b, ps, tier, seed):
    violations = []
    if b.probe_error or b.model_error:
        return {"violations": [], "coverage": {"evaluations": 1, "distinct_nontrivial": 2, "samples": ["(not run: build broken)"]}}
    rng = random.Random(seed)
    pl = pool(seed, tier)
    n_hist, hlen = (16, (5, 9)) if tier == "quick" else (300, (5, 40))
    hists = []
    for _ in range(n_hist):
        k = rng.randint(*hlen)
        h = [rng.choice(pl) for _ in range(k)]
        if rng.random() < 0.7 and len(h) > 2:       # repeats
            h[rng.randrange(len(h))] = h[0]
        hists.append(h)
    tmo = 250 if tier == "quick" else 350
    # alone: every distinct program in its own fresh process (a history of length one)
    distinct = {}
    for h in hists:
        for i, t in h:
            distinct[t] = i

    def alone(t):
        return t, seq_run(b, [("x", t)], tmo)[0]
    alone_res = {}
    with concurrent.futures.ThreadPoolExecutor(max_workers=8) as ex:
        for t, r in ex.map(alone, list(distinct)):
            alone_res[t] = r
    # model: verdict class and prints of each distinct program
    cases = [(str(k), "", t) for k, t in enumerate(distinct)]
    mres = S.run_tool(b.model, "run-async-0", cases, timeout=1200)
    model_res = {}
    for k, t in enumerate(distinct):
        m = R.parse_model_line(mres.get(str(k), "MISSING"))
        tag = {"RAN": "RAN", "REJECT": "REJECT", "REJECT-INTERNAL": "REJECT", "PARSE-ERR": "PARSE-ERR"}.get(m["tag"], m["tag"])
        model_res[t] = (tag, sorted(m["prints"]))

    def one(h):
        return h, seq_run(b, h, tmo)
    checked, deviations, artefacts = 0, 0, 0
    verdicts = collections.Counter()
    with concurrent.futures.ThreadPoolExecutor(max_workers=6) as ex:
        for h, got in ex.map(one, hists):
            for k, ((i, t), g) in enumerate(zip(h, got)):
                checked += 1
                verdicts[g[0]] += 1
                want = alone_res[t]
                if g == want and (want == model_res[t] or model_res[t][0] in ("OUTOFFUEL",)):
                    continue
                # timer-based quiescence: re-run the history (and the program alone) generously before counting
                g2 = seq_run(b, h, 1200)[k]
                w2 = seq_run(b, [("x", t)], 1200)[0]
                if g2 == w2 and (w2 == model_res[t] or model_res[t][0] == "OUTOFFUEL"):
                    artefacts += 1
                    continue
                deviations += 1
                if len(violations) < 5:
                    violations.append(C.Violation(
                        "program %d (%s) of a history behaves differently than alone: in history %s, alone %s, model %s" % (k, i, g2, w2, model_res[t]),
                        {"property": PROP, "kind": "history-dependence", "index": k, "history": [{"id": a, "text": x} for a, x in h],
                         "in_history": g2, "alone": w2, "model": model_res[t], "replay_cmd": "bin/check C19 --replay <this file>"}))
    cov = {
        "evaluations": checked,
        "distinct_nontrivial": len(distinct),
        "rule": "histories of %d..%d programs drawn from the closed programs of the run suite (accepted and rejected) plus unparseable / non-contractive / empty ones, with repeats; each history runs inside one OS process (`probe seq`), each program also alone; non-trivial = distinct program texts" % hlen,
        "samples": [[i for i, _ in h] for h in hists[:3]],
        "histories": len(hists), "verdicts_in_histories": dict(verdicts),
        "deviations_confirmed": deviations, "cut_short_by_timer_then_ok_on_rerun": artefacts,
    }
    return {"violations": violations, "known": [], "coverage": cov,
            "assumptions": ["memory and CPU consumed by leaked goroutines are not modelled",
                            "the host model has no shared state by construction: that the code has none is what this correspondence checks",
                            "quiescence detection by timer: deviations are re-run with a longer timeout before they count"],
            "trusted_extra": ["correspondence: `probe seq` (one OS process per history, per-program stdout capture) vs the same programs alone vs the extracted model"]}


def replay(b, path):
    r = json.load(open(path))
    if "history" not in r:
        print("no concrete input:", r.get("no_longer_checks"))
        return 1
    h = [(x["id"], x["text"]) for x in r["history"]]
    k = r["index"]
    g = seq_run(b, h, 1200)[k]
    w = seq_run(b, [h[k]], 1200)[0]
    print("in history:", g, "alone:", w)
    return 0 if g == w else 1
