"""C19 — runs are isolated.  Proof over Host.host_runs (outcomes in any history = outcomes alone;
leftover goroutines print nothing) and over HostGlobals.ghost_runs (a host whose state includes the package-level
variables of the Go program: isolated provided the table of their uses has no mutating row outside init-time code).
Tie 1 (translator): gen/Globals.v — every package-level var and every use of one, regenerated from the Go source with
go/ast + go/types on every run; theorem C19_globals_immutable is re-checked over it; when it breaks, diag/C19Diag.v names
the variable and the function, `probe globals lines` the file:line, and the `seq` stages below (with more histories)
look for a concrete history.  Tie 2 (`seq` suite): histories of programs — accepted, rejected,
unparseable, repeated — are run inside ONE real OS process (`probe seq`), each program's stdout
captured separately, and compared with the same program run alone in a fresh process and with the
model."""
import collections
import concurrent.futures
import json
import os
import random
import re

from .. import common as C
from .. import runsuite as R
from .. import suite as S
from .. import textgen as T

PROP = "C19"
PROP_V = "theories/props/C19.v"
MODEL_AREAS = ('front', 'tc', 'run')


GLOBALS_FILES = ("theories/gen/Globals.v", "theories/GlobalsDefs.v", "theories/GlobalsDiscipline.v",
                 "theories/proofs/GlobalsProofs.v")


def globals_diag(b):
    """when the table theorem no longer compiles: the offending rows, computed in Coq, with their source positions"""
    if not os.path.exists(os.path.join(C.COQ, "theories/GlobalsDiscipline.vo")):
        return None
    rc, out, err = C.run(["coqc", "-Q", os.path.join(C.COQ, "theories"), "Grits", "-o", os.path.join(C.CACHE, "C19Diag.vo"),
                          os.path.join(C.COQ, "theories/diag/C19Diag.v")], timeout=300)
    txt = " ".join((out + err).split())
    rep = {}
    for m in re.finditer(r'= \("([A-Z]+)", (\[.*?\])\) : ', txt):
        rows = [tuple(re.findall(r'"([^"]*)"', r)) for r in re.findall(r'\(+("[^()]*)\)', m.group(2))]
        rep[m.group(1)] = rows
    if not any(rep.values()):
        return None
    # source positions of the offending uses
    rc, out, err = C.run([b.probe, "globals", "lines"], timeout=600)
    where = collections.defaultdict(list)
    for l in out.split("\n"):
        f = l.split("\t")
        if len(f) == 7:
            where[tuple(f[:5])].append(f[6])
    rep["positions"] = {"%s.%s in %s.%s (%s)" % r: where.get(tuple(r), []) for r in rep.get("OFFENDING", []) + rep.get("FOREIGN", []) if len(r) == 5}
    return rep


def globals_stats():
    try:
        t = open(os.path.join(C.GEN, "Globals.v")).read()
    except FileNotFoundError:
        return {}
    return {"globals_table_vars": t.count("mkGvar "), "globals_table_vars_pipeline": len(re.findall(r"mkGvar [^\n]* true[;\]]", t)),
            "globals_table_use_rows": t.count("mkGuse "),
            "globals_table_use_kinds": {k: len(re.findall(r"mkGuse [^\n]* %s (?:true|false)" % k, t)) for k in ("URead", "UIndexRead", "UWrite", "UEscape")},
            "globals_table_rule": "every package-level var of every package of the module (non-test files, build tag verif) and every identifier that go/types resolves to one, exhaustive"}


def pool(seed, tier):
    progs = R.candidate_programs(seed, tier)           # closed programs (accepted or not)
    extra = [("bad:syntax", "prc[a"), ("bad:illegal", "prc[a] : 1 = close self @"), ("bad:type", "prc[a] : 1 * 1 = close self"),
             ("bad:noncontractive", "type A = A\nlet f(b : A) : A = fwd self b\n"),
             ("bad:tworec", "type A = +{l : A}\ntype B = +{l : B}\nlet g(x : A) : B = fwd self x\nprc[a] : 1 = print t; close self"),
             ("bad:dupfun", "let f() : 1 = close self\nlet f() : 1 = close self\n"),
             ("ok:empty", "")]
    # related programs: a generated program followed by variants of it that keep the declared names but
    # change a type definition / a mode / a label (so that anything remembered about a NAME from an
    # earlier program would be wrong for the later one)
    related = []
    try:
        from .. import proggen
        rng = random.Random(seed + 5)
        for k in range(12 if tier == "quick" else 150):
            try:
                pr = proggen.gen_program(rng, size="quick", closed=True, want_terminating=True)
                ms = [m for m in proggen.mutants(rng, pr, 24) if m[0].startswith("type-") or m[0].startswith("change-mode") or "label" in m[0]]
            except Exception:
                continue
            grp = [("rel%d:base" % k, pr.text)] + [("rel%d:%s" % (k, m[0]), m[1]) for m in ms[:4]]
            related.append(grp)
    except ImportError:
        pass
    pool.related = related
    return progs + extra


def redef_histories():
    """histories in which a later program re-uses the NAMES of an earlier one with different definitions: type names
    (compared with a structure, with another name, recursively, under modes), function names (other signature / other
    body), labels, process names.  `good` is accepted and prints; `bad` differs from it in ONE definition and is rejected
    (or prints something else).  Anything remembered per name across programs - an equality once proved or refuted, a
    signature, a mode, a polarity - shows as a verdict or output that differs from the program run alone."""
    fams = []
    main = "prc[m] : 1 = print ok; close self\n"
    tys = [("+{done : 1}", "+{other : 1}"), ("1 * 1", "1"), ("&{go : 1}", "&{go : 1, stop : 1}"), ("1 -* 1", "1 * 1"),
           ("+{l : 1, r : 1}", "+{l : 1}"), ("lin /\\ lin 1", "lin 1")]
    for k, (s1, s2) in enumerate(tys):
        mk = lambda d: "type B = %s\nlet f(a : %s) : B = fwd self a\n" % (d, s1) + main
        fams.append(("name-struct%d" % k, mk(s1), mk(s2)))
        mk2 = lambda d: "type A = %s\ntype B = %s\nlet f(a : A) : B = fwd self a\n" % (s1, d) + main
        fams.append(("name-name%d" % k, mk2(s1), mk2(s2)))
    fams.append(("rec", "type A = +{l : A, e : 1}\ntype B = +{l : B, e : 1}\nlet f(a : A) : B = fwd self a\n" + main,
                 "type A = +{l : A, e : 1}\ntype B = +{l : B, e : 1 * 1}\nlet f(a : A) : B = fwd self a\n" + main))
    fams.append(("rec-phase", "type A = +{l : +{l : A}}\ntype B = +{l : B}\nlet f(a : A) : B = fwd self a\n" + main,
                 "type A = +{l : +{k : A}}\ntype B = +{l : B}\nlet f(a : A) : B = fwd self a\n" + main))
    fams.append(("mode", "type B = lin 1\nlet f(a : lin 1) : B = fwd self a\n" + main, "type B = aff 1\nlet f(a : lin 1) : B = fwd self a\n" + main))
    fams.append(("sig", "let g() : 1 = close self\nprc[m] : 1 = x <- new g(); wait x; print ok; close self\n",
                 "let g() : 1 * 1 = a : 1 <- new close self; b : 1 <- new close self; send self<a, b>\nprc[m] : 1 = x <- new g(); wait x; print ok; close self\n"))
    fams.append(("sig-arity", "let g(a : 1) : 1 = wait a; close self\nprc[m] : 1 = y : 1 <- new close self; x <- new g(y); wait x; print ok; close self\n",
                 "let g() : 1 = close self\nprc[m] : 1 = y : 1 <- new close self; x <- new g(y); wait x; print ok; close self\n"))
    fams.append(("body", "let g() : 1 = print one; close self\nprc[m] : 1 = x <- new g(); wait x; print ok; close self\n",
                 "let g() : 1 = print two; close self\nprc[m] : 1 = x <- new g(); wait x; print ok; close self\n"))
    fams.append(("label", "type C = +{a : 1, b : 1}\nlet g() : C = u : 1 <- new close self; self.a<u>\nprc[m] : 1 = x <- new g(); case x (a<u> => wait u; print isa; close self | b<u> => wait u; print isb; close self)\n",
                 "type C = +{a : 1, b : 1}\nlet g() : C = u : 1 <- new close self; self.b<u>\nprc[m] : 1 = x <- new g(); case x (a<u> => wait u; print isa; close self | b<u> => wait u; print isb; close self)\n"))
    fams.append(("polarity", "type P = 1 * 1\nlet g() : P = a : 1 <- new close self; b : 1 <- new close self; send self<a, b>\nprc[m] : 1 = x <- new g(); <u, w> <- recv x; wait u; wait w; print ok; close self\n",
                 "type P = 1 -* 1\nlet g() : P = <a, w> <- recv self; wait a; close w\nprc[m] : 1 = x <- new g(); u : 1 <- new close self; r : 1 <- new send x<u, self>; wait r; print ok; close self\n"))
    # residue of a program that was REJECTED half-way through its checks (alias cycles, an undefined name, duplicate
    # labels, a mode clash): a later program uses the same names in a well-formed way, the re-used name in the FIRST
    # definition, as a bare alias and inside a structure
    rejected = [("cycle2", "type A = B\ntype B = A\n"), ("cycle1", "type A = A\n"), ("cycle3", "type A = B\ntype B = C\ntype C = A\n"),
                ("undefined", "type A = B * 1\n"), ("duplabel", "type A = +{l : 1, l : B}\ntype B = 1\n"),
                ("modeclash", "type A = lin (1 * B)\ntype B = aff 1\n")]
    later = [("alias-first", "type X = A\ntype A = 1\ntype B = 1\ntype C = 1\n"), ("alias-b", "type A = B\ntype B = 1\n"),
             ("alias-c", "type B = C\ntype C = 1\n"), ("struct", "type A = B * 1\ntype B = 1\n"), ("selfrec", "type A = +{l : A, e : 1}\n")]
    for rn, rt in rejected:
        for ln, lt in later:
            fams.append(("residue-%s-%s" % (rn, ln), lt + main, rt + main))
    out = []
    for name, good, bad in fams:
        g, bd = ("redef:%s:good" % name, good), ("redef:%s:bad" % name, bad)
        out.append([bd, g, bd, g, bd])
        out.append([g, bd, g])
    return out


def _related_groups():
    return getattr(pool, "related", [])


def seq_run(b, hist, timeout_ms, sub="seq"):
    res = S.run_tool(b.probe, sub, [(str(k), "", t) for k, (_, t) in enumerate(hist)], timeout=120 + len(hist) * 5, extra_args=[str(timeout_ms)])
    out = []
    for k in range(len(hist)):
        v = res.get(str(k), "MISSING")
        f = v.split("\t")
        out.append((f[0].split(" ")[0], sorted(x for x in (f[1] if len(f) > 1 else "").split(",") if x), f[2] if len(f) > 2 else "?"))
    return out


BARE = [("bare:hello", "print hello; close self"), ("bare:two", "print one; print two; close self"),
        ("bare:cut", "x : 1 <- new close self; wait x; print bare; close self")]
LATE = [("late:illegal", "prc[a] : 1 = print leaked; close self\n$"), ("late:nul", "prc[a] : 1 = print leaked; close self\n\x00"),
        ("late:illegal-defs", "type T = 1\nlet f() : T = print leakedf; close self\nprc[a] : T = print leaked; close self\n@ @"),
        ("late:syntax", "prc[a] : 1 = print leaked; close self\nprc["), ("late:comment", "prc[a] : 1 = print leaked; close self\n/* open"),
        ("late:exec", "let f() : 1 = print leakedf; close self\nexec f()\n#")]


def nc_histories(rng, safe):
    """host pattern `seqnc` (the CLI's --notypecheck): programs that are one bare expression, preceded by programs that
    fail late - after complete statements have been read - and by accepted programs; only texts that are safe to run
    unchecked (accepted closed programs, bare expressions) ever reach the interpreter here"""
    hs = []
    for l in LATE:
        for b in BARE:
            hs.append([l, b])
            hs.append([b, l, b, l, b])
    for _ in range(6):
        pool = safe + BARE + LATE
        hs.append([rng.choice(pool) for _ in range(rng.randint(4, 8))])
    return hs


def strander(n, m):
    """an accepted OPEN program that leaves n*m goroutines blocked for ever (dropping an assumed name sends on a nil channel)"""
    names = ["x%d" % i for i in range(n * m)]
    lines = ["type A = affine 1", "assuming " + ", ".join("%s : A" % x for x in names)]
    for i in range(n):
        lines.append("prc[a%d] : A = %sprint dropped; close self" % (i, "".join("drop %s; " % x for x in names[i * m:(i + 1) * m])))
    return "\n".join(lines) + "\n"


def open_histories(tier):
    """host pattern `seqopen`: goroutines stranded by earlier runs accumulate in the host; whatever they hold (slots of a
    pool, a semaphore, a shared table) must not starve a later run"""
    hello = ("ok:hello", "prc[p] : 1 = print hello; close self")
    k, n, m = (12, 20, 50) if tier == "quick" else (40, 20, 50)
    st = ("strander:%dx%d" % (n, m), strander(n, m))
    return [[hello] + [st] * k + [hello, st, hello]]


def cancel_histories():
    """host pattern `seqcancel`: a run that is CANCELLED from outside (the CancelFunc NewRuntimeEnvironment returns to its
    host) while its processes still have internal steps to make, followed by ordinary programs: whatever the cancelled run
    still does must not show up in a later one.  The cancelled program is marked by a leading comment; the probe slows it
    down (15 ms per transition), cancels it after 120 ms and keeps its capture open for a grace period; its own labels
    are not compared (they depend on the timer)."""
    ticks = "; ".join(["print tick"] * 200)
    long1 = ("cancel:prints", "// CANCEL-AFTER\nprc[a] : 1 = %s; close self\n" % ticks)
    spin = ("cancel:callloop", "// CANCEL-AFTER\nlet spin() : 1 = print spin; spin()\nprc[a] : 1 = spin()\n")
    long2 = ("cancel:two", "// CANCEL-AFTER\nprc[a] : 1 = %s; close self\nprc[b] : 1 = %s; close self\n" % (ticks.replace("tick", "ta"), ticks.replace("tick", "tb")))
    cuts = ("cancel:cuts", "// CANCEL-AFTER\nlet unit() : 1 = close self\nprc[a] : 1 = %s close self\n" % " ".join("x%d <- new unit(); wait x%d; print cut;" % (i, i) for i in range(120)))
    hello = ("ok:hello", "prc[p] : 1 = print hello; close self")
    two = ("ok:two", "prc[a] : 1 = wait b; print ok; close self\nprc[b] : 1 = print first; close self")
    call = ("ok:call", "let z() : 1 = print zero; close self\nprc[a] : 1 = n <- new z(); wait n; print got; close self")
    return [[c, hello, two, call, hello] for c in (long1, spin, long2, cuts)] + [[hello, long1, two, spin, call]]


def run(b, ps, tier, seed):
    violations = []
    if b.probe_error or b.model_error:
        return {"violations": [], "coverage": {"evaluations": 1, "distinct_nontrivial": 2, "samples": ["(not run: build broken)"]}}
    rng = random.Random(seed)
    pl = pool(seed, tier)
    n_hist, hlen = (16, (5, 9)) if tier == "quick" else (300, (5, 40))
    # 0. the table of package-level variables: when its theorem broke, name variable + function and search harder
    gdiag = None
    if any(f in ps.broken for f in GLOBALS_FILES) or "Globals.v" in b.gen_errors:
        gdiag = globals_diag(b)
        n_hist *= 3
        C.log("[C19] the table of package-level variables breaks the discipline: %s" % (json.dumps(gdiag)[:1500] if gdiag else "(no diagnosis: the table does not compile)"))
    hists = []
    for _ in range(n_hist):
        k = rng.randint(*hlen)
        h = [rng.choice(pl) for _ in range(k)]
        if rng.random() < 0.7 and len(h) > 2:       # repeats
            h[rng.randrange(len(h))] = h[0]
        grs = _related_groups()
        if grs and rng.random() < 0.6:
            g = rng.choice(grs)
            seq = [g[0]] + [rng.choice(g) for _ in range(rng.randint(2, 4))]
            pos = rng.randrange(len(h) + 1)
            h = h[:pos] + seq + h[pos:]
        hists.append(h)
    hists.extend(redef_histories())
    tmo = 250 if tier == "quick" else 350
    # which accepted closed programs are safe to run unchecked: those the model accepts and runs to the end
    pre = S.run_tool(b.model, "run-async-0", [(str(k), "", t) for k, (_, t) in enumerate(pl)], timeout=1200)
    safe = [pl[k] for k in range(len(pl)) if pre.get(str(k), "").split("\t")[0] == "RAN"]
    plans = [(h, sub) for h in hists for sub in ("seq", "seqre")]
    # unchecked runs lack the annotations the polarized interpreter reads (known finding F19): only programs without
    # forwards / contraction are run that way
    simple = [("ok:hello", "prc[p] : 1 = print hello; close self"),
              ("ok:two", "prc[a] : 1 = wait b; print ok; close self\nprc[b] : 1 = print first; close self"),
              ("ok:call", "let z() : 1 = print zero; close self\nprc[a] : 1 = n <- new z(); wait n; print got; close self")]
    plans += [(h, "seqnc") for h in nc_histories(rng, simple)]
    plans += [(h, "seqopen") for h in open_histories(tier)]
    plans += [(h, "seqcancel") for h in cancel_histories()]
    alone_sub = {"seq": "seq", "seqre": "seq", "seqnc": "seqnc", "seqopen": "seqopen", "seqcancel": "seqcancel"}
    # alone: every distinct program in its own fresh process (a history of length one), under the same host pattern
    distinct = {}
    need_alone = set()
    for h, sub in plans:
        for i, t in h:
            distinct[t] = i
            need_alone.add((alone_sub[sub], t))

    def alone(st):
        return st, seq_run(b, [("x", st[1])], tmo, st[0])[0]
    alone_res = {}
    with concurrent.futures.ThreadPoolExecutor(max_workers=8) as ex:
        for st, r in ex.map(alone, sorted(need_alone)):
            alone_res[st] = r
    # model: verdict class and prints of each distinct program
    cases = [(str(k), "", t) for k, t in enumerate(distinct)]
    mres = S.run_tool(b.model, "run-async-0", cases, timeout=1200)
    model_res = {}
    for k, t in enumerate(distinct):
        m = R.parse_model_line(mres.get(str(k), "MISSING"))
        tag = {"RAN": "RAN", "REJECT": "REJECT", "REJECT-INTERNAL": "REJECT", "PARSE-ERR": "PARSE-ERR"}.get(m["tag"], m["tag"])
        model_res[t] = (tag, sorted(m["prints"]))

    def agrees_with_model(sub, t, w):
        if sub in ("seqnc", "seqopen", "seqcancel"):       # the model is not consulted for unchecked / open runs: history vs alone only
            return True
        return w[:2] == model_res[t] or model_res[t][0] in ("OUTOFFUEL",)

    def one(hs):
        h, sub = hs
        return h, sub, seq_run(b, h, tmo, sub)
    checked, deviations, artefacts = 0, 0, 0
    verdicts = collections.Counter()
    with concurrent.futures.ThreadPoolExecutor(max_workers=6) as ex:
        for h, sub, got in ex.map(one, plans):
            for k, ((i, t), g) in enumerate(zip(h, got)):
                checked += 1
                verdicts[g[0]] += 1
                want = alone_res[(alone_sub[sub], t)]
                if g == want and agrees_with_model(sub, t, want):
                    continue
                # timer-based quiescence: re-run the history (and the program alone) generously before counting
                g2 = seq_run(b, h, 1200, sub)[k]
                w2 = seq_run(b, [("x", t)], 1200, alone_sub[sub])[0]
                if g2 == w2 and agrees_with_model(sub, t, w2):
                    artefacts += 1
                    continue
                deviations += 1
                if len(violations) < 5:
                    violations.append(C.Violation(
                        "program %d (%s) of a history behaves differently than alone: in history %s, alone %s, model %s" % (k, i, g2, w2, model_res[t]),
                        {"property": PROP, "kind": "history-dependence", "index": k, "history": [{"id": a, "text": x} for a, x in h],
                         "in_history": g2, "alone": w2, "model": model_res[t], "host_pattern": sub, "replay_cmd": "bin/check C19 --replay <this file>"}))
    if gdiag and not violations:
        rows = gdiag.get("OFFENDING", []) + gdiag.get("FOREIGN", [])
        what = "; ".join("%s.%s is %s in %s.%s" % (r[0], r[1], {"UWrite": "written", "UEscape": "aliased / escapes"}.get(r[4], r[4]), r[2], r[3]) for r in rows if len(r) == 5)
        what += "".join("; %s.%s has type %s" % r for r in gdiag.get("BADVARS", []) if len(r) == 3)
        violations.append(C.Violation(
            "package-level state that outlives a run: " + what,
            {"property": PROP, "kind": "mutable-package-level-state", "offending": {k: v for k, v in gdiag.items()},
             "no_longer_checks": [{"what": "theorem C19_globals_immutable over gen/Globals.v (premise of C19_isolated_globals)", "detail": what}],
             "note": "none of the %d histories run by this check behaved differently than alone" % len(plans)}, found_input=False))
    cov = {
        "evaluations": checked,
        "distinct_nontrivial": len(distinct),
        "rule": "histories of %d..%d programs drawn from the closed programs of the run suite (accepted and rejected) plus unparseable / non-contractive / empty ones, with repeats; each history runs inside one OS process (`probe seq`), each program also alone; non-trivial = distinct program texts" % hlen,
        "samples": [[i for i, _ in h] for h in hists[:3]],
        "histories": len(plans), "host_patterns": ["seqcancel: a run cancelled from outside while its processes still have internal steps, then ordinary programs", "seqnc: typechecking skipped (--notypecheck), bare-expression programs after late parse failures", "seqopen: accepted open programs that strand goroutines, repeated, then ordinary programs", "seq: a fresh RuntimeEnvironment per program (as the repository's tests and benchmark driver do)", "seqre: ONE RuntimeEnvironment re-used through InitializeProcesses"], "verdicts_in_histories": dict(verdicts),
        "deviations_confirmed": deviations, "cut_short_by_timer_then_ok_on_rerun": artefacts,
    }
    cov.update(globals_stats())
    return {"violations": violations, "known": [], "coverage": cov,
            "assumptions": ["memory and CPU consumed by leaked goroutines are not modelled",
                            "Host.host_runs has no shared state by construction; HostGlobals.ghost_runs has the package-level variables as state and is isolated because the regenerated table has no mutating row: what the table cannot see is state behind standard-library calls (flag, log, math/rand, os.Setenv), state reachable from a re-used RuntimeEnvironment (suite seqre), reflection / unsafe / linkname; third-party packages are not loaded (calls into them are classified by callee name)",
                            "the instrumented pipeline of HostGlobals is assumed to be the model when started from the initial store: that is the correspondence of every suite (one fresh process per program)",
                            "quiescence detection by timer: deviations are re-run with a longer timeout before they count"],
            "trusted_extra": ["translator `probe globals` (go/ast + go/types; syntactic classification of uses, conservative: what it cannot classify counts as a write)",
                              "correspondence: `probe seq` (one OS process per history, per-program stdout capture) vs the same programs alone vs the extracted model"]}


def replay(b, path):
    r = json.load(open(path))
    if "history" not in r:
        print("no concrete input:", r.get("no_longer_checks"))
        return 1
    h = [(x["id"], x["text"]) for x in r["history"]]
    k = r["index"]
    g = seq_run(b, h, 1200, r.get("host_pattern", "seq"))[k]
    w = seq_run(b, [h[k]], 1200)[0]
    print("in history:", g, "alone:", w)
    return 0 if g == w else 1
