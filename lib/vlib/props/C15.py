"""C15 — printed types (and self-style terms) are unambiguous: print then parse is the identity.

Proof (coq/theories/props/C15.v): the reference reader of the type sub-language (tokenizer +
precedence climbing) inverts `print_type` on every mode-uniform type, hence String() is injective
up to the modes it does not print.  Tie, on every run:
  * Go's String / StringWithModality / StringWithOuterModality are compared byte for byte with
    the model's printers on seeded pools of types (same generator as C08);
  * Go's String() output is fed back through the REAL parser and mode inference (`type Rt = <head
    mode> <printed>` appended to the environment) and must produce a type with the same dump (this
    is also what ties the reference reader of the theorem to the LALR tables);
  * pairwise: two pool types with the same String() must have the same structure up to the modes
    of non-shift nodes, and the same type when their head modes agree;
  * terms: every process body of the harvested programs (examples, test snippets, corpus) is
    printed with Form.String(), parsed again by the real parser, and must dump identically (modulo
    the explicit polarity annotations String() does not print); model and implementation agree on
    the printed text."""
import json
import re
import time

from .. import common as C
from .. import suite as S
from .. import eqgen as G
from .. import textgen as T
from . import C08 as E

PROP = "C15"
PROP_V = "theories/props/C15.v"

ERASE = re.compile(r"\((N [^ ()]+|1|\*|-o|\+|&) (rep|mul|aff|lin|unset|invalid:[^ ()]*)")


def erase_modes(dump):
    return ERASE.sub(r"(\1", dump)


def head_mode(dump):
    m = re.match(r"\((?:up|dn) [^ ]+ ([^ ]+) ", dump)
    if m:
        return m.group(1)
    m = re.match(r"\((?:N [^ ()]+|1|\*|-o|\+|&) ([^ ()]+)", dump)
    return m.group(1) if m else "?"


def unhex(x):
    return bytes.fromhex(x).decode("latin1")


def entries(d):
    out = []
    for e in d["S"]:
        p = e.split(":")
        out.append([unhex(x) for x in p])
    return out


def type_findings(d):
    """implementation-only checks on one accepted case: round trip and pairwise distinctness"""
    bad = []
    es = entries(d)
    for i, c in enumerate(d["RT"]):
        if c != "1":
            bad.append(("round-trip", i, i, es[i][0] if i < len(es) else ""))
    for i in range(len(es)):
        for j in range(i + 1, len(es)):
            if es[i][0] == es[j][0]:
                di, dj = es[i][3], es[j][3]
                if erase_modes(di) != erase_modes(dj):
                    bad.append(("same-print-different-structure", i, j, es[i][0]))
                elif head_mode(di) == head_mode(dj) and di != dj:
                    bad.append(("same-print-same-head-mode-different-type", i, j, es[i][0]))
    return bad


def self_style(printed):
    return "|self" not in printed and "*" not in printed


def run(b, ps, tier, seed):
    n_cases, pool_max, env_size = (220, 12, 6) if tier == "quick" else (3000, 30, 10)
    stream = list(G.stream(seed + 15, n_cases, pool_max, env_size))
    cases = [(i, k, t) for i, k, t, _ in stream]
    n_mut = 150 if tier == "quick" else 6000
    tcases = [(i, "seed", s) for i, s in T.harvest_seeds()]
    tcases += [(i, k, t) for i, k, t in T.stream(seed + 15, n_mut, 0) if k != "seed"][:n_mut]
    violations = []
    t0 = time.time()
    impl, model, timpl, tmodel = {}, {}, {}, {}
    if not b.probe_error:
        impl = E.run_capped(b.probe, "eq", cases)
        timpl = E.run_capped(b.probe, "formrt", tcases)
    if not b.model_error and not b.probe_error:
        model = E.run_capped(b.model, "eq", cases)
        tmodel = E.run_capped(b.model, "formrt", tcases)
    dt = time.time() - t0
    stats = {"accepted": 0, "types_printed": 0, "round_trips": 0, "same_print_pairs": 0, "string_mismatches": 0,
             "terms_printed": 0, "terms_self_style": 0, "term_round_trips_ok": 0, "programs_parsed": 0}
    distinct_types, samples = set(), []
    find_bad, corr_bad, term_bad, term_corr = [], [], [], []
    for i, k, t in cases:
        a = E.parse_obs(impl.get(i, "MISSING")) if impl else {"cls": "MISSING"}
        if a["cls"] != "OK":
            continue
        stats["accepted"] += 1
        es = entries(a)
        stats["types_printed"] += len(es)
        stats["round_trips"] += len(a["RT"])
        for e in es:
            if len(e[3]) > 12:
                distinct_types.add(e[3])
        for x in type_findings(a):
            find_bad.append((i, k, t, x))
        seen = {}
        for e in es:
            seen[e[0]] = seen.get(e[0], 0) + 1
        stats["same_print_pairs"] += sum(v * (v - 1) // 2 for v in seen.values())
        if model:
            m = E.parse_obs(model.get(i, "MISSING"))
            if m["cls"] != "OK" or m["S"] != a["S"] or m["RT"] != a["RT"]:
                stats["string_mismatches"] += 1
                corr_bad.append((i, k, t, a, m))
        if len(samples) < 3 and k == "gen" and len(es) >= 3:
            samples.append({"id": i, "printed": [{"String": e[0], "StringWithModality": e[1], "StringWithOuterModality": e[2], "dump": e[3]} for e in es[:4]],
                            "round_trip": a["RT"]})
    for i, k, t in tcases:
        o = timpl.get(i, "MISSING") if timpl else "MISSING"
        p = o.split("\t")
        if p[0] != "OK":
            if p[0].split()[0] in ("HANG", "PANIC", "CRASH") and timpl:
                pass  # totality of parsing is C11's business
            continue
        stats["programs_parsed"] += 1
        bits = p[1] if len(p) > 1 else ""
        strs = [unhex(x) for x in p[2].split(" ")] if len(p) > 2 and p[2] else []
        for j, c in enumerate(bits):
            stats["terms_printed"] += 1
            pr = strs[j] if j < len(strs) else ""
            if self_style(pr):
                stats["terms_self_style"] += 1
                if c == "1":
                    stats["term_round_trips_ok"] += 1
                else:
                    term_bad.append((i, k, t, j, pr, c))
        if tmodel and tmodel.get(i, "MISSING") != o:
            term_corr.append((i, k, t, o, tmodel.get(i, "MISSING")))
        if len(samples) < 5 and strs and k == "seed" and len(strs[0]) > 30:
            samples.append({"id": i, "term_printed": strs[0][:300], "round_trip": bits})

    seen_ids = set()
    find_first = []
    for y in find_bad:
        if y[0] not in seen_ids:
            seen_ids.add(y[0])
            find_first.append(y)
    for i, k, t, x in find_first[:3]:
        kind = x[0]

        def pred(txt, _kind=kind):
            d = E.parse_obs(E.one(b, b.probe, txt))
            return d["cls"] == "OK" and any(y[0] == _kind for y in type_findings(d))
        small = E.shrink_case(b, t, pred)
        d2 = E.parse_obs(E.one(b, b.probe, small))
        again = [y for y in type_findings(d2) if y[0] == kind] if d2["cls"] == "OK" else []
        if not again:
            small, again = t, [x]
        E.keep_in_corpus(small)
        violations.append(C.Violation(
            "printing is ambiguous (%s) on case %s, queries Q%d / Q%d: %r" % (kind, i, again[0][1], again[0][2], again[0][3][:80]),
            {"property": PROP, "kind": kind, "pair": [again[0][1], again[0][2]], "printed": again[0][3], "input_text": small,
             "input_hex": small.encode("latin1", "replace").hex(), "replay_cmd": "bin/check C15 --replay <this file>"}))
    for i, k, t, j, pr, c in term_bad[:3]:
        violations.append(C.Violation(
            "a self-style process term does not print to text that parses back to it (case %s, process %d): %r" % (i, j, pr[:100]),
            {"property": PROP, "kind": "term-round-trip", "process": j, "printed": pr, "result": c, "input_text": t[:4000],
             "input_hex": t.encode("latin1", "replace").hex(), "replay_cmd": "bin/check C15 --replay <this file>"}))
    unproven = []
    for i, k, t, a, m in corr_bad[:3]:
        # the model's printers are what the theorem speaks about: a byte difference means the
        # proof no longer covers the code; look for a concrete ambiguity first (done above)
        diff = None
        if m.get("cls") == "OK":
            for x, y in zip(a["S"], m["S"]):
                if x != y:
                    diff = {"impl": [unhex(z) for z in x.split(":")][:3], "model": [unhex(z) for z in y.split(":")][:3]}
                    break
            if diff is None and a["RT"] != m["RT"]:
                diff = {"impl_round_trip": a["RT"], "model_round_trip": m["RT"]}
        unproven.append({"what": "printers: model vs implementation differ on case %s" % i, "detail": json.dumps(diff)[:1500], "input_text": t[:1500]})
    for i, k, t, o, mo in term_corr[:3]:
        unproven.append({"what": "term printer: model vs implementation differ on case %s" % i, "detail": (o[:300] + " || " + mo[:300]), "input_text": t[:1500]})
    if unproven and not violations:
        violations.append(C.Violation("the model's printers no longer match the code on %d cases" % (len(corr_bad) + len(term_corr)),
                                      {"property": PROP, "kind": "unproven", "no_longer_checks": unproven}, found_input=False))
    cov = {
        "evaluations": len(cases) + len(tcases),
        "distinct_nontrivial": len(distinct_types),
        "rule": "types: the pools of query types of the C08 generator (recursive / aliased / shifted / left- and right-nested / all four modes; "
                "<= %d per environment) printed by the three real printers and by the model's, then String() parsed back by the real parser "
                "under the head mode; non-trivial = distinct structural dump longer than a leaf.  terms: every process body of the "
                "programs harvested from /repo (examples, test snippets) and seeded mutants of them that still parse" % pool_max,
        "samples": samples,
        "stats": stats,
        "printer_mismatches_model_vs_impl": len(corr_bad) + len(term_corr),
        "ambiguities_found": len(find_bad) + len(term_bad),
        "suite_wall_s": round(dt, 1),
    }
    return {"violations": violations, "known": [], "coverage": cov,
            "assumptions": ["StringWithModality is compared byte for byte but not claimed to be parseable (its output is not in the grammar)",
                            "that the reference reader of the theorem (spec/TypeReader.v) and the LALR parser agree on printed types is validated by the round trip through the real parser on every run, not proved",
                            "terms: `self`-style means the printed text contains no `x|self` and no anonymous `*` name; explicit polarities and type annotations are not printed by String() and are ignored in the comparison (as EqualForm does)"],
            "trusted_extra": ["correspondence: probe eq / formrt (harness/typeseq.go) vs extracted model (coq/extract/drv_eq.ml)",
                              "extraction: ExtrOcamlBasic, ExtrOcamlString"]}


def replay(b, path):
    r = json.load(open(path))
    if "input_hex" not in r:
        print("no concrete input in this replay file:", r.get("no_longer_checks"))
        return 1
    t = bytes.fromhex(r["input_hex"]).decode("latin1")
    if r.get("kind") == "term-round-trip":
        o = S.run_tool(b.probe, "formrt", [("x", "", t)], timeout=60).get("x", "MISSING")
        print("implementation:", o[:300])
        p = o.split("\t")
        return 1 if p[0] == "OK" and len(p) > 1 and any(c != "1" for c in p[1]) else 0
    d = E.parse_obs(E.one(b, b.probe, t))
    print("implementation:", d.get("cls"), d.get("RT"))
    if d["cls"] != "OK":
        return 0
    bad = type_findings(d)
    print("findings:", bad[:5])
    return 1 if bad else 0
