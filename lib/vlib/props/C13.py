"""C13 — data-race freedom (partial by nature).  Proof: every field of RuntimeEnvironment / Monitor
follows a synchronisation discipline, over the access table regenerated from process/*.go (go/ast).
Validation and source of replays: `-race` builds of the probe over the run suite (3 modes x monitor
on/off, including the API calls a driver makes after completion)."""
import json
import os
import re

from .. import common as C
from .. import runsuite as R

PROP = "C13"
PROP_V = "theories/props/C13.v"
MODEL_AREAS = ('front', 'tc', 'run')
NEED_MODEL = True


def diag(b):
    if not os.path.exists(os.path.join(C.COQ, "theories/SharedDiscipline.vo")):
        return None
    rc, out, err = C.run(["coqc", "-Q", os.path.join(C.COQ, "theories"), "Grits", "-o", os.path.join(C.CACHE, "C13Diag.vo"),
                          os.path.join(C.COQ, "theories/diag/C13Diag.v")], timeout=300)
    txt = " ".join((out + err).split())
    rep = {}
    for m in re.finditer(r'= \("([A-Z]+)", (\[.*?\])\) : ', txt):
        rep[m.group(1)] = m.group(2)
    return rep


def run(b, ps, tier, seed):
    violations = []
    if b.probe_error or b.model_error:
        return {"violations": [], "coverage": {"evaluations": 1, "distinct_nontrivial": 2, "samples": ["(not run: build broken)"]}}
    # 1. the access-table theorem: when it breaks, name the offending accesses
    offending = None
    if ps.broken:
        rep = diag(b)
        if rep and (rep.get("OFFENDING", "[]") != "[]" or rep.get("UNCLASSIFIED", "[]") != "[]"):
            offending = rep
    # 2. race detector runs
    n = 10 if tier == "quick" else 400
    cfgs = [(m, mon, None, 0) for m in R.MODES for mon in (0, 1)] if tier == "quick" else \
           [(m, mon, g, 0) for m in R.MODES for mon in (0, 1) for g in (2, 16)]
    d = R.collect(b, tier, seed, race=True, max_programs=n, configs=cfgs, timeout_ms=400)
    racy = []
    runs = 0
    for i, t in d.programs:
        for cfg, r in d.impl[i].items():
            runs += 1
            if r.get("races", 0) > 0:
                racy.append((i, t, cfg, r["races"]))
    for i, t, cfg, k in racy[:5]:
        violations.append(C.Violation(
            "the race detector reports %d data race(s) running %s in configuration %s" % (k, i, list(cfg)),
            {"property": PROP, "kind": "data-race", "program_id": i, "program_text": t, "input_hex": R.hexs(t),
             "mode": cfg[0], "monitor": cfg[1], "gomaxprocs": cfg[2], "races": k,
             "offending_accesses_by_discipline": offending, "replay_cmd": "bin/check C13 --replay <this file>"}))
    if offending and not racy:
        violations.append(C.Violation(
            "shared fields are accessed outside their synchronisation discipline: %s" % offending,
            {"property": PROP, "kind": "discipline-broken", "offending": offending,
             "no_longer_checks": [{"what": "theorem C13_discipline_holds over gen/SharedAccess.v", "detail": str(offending)}],
             "note": "no race was exhibited by the race-detector runs of this check"}, found_input=False))
    tbl = open(os.path.join(C.GEN, "SharedAccess.v")).read() if os.path.exists(os.path.join(C.GEN, "SharedAccess.v")) else ""
    cov = R.coverage(d, {"race_detector_runs": runs, "runs_with_races": len(racy),
                         "access_table_rows": tbl.count("mkAccess"),
                         "atomic_rows": tbl.count("KAtomic"), "plain_write_rows": tbl.count("KWrite")})
    cov["rule"] = "access table: every selector of a RuntimeEnvironment/Monitor field in process/*.go (go/ast), exhaustive; race detector: " + cov["rule"]
    return {"violations": violations, "known": [], "coverage": cov,
            "assumptions": ["that the three disciplines imply data-race freedom under the Go memory model is TRUSTED, not proved",
                            "ownership of the Form trees mutated in place (Substitute / CopyForm) is not modelled: covered by the race-detector runs only",
                            "the translator identifies the two structs' values by the package's naming convention (re, m, monitor, .re, .monitor) and builds the call graph by function name (over-approximation)",
                            "the race detector only sees the schedules that actually occur"],
            "trusted_extra": ["translator `probe sharedaccess` (go/ast, syntactic)", "Go race detector (validation and replays only; never counted as a proof obligation)"]}


def replay(b, path):
    r = json.load(open(path))
    if "input_hex" not in r:
        print("no concrete input:", r.get("no_longer_checks") or r.get("offending"))
        return 1
    rp = os.path.join(C.BIN, "probe_race")
    C.go_build_race(C.HARNESS, rp)
    t = bytes.fromhex(r["input_hex"]).decode("latin1")
    res = R.run_impl_once(rp, t, r["mode"], r["monitor"], 400, r.get("gomaxprocs"))
    print("races reported:", res["races"])
    return 1 if res["races"] else 0
