"""C06 — mode independence.  Proof: props/C06.v (every sequent of the derivation of every function,
and the root of every spawned process, is independent; shifts are legal; the root sequent of a
top-level prc is NOT covered: known finding K1, with the refutation witness C06_refuted_prc_root).
Tie: verdict correspondence probe tc / model tc on the text stream and on targeted programs (each of
the 16 mode pairs at function parameter vs result, cut context vs new channel, new channel vs
provider, top-level prc, up/down shift types, cast and shift on both sides), and the extracted
oracle `indoracle` (spec/Oracle.v: indep_program_v) applied to every program the IMPLEMENTATION
accepts.  A violation only at the root of a prc is the K1 shape and is reported as a known finding."""
from .. import lingen as L

PROP = "C06"
PROP_V = "theories/props/C06.v"
MODEL_AREAS = ('front', 'tc', 'lin')


def ok(o):
    return o.startswith("OK")


def run(b, ps, tier, seed):
    if b.probe_error or b.model_error:
        return {"violations": [], "known": [], "coverage": {"evaluations": 1, "distinct_nontrivial": 2, "samples": ["(not run: build broken)"]}}
    violations, known, cov = L.run_property(b, PROP, tier, seed, L.c06_targeted(), "indoracle", ok, known_prefixes=("K1",))
    return {"violations": violations, "known": known, "coverage": cov,
            "assumptions": ["the theorem is about the Gallina model Tc.v/TcTop.v; it speaks about /repo through the verdict correspondence run on every check",
                            "K1: the root sequent of a top-level prc declaration is excluded from the theorem (the implementation does not check it)",
                            "the oracle evaluates the statement on the accepted program returned by the checker MODEL when the model accepts (proved never to flag it: C06_oracle_agrees); when the model rejects, on the declared types completed by AddMissingModalities (Oracle.prepare)"],
            "trusted_extra": ["correspondence: probe tc (links /repo, -tags verif) vs extracted model on the same texts; extraction: ExtrOcamlBasic, ExtrOcamlString",
                              "oracle: coq/extract/Extract_lin.v + drv_lin.ml (indoracle)"]}


def replay(b, path):
    return L.replay_common(b, path, PROP, "indoracle", ok)
