"""C03 — determinism: the printed multiset does not depend on schedule, cores, monitor or
polarized mode (and the non-polarized mode agrees for contraction-free programs).  Tie: all runs of
the real interpreter of one program must print the multiset the model prints (the model's
schedules must agree among themselves)."""
import collections

from .. import common as C
from .. import runsuite as R
from .. import runprops as P

PROP = "C03"
PROP_V = "theories/props/C03.v"


def run(b, ps, tier, seed):
    violations = []
    if b.probe_error or b.model_error:
        return {"violations": [], "coverage": {"evaluations": 1, "distinct_nontrivial": 2, "samples": ["(not run: build broken)"]}}
    d = R.collect(b, tier, seed, **P.settings(tier))
    model_disagree, deviations, artefacts, np_compared = [], 0, 0, 0
    for i, t in d.programs:
        contraction = R.uses_contraction(t)
        ref = P.model_prints(d, i, "async")
        for m in R.MODES:
            if m == "np" and contraction:
                continue
            for sd in d.model[i][m]:
                if P.model_prints(d, i, m, sd) != ref:
                    model_disagree.append((i, m, sd))
        for cfg, r in d.impl[i].items():
            m = cfg[0]
            if r["panic"]:
                continue
            if m == "np":
                if contraction:
                    continue
                np_compared += 1

            def bad(res, ref=ref):
                return collections.Counter(res["prints"]) != ref
            if bad(r):
                r2 = P.confirm(b, t, cfg, bad)
                if r2 is None:
                    artefacts += 1
                    continue
                deviations += 1
                if len(violations) < 5:
                    violations.append(P.violation(PROP, "prints-differ", "printed multiset %s differs from %s" % (sorted(r2["prints"]), sorted(ref.elements())),
                                                  i, t, cfg, {"prints": r2["prints"]}, {"prints": sorted(ref.elements())}))
    if model_disagree and not violations:
        violations.append(C.Violation("the model's own schedules disagree: %s" % model_disagree[:3],
                                      {"property": PROP, "kind": "unproven", "no_longer_checks": [{"what": "model schedules agree (validation of the determinism theorem's model)", "detail": str(model_disagree[:5])}]},
                                      found_input=False))
    cov = R.coverage(d, {"np_runs_compared": np_compared, "deviations_confirmed": deviations, "cut_short_by_timer_then_ok_on_rerun": artefacts,
                         "model_schedules_per_mode": len(next(iter(d.model.values()))["async"]) if d.model else 0})
    return {"violations": violations, "known": [], "coverage": cov, "assumptions": P.COMMON_ASSUMPTIONS, "trusted_extra": P.COMMON_TRUSTED}


def replay(b, path):
    def bad(r, res):
        return collections.Counter(res["prints"]) != collections.Counter(r.get("expected_by_model", {}).get("prints", []))
    return P.replay(b, path, PROP, bad)
