"""C03 — determinism: the printed multiset does not depend on schedule, cores, monitor or
polarized mode (and the non-polarized mode agrees for contraction-free programs).  Tie: all runs of
the real interpreter of one program must print the multiset the model prints (the model's
schedules must agree among themselves)."""
import collections

from .. import common as C
from .. import runsuite as R
from .. import runprops as P
from .. import suite as S

PROP = "C03"
PROP_V = "theories/props/C03.v"
MODEL_AREAS = ('front', 'tc', 'run', 'compat')


def run(b, ps, tier, seed):
    violations = []
    if b.probe_error or b.model_error:
        return {"violations": [], "coverage": {"evaluations": 1, "distinct_nontrivial": 2, "samples": ["(not run: build broken)"]}}
    d = R.collect(b, tier, seed, **P.settings(tier))
    model_disagree, deviations, artefacts, np_compared = [], 0, 0, 0
    for i, t in d.programs:
        contraction = R.uses_contraction(t)
        ref = P.model_prints(d, i, "async")
        for m in R.MODES:
            if m == "np" and contraction:
                continue
            for sd in d.model[i][m]:
                if P.model_prints(d, i, m, sd) != ref:
                    model_disagree.append((i, m, sd))
        for cfg, r in d.impl[i].items():
            m = cfg[0]
            if r["panic"] and d.model[i][m]["0"]["tag"] != "RAN":
                continue                # the model's run dies too: C01's business
            if m == "np":
                if contraction:
                    continue
                np_compared += 1

            def bad(res, ref=ref):
                return collections.Counter(res["prints"]) != ref
            if bad(r):
                r2 = P.confirm(b, t, cfg, bad)
                if r2 is None:
                    artefacts += 1
                    continue
                deviations += 1
                if len(violations) < 5:
                    violations.append(P.violation(PROP, "prints-differ", "printed multiset %s differs from %s" % (sorted(r2["prints"]), sorted(ref.elements())),
                                                  i, t, cfg, {"prints": r2["prints"]}, {"prints": sorted(ref.elements())}))
    # the remaining hypotheses of determinism_partial (I_compat, I_err), evaluated by the extracted
    # check (RuntimeFootprint.exec_check, sound by RuntimeCheckFacts.check_sound) on every ordered
    # pair of enabled choices at every configuration the model visits, per mode and schedule
    hyp = {"configs": 0, "pairs": 0, "bad": 0, "runs": 0}
    hyp_fail = []
    cases = [(i, "", t) for i, t in d.programs]
    seeds = [0, 1, 2, 3] if tier == "quick" else [0, 1, 2, 3, 4, 5, 6, 7]
    for m in ("async", "sync"):
        for sd in seeds:
            res = S.run_tool(b.model, "compat-%s-%d" % (m, sd), cases, timeout=1800)
            for i, t in d.programs:
                f = dict(x.split("=", 1) for x in res.get(i, "").split("\t")[1:] if "=" in x)
                if "configs" not in f:
                    continue
                hyp["runs"] += 1
                hyp["configs"] += int(f["configs"])
                hyp["pairs"] += int(f["pairs"])
                hyp["bad"] += int(f["bad"])
                if int(f["bad"]) > 0:
                    hyp_fail.append((i, m, sd, int(f["bad"]), t))
    # how many of the tested programs are in the syntactic class for which C03 is proved outright
    fjres = S.run_tool(b.model, "fjclass", cases, timeout=600)
    fj_in = sorted(i for i, _ in d.programs if fjres.get(i, "") == "FJ-IN")
    # how many satisfy the static premise init_linear of determinism_typed_core (core fragment, affine, initial forest)
    linres = S.run_tool(b.model, "initlin", cases, timeout=900)
    lin_in = sorted(i for i, _ in d.programs if linres.get(i, "") == "LIN-IN")
    # the premises of determinism_core_accept, computed on the source text (theorem init_linear_accept: they imply init_linear)
    accres = S.run_tool(b.model, "coreaccept", cases, timeout=900)
    acc_in = sorted(i for i, _ in d.programs if accres.get(i, "").startswith("ACC-IN"))
    acc_in_not_lin = sorted(i for i, _ in d.programs if accres.get(i, "") == "ACC-IN\tlin=0")
    lin_not_acc = sorted(i for i, _ in d.programs if accres.get(i, "") == "ACC-OUT\tlin=1")
    # the premises of determinism_all: closed + source test (no empty case, no droppable forward): topo_runs is a theorem
    allres = S.run_tool(b.model, "allaccept", cases, timeout=900)
    all_in = sorted(i for i, _ in d.programs if allres.get(i, "") == "ALL-IN")
    all_out_src = sorted(i for i, _ in d.programs if allres.get(i, "") == "ALL-OUT-SRC")
    all_out_open = sorted(i for i, _ in d.programs if allres.get(i, "") == "ALL-OUT-OPEN")
    # the class for which the non-polarized runs are the synchronous runs (no forward/drop/split, single providers)
    npres = S.run_tool(b.model, "npaccept", cases, timeout=900)
    np_in = sorted(i for i, _ in d.programs if npres.get(i, "") == "NP-IN")
    cfres = S.run_tool(b.model, "npcfree", cases, timeout=900)
    cf_in = sorted(i for i, _ in d.programs if cfres.get(i, "") == "CF-IN")
    lin_out_core = sorted(i for i, t in d.programs if linres.get(i, "") == "LIN-OUT" and not R.uses_contraction(t) and "drop" not in R.strip_comments(t))
    if hyp_fail and not violations:
        i, m, sd, nbad, t = hyp_fail[0]
        violations.append(C.Violation("the independence hypothesis of the determinism theorem fails on a reachable configuration of accepted program %s (mode %s, model schedule %d: %d pairs)" % (i, m, sd, nbad),
                                      {"property": PROP, "kind": "unproven", "program_id": i, "program_text": t, "input_hex": R.hexs(t), "mode": m, "monitor": 0,
                                       "no_longer_checks": [{"what": "I_compat / I_err of determinism_partial hold on the configurations the model visits", "detail": str([(x[0], x[1], x[2], x[3]) for x in hyp_fail[:5]])}]},
                                      found_input=False))
    if model_disagree and not violations:
        violations.append(C.Violation("the model's own schedules disagree: %s" % model_disagree[:3],
                                      {"property": PROP, "kind": "unproven", "no_longer_checks": [{"what": "model schedules agree (validation of the determinism theorem's model)", "detail": str(model_disagree[:5])}]},
                                      found_input=False))
    # storms: many processes printing / calling different functions at the same instant, on all cores; implementation runs
    # only (the expected multiset is the one run of the model), several repetitions per mode
    import collections as _c
    from .. import runshapes as RS
    storm_runs, storm_bad = 0, 0
    sp = RS.storms(True)
    mres = S.run_tool(b.model, "run-async-0", [(i, "", t) for i, t in sp], timeout=600)
    for i, t in sp:
        mm = R.parse_model_line(mres.get(i, "MISSING"))
        if mm["tag"] != "RAN":
            continue
        want = _c.Counter(mm["prints"])
        for mode in ("async", "sync", "np"):
            for rep in range(5 if tier == "quick" else 20):
                r = R.run_impl_once(b.probe, t, mode, 0, 1500, None, wall=120)
                storm_runs += 1
                if _c.Counter(r["prints"]) != want or r["panic"]:
                    r2 = R.run_impl_once(b.probe, t, mode, 0, 4000, None, wall=180)     # generous timer before it counts
                    if _c.Counter(r2["prints"]) != want or r2["panic"]:
                        storm_bad += 1
                        if len(violations) < 5:
                            got = _c.Counter(r2["prints"])
                            violations.append(P.violation(PROP, "printed-multiset", "a storm program prints %s, every schedule of the model prints %s" % (dict(got), dict(want)),
                                                          i, t, (mode, 0, None, 0), {"prints_count": dict(got), "panic": r2["panic"]}, {"prints_count": dict(want)}))
    cov = R.coverage(d, {"storm_runs": storm_runs, "storm_runs_deviating": storm_bad, "np_runs_compared": np_compared, "deviations_confirmed": deviations, "cut_short_by_timer_then_ok_on_rerun": artefacts,
                         "model_schedules_per_mode": len(next(iter(d.model.values()))["async"]) if d.model else 0,
                         "hypothesis_check": {"what": "I_compat and I_err of determinism_partial (any two distinct enabled choices independent; errors stable) evaluated by the extracted, proved-sound check on every ordered pair of enabled choices at every configuration visited by the model, modes async+sync",
                                              "model_runs": hyp["runs"], "configurations": hyp["configs"], "pairs_evaluated": hyp["pairs"], "pairs_failing": hyp["bad"],
                                              "programs_failing": sorted(set(x[0] for x in hyp_fail))[:10]},
                         "typed_core_class": {"what": "tested programs that satisfy init_linear_b (proofs/InitLinear.v, sound for the static premise of determinism_typed_core: no drop/split/multi-name, affine bodies, initial configuration a forest): for these topo_reachable is a theorem and C03 rests only on teq_ok and tc_annotations_typed",
                                              "programs_in_class": len(lin_in), "of": len(d.programs), "ids": lin_in[:12],
                                              "drop_split_free_but_rejected_by_check": lin_out_core[:12]},
                         "np_cfree_class": {"what": "tested programs that satisfy the premises of determinism_np_cfree (proofs/DeterminismNPCfree.v): parsed, accepted, closed, contraction-free source (no split, one provider name per process; forwards and drop allowed): for these all runs of the non-polarized mode agree on completion and on the printed multiset (theorem); the agreement of that multiset with the polarized modes is a theorem only for the sub-class np_plain_class",
                                            "programs_in_class": len(cf_in), "of": len(d.programs), "ids": cf_in[:12]},
                         "np_plain_class": {"what": "tested programs that satisfy the premises of determinism_np_plain / np_polarized_agree_plain (proofs/DeterminismNP.v): closed, all_src_b, no forward / drop / split in the source, one provider name per process: for these the runs of the non-polarized mode ARE the synchronous runs (np_run_sync), so the last clause of C03 holds of them as a theorem; for the other programs Topo along the non-polarized runs is a theorem (topo_runs_np_all) but the agreement of the multisets is covered by the correspondence runs only",
                                            "programs_in_class": len(np_in), "of": len(d.programs), "ids": np_in[:12]},
                         "accepted_all_class": {"what": "tested programs that satisfy the premises of determinism_all / topo_runs_all (proofs/DeterminismAll.v): parsed, accepted, closed (no assumed names), and the SOURCE has no empty case and no droppable forward: for these programs - drop, split, multi-name providers included - Topo along the runs is a theorem (invariant InvX, preserved by every step), so C03 (and the premise topo_runs of C01/C02) holds with no premise about runs",
                                                "programs_in_class": len(all_in), "of": len(d.programs), "ids": all_in[:12],
                                                "accepted_closed_but_source_test_fails": all_out_src[:12],
                                                "accepted_but_open": len(all_out_open)},
                         "accepted_core_class": {"what": "tested programs that satisfy the SOURCE-level premises of determinism_core_accept (parsed, accepted, no assumed names, core_src_b: no drop/split/droppable forward, one provider name per process, no empty case): by init_linear_accept (proofs/InitAccept.v) init_linear of the checker's output is a theorem for them, so C03 holds of them with no premise about runs or about the annotated program",
                                                 "programs_in_class": len(acc_in), "of": len(d.programs), "ids": acc_in[:12],
                                                 "in_class_but_init_linear_b_false": acc_in_not_lin[:12],
                                                 "init_linear_b_true_but_outside_class": lin_not_acc[:12]},
                         "unconditional_class": {"what": "tested programs whose initial configuration is in the fork-join class (fj_cfg_b / fj_funs_b, proofs/ForkJoin.v): for these determinism over all schedules is a theorem with no hypothesis left",
                                                 "programs_in_class": len(fj_in), "of": len(d.programs), "ids": fj_in[:12]}})
    return {"violations": violations, "known": [], "coverage": cov, "assumptions": P.COMMON_ASSUMPTIONS, "trusted_extra": P.COMMON_TRUSTED}


def replay(b, path):
    def bad(r, res):
        return collections.Counter(res["prints"]) != collections.Counter(r.get("expected_by_model", {}).get("prints", []))
    return P.replay(b, path, PROP, bad)
