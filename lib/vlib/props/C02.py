"""C02 — progress: at quiescence nothing is stuck.  Tie: the goroutines alive at quiescence (taken
just before the runtime cancels its context) and what they block on, against the processes the
model has left in its quiescent configuration (senders / receivers)."""
import collections

from .. import common as C
from .. import runsuite as R
from .. import runprops as P

PROP = "C02"
PROP_V = "theories/props/C02.v"
MODEL_AREAS = ('front', 'tc', 'run', 'rtcheck')
POLARIZED = ("async", "sync")


def run(b, ps, tier, seed):
    violations = []
    if b.probe_error or b.model_error:
        return {"violations": [], "coverage": {"evaluations": 1, "distinct_nontrivial": 2, "samples": ["(not run: build broken)"]}}
    d = R.collect(b, tier, seed, **P.settings(tier))
    deviations, load_artefacts, poised = 0, 0, 0
    live_hist = collections.Counter()
    for i, t in d.programs:
        for cfg, r in d.impl[i].items():
            m = cfg[0]
            if m not in POLARIZED or r["panic"]:
                continue
            ml = d.model[i][m]["0"]["live"]
            want = (ml["S"], ml["R"])
            if ml["R"] > 0 or (m == "async" and ml["S"] > 0):
                poised += 1

            def bad(res, want=want):
                c = collections.Counter(res["live"])
                return (c.get("S", 0), c.get("R", 0)) != want or bool(res["panic"])
            live_hist[(m,) + tuple(sorted(collections.Counter(r["live"]).items()))] += 1
            if bad(r):
                r2 = P.confirm(b, t, cfg, bad)
                if r2 is None:
                    load_artefacts += 1
                    continue
                deviations += 1
                if len(violations) < 5:
                    c = collections.Counter(r2["live"])
                    violations.append(P.violation(PROP, "stuck-at-quiescence",
                                                  "goroutines alive at quiescence %s, the model leaves senders=%d receivers=%d" % (dict(c), want[0], want[1]),
                                                  i, t, cfg, {"live": r2["live"], "prints": r2["prints"]}, d.model[i][m]["0"]))
    pcov, not_typed = P.premise_check(b, d, seed, tier)
    if not_typed and not violations:
        violations.append(C.Violation("the premise tc_annotations_typed of the progress theorem fails on an accepted program of the fragment: %s" % [i for i, _ in not_typed[:3]],
                                      {"property": PROP, "kind": "unproven", "no_longer_checks": [{"what": "premise check (static_typed_b on the annotated program)", "detail": not_typed[0][1][:800]}]},
                                      found_input=False))
    # the accepted sets must agree; a program only the real checker accepts is run, and processes blocked at quiescence
    # (or a panic) on it are the concrete failure
    acov, avio = P.accepted_set_check(b, PROP, seed, tier, lambda r: bool(r["panic"]) or any(x in ("S", "R") for x in r["live"]))
    if not violations:
        violations.extend(avio)
    pcov.update(acov)
    cov = R.coverage(d, {"live_sets_seen": {str(k): v for k, v in live_hist.items()},
                         "runs_where_model_leaves_poised_processes": poised,
                         "deviations_confirmed": deviations, "cut_short_by_timer_then_ok_on_rerun": load_artefacts})
    cov.update(pcov)
    return {"violations": violations, "known": [], "coverage": cov,
            "assumptions": P.COMMON_ASSUMPTIONS + ["a top-level negative provider nobody uses is poised (waits for a client that does not exist) and survives quiescence in every mode: the comparison is against the model's precise survivor set"],
            "trusted_extra": P.COMMON_TRUSTED}


def replay(b, path):
    def bad(r, res):
        e = r.get("expected_by_model", {}).get("live", {})
        c = collections.Counter(res["live"])
        return (c.get("S", 0), c.get("R", 0)) != (e.get("S", 0), e.get("R", 0))
    return P.replay(b, path, PROP, bad)
