"""C16 — mode inference is deterministic, complete and annotation-stable.  Proof: props/C16.v
(infer_never_hangs, infer_total, assign_idempotent, infer_deterministic, infer_perm,
infer_annotation_stable over the Gallina model of inferModality / assignUnsetModalities /
SetModalityTypeDef / AddMissingModalities).  Tie: suites `wf` and `wfann` compare the modes in the
dump of every definition / annotation type between the Go probe and the extracted model, and with the
declarative mode assignment of the independent oracle; two metamorphic streams run on the
IMPLEMENTATION: permuting the definitions, and writing every inferred head annotation explicitly."""
import random

from .. import common as C
from .. import suite as S
from .. import typegen as G
from .. import typesuite as TS
from . import C10 as P10

PROP = "C16"
PROP_V = "theories/props/C16.v"
MODEL_AREAS = ('front', 'types')


def spec_check_wf(env, anns, obs):
    c = TS.vclass(obs)
    if c in ("HANG", "PANIC", "CRASH", "MISSING", "EXN"):
        return "violation", "mode inference / the checks do not return: " + obs[:80]
    if c == "PARSE-ERR":
        return "skip", "generated text does not parse"
    if c == "NOT-RUN":
        return "skip", "not run"
    lines = TS.type_lines(obs)
    if c == "OK" and any("unset" in l.split(" ", 2)[2] for l in lines):
        return "violation", "an accepted environment still has a type without a mode: " + str(lines)[:200]
    o = G.oracle(env)
    if o["ok"]:
        if tuple(lines) != tuple(o["dump"]):
            bad = [(a, e) for a, e in zip(lines, o["dump"]) if a != e][:2]
            return "violation", "inferred modes differ from the declarative assignment: %s" % (bad,)
        return "ok", ""
    if TS.f15_shaped(env):
        lo = G.oracle(env, strict_head=False)
        if tuple(lines) == tuple(lo["dump"]) and TS.f15_is_known(PROP):
            return "known", "F15"
        return "violation", "head annotation on a shift: modes are neither the annotated ones nor those of the recorded finding F15"
    return "skip", "ill-formed: the property does not constrain the modes"


def spec_check_ann(env, anns, obs):
    c, got = TS.proj_ann(obs)
    if c in ("HANG", "PANIC", "CRASH", "MISSING", "EXN"):
        return "violation", "AddMissingModalities does not return: " + obs[:80]
    if c != "ANN":
        return "skip", c
    anns = G.ann_order(anns)
    o = G.oracle(env, anns)
    if not o["ok"]:
        return "skip", "environment itself ill-formed"
    lo = G.oracle(env, anns, strict_head=False)
    known = False
    if len(got) != len(o["ann"]):
        return "violation", "number of annotation types differs"
    for (v, d), (ok, exp, why), (lok, lexp, _) in zip(got, o["ann"], lo["ann"]):
        if v == "OK" and "unset" in d:
            return "violation", "an accepted annotation type still has a node without a mode: " + d[:200]
        if ok:
            if d != exp:
                return "violation", "modes of an annotation type differ from the declarative assignment: %s vs %s" % (d[:150], exp[:150])
        elif lok and v == "OK":
            if d == lexp and TS.f15_is_known(PROP):
                known = True
            else:
                return "violation", "head annotation on a shift (annotation type): unexpected modes " + d[:150]
    return ("known", "F15") if known else ("ok", "")


def by_name(lines):
    return {TS.line_modes(l)[0]: l for l in lines}


def metamorphic(b, items, impl, seed):
    """on the implementation only: (a) permute the definitions, (b) write the inferred head annotations"""
    rng = random.Random(seed * 7 + 11)
    perm_cases, ann_cases, meta = [], [], {}
    for i, k, e, _ in items:
        a = impl.get(i, "MISSING")
        if TS.vclass(a) not in ("OK", "REJECT"):
            continue
        names = [n for n, _, _ in e]
        if len(set(names)) == len(names) and len(e) >= 2:
            e2 = list(e)
            rng.shuffle(e2)
            if e2 != e:
                perm_cases.append((i + "#perm", k, G.render(e2)))
                meta[i + "#perm"] = (i, e, e2)
        if len(set(names)) == len(names):
            modes = {TS.line_modes(l)[0]: TS.line_modes(l)[1] for l in TS.type_lines(a)}
            if any(h is None for _, h, _ in e) and all(modes.get(n) in G.MODES for n, h, _ in e if h is None):
                e3 = [(n, h if h is not None else modes[n], bdy) for n, h, bdy in e]
                ann_cases.append((i + "#ann", k, G.render(e3)))
                meta[i + "#ann"] = (i, e, e3)
    out = TS.run_capped(b.probe, "wf", perm_cases + ann_cases, timeout=1200)
    bad = []
    for cid, k, t in perm_cases:
        i, e, e2 = meta[cid]
        a, p = impl[i], out.get(cid, "MISSING")
        if TS.vclass(a) != TS.vclass(p) or by_name(TS.type_lines(a)) != by_name(TS.type_lines(p)):
            bad.append(("permutation", i, k, e, e2, a, p))
    for cid, k, t in ann_cases:
        i, e, e3 = meta[cid]
        a, p = impl[i], out.get(cid, "MISSING")
        if TS.vclass(a) != TS.vclass(p) or (TS.vclass(a) == "OK" and (TS.type_lines(a) != TS.type_lines(p) or TS.unfolds(a) != TS.unfolds(p))):
            bad.append(("explicit-annotation", i, k, e, e3, a, p))
    return len(perm_cases), len(ann_cases), bad


def run(b, ps, tier, seed):
    items, cases = TS.build(seed, tier)
    violations, known = [], []
    impl, model = TS.run_both(b, "wf", cases)
    v1, kn, kex, cnt = TS.analyse(b, PROP, "wf", items, cases, impl, model, TS.proj_c16, spec_check_wf,
                                  lambda e, a: G.render(e)) if impl else ([], 0, "", {})
    violations += v1
    aitems, acases = P10.ann_items(seed, tier)
    aimpl, amodel = TS.run_both(b, "wfann", acases)
    v2, kn2, kex2, cnt2 = TS.analyse(b, PROP, "wfann", aitems, acases, aimpl, amodel, TS.proj_ann_modes, spec_check_ann,
                                     lambda e, a: G.render(e, None, a)) if aimpl else ([], 0, "", {})
    violations += v2
    v3, ncorpus = TS.corpus_check(b, PROP, "wf", TS.proj_c16)
    violations += v3
    # the places where the CHECKER completes an unannotated type (cut annotations on calls and on direct terms, signatures,
    # process types, shifts at the root, re-binding cuts): verdict and the modes written into the annotated program, real
    # checker against the model, on the mode families of lib/vlib/declshapes.py
    ntc = 0
    if impl and not b.probe_error and not b.model_error:
        from .. import declshapes as DS
        from .. import suite as S
        tcases = [(i, k, t) for i, k, t in DS.fam_modes()]
        ntc = len(tcases)
        ti, tm, tmis = S.correspond(b, "tc", tcases, timeout=900)
        for i, k, t, a, m in tmis[:3]:
            violations.append(C.Violation(
                "the checker completes the modes of %s differently from the model: %s vs %s" % (i, a[:60], m[:60]),
                {"property": PROP, "kind": "checker-mode-completion", "input_text": t, "input_hex": t.encode("latin1").hex(),
                 "implementation": a[:400], "model": m[:400]}))
    nperm = nann = 0
    nondet = 0
    if impl:
        # determinism: the same texts once more
        again = TS.run_capped(b.probe, "wf", cases[:400], timeout=600)
        nondet = sum(1 for i, _, _ in cases[:400] if again.get(i) != impl.get(i))
        if nondet:
            i0 = [i for i, _, _ in cases[:400] if again.get(i) != impl.get(i)][0]
            t0 = [t for i, _, t in cases if i == i0][0]
            violations.append(C.Violation("C16: two runs on the same text give different modes (%s)" % i0,
                                          {"property": PROP, "kind": "nondeterministic", "suite": "wf", "input_text": t0,
                                           "input_hex": t0.encode("latin1", "replace").hex(), "first": impl.get(i0, "")[:400], "second": again.get(i0, "")[:400]}))
        nperm, nann, bad = metamorphic(b, items, impl, seed)
        for what, i, k, e, e2, a, p in bad[:4]:
            t1, t2 = G.render(e), G.render(e2)
            violations.append(C.Violation(
                "C16: %s changes the result on %s (%s)" % (what, i, k),
                {"property": PROP, "kind": "metamorphic:" + what, "suite": "wf", "input_text": t1, "input_hex": t1.encode("latin1", "replace").hex(),
                 "variant_text": t2, "variant_hex": t2.encode("latin1", "replace").hex(), "original": a[:500], "variant": p[:500],
                 "replay_cmd": "bin/check C16 --replay <this file>"}))
    known, nknown, known_seen = TS.known_lines(PROP, kn, kn2)
    if impl and cnt.get("parse-err", 0) > 0:
        violations.append(C.Violation("generated type environments no longer parse (%d texts)" % cnt.get("parse-err", 0),
                                      {"property": PROP, "kind": "unproven", "no_longer_checks": [{"what": "generator typegen.py vs the grammar", "detail": "PARSE-ERR on generated text"}]},
                                      found_input=False))
    st = TS.stats(items, cases, impl, model) if impl else {}
    cov = {
        "evaluations": len(cases) + len(acases) + ncorpus + nperm + nann + (400 if impl else 0),
        "distinct_nontrivial": (TS.nontrivial(items, cases, impl) + TS.nontrivial(aitems, acases, {i: "OK" for i, _, _ in acases})) if impl else 0,
        "rule": "same generated environments and annotation-type programs as C10 (typegen.py); compared observable = the mode of every "
                "definition and of every node of its body (dump), for the implementation, the extracted model and the declarative oracle; "
                "+ metamorphic variants on the implementation: one random permutation of the definitions of every environment with >= 2 "
                "distinct names, and every environment re-written with each omitted head annotation replaced by the inferred mode. "
                "Non-trivial = distinct text that parses and has >= 2 definitions or a shift/choice in a body",
        "samples": [{"id": i, "kind": k, "text": t[:200], "impl": impl.get(i, "")[:200]} for i, k, t in cases[20:24] + acases[3:5]] if impl else [],
        "wf_suite": st,
        "wf_counters": dict(cnt) if cnt else {},
        "wfann_counters": dict(cnt2) if cnt2 else {},
        "metamorphic_permutation_cases": nperm,
        "metamorphic_explicit_annotation_cases": nann,
        "rerun_for_determinism": 400 if impl else 0,
        "corpus_cases": ncorpus,
        "known_finding_cases": nknown,
        "known_findings_seen": known_seen,
    }
    return {"violations": violations, "known": known, "coverage": cov,
            "assumptions": [
                "modes are compared after ParseString (SetModalityTypeDef) for definitions and after AddMissingModalities for annotation types of let / assuming / prc; "
                "annotation types of typed cuts are not reached by the probe (unexported fields) but use the same two functions",
                "a head annotation placed directly on a shift is dropped during conversion (F15, known finding): the theorems are about converted types",
                "Go map iteration order is not an input of inferModality (the used-labels set is only tested for membership); the model uses a list",
            ],
            "trusted_extra": ["correspondence: probe wf / wfann vs extracted model (harness/typeswf.go, coq/theories/WFObs.v)",
                              "independent oracle lib/vlib/typegen.py:oracle (declarative mode assignment written from the property text)"]}


def replay(b, path):
    import json
    r = json.load(open(path))
    if "variant_hex" in r:
        t1 = bytes.fromhex(r["input_hex"]).decode("latin1")
        t2 = bytes.fromhex(r["variant_hex"]).decode("latin1")
        a, p = TS.impl_obs(b, "wf", t1), TS.impl_obs(b, "wf", t2)
        print("original:", a[:400])
        print("variant :", p[:400])
        same = TS.vclass(a) == TS.vclass(p) and (by_name(TS.type_lines(a)) == by_name(TS.type_lines(p)) or TS.vclass(a) != "OK")
        return 0 if same else 1
    return TS.replay_generic(b, PROP, path, lambda sub: TS.proj_c16 if sub == "wf" else TS.proj_ann_modes,
                             lambda sub: spec_check_wf if sub == "wf" else spec_check_ann)
