"""C12 — the parser accepts only complete grammatical texts; nothing is silently ignored.
Proof: props/C12.v (scanner coverage, LR soundness over the regenerated tables, declarations
preserved, illegal character at a token boundary => rejection).  Tie: (1) correspondence of
parser.ParseString with the extracted model on the text stream, comparing the PROJECTED observable
accept/reject + list of (declaration kind, names); (2) the stream required by the quantifier: a
character outside the alphabet inserted at EVERY token boundary of every accepted seed program must
make the implementation reject.
Self-test (mutations tried in the worktree; /repo untouched):
  T2  parser.y.go tables (scratch copy via VERIF_REPO): gritsR2[23] := 1 (`expression : CLOSE name`
      pops one symbol) -> proofs/LRSoundInst.v (sound_ok: backward paths no longer spell one
      right-hand side) fails, 95/110 obligations; correspondence: 5 shrunk inputs such as `close self`
      on which the (unmutated) probe and the model built from the mutated tables disagree.
  S2  Scan.v: a block comment ends at the first '/' after ANY '*' (old F16) -> proofs/ScanProofs.v fails
      (and with it ScanCover.v: skip_comment_spec is stated over closes_at_end).
  S3  Expand.v: drop the has_illegal test -> ParseSound.v (accept_consumes_all), IllegalReject.v fail.
  S4  Expand.v: `assuming` names dropped by expand1 -> ExpandProofs.v (expand1_decls) fails.
  S5  Expand.v: exec processes not renumbered -> ExpandProofs.v (expand_exec_decls) fails.
"""
import json
import os
import re
import time

from .. import common as C
from .. import suite as S
from .. import textgen as T

PROP = "C12"
PROP_V = "theories/props/C12.v"
MODEL_AREAS = ('front',)

OUTSIDE = list("@#$~!?\"^`") + ["\x00", "\x7f", "\x80", "\xc3\xa9", "\xff"]
WS = set(" \t\n\v\r")


def deviating_runes():
    """gen/RuneTable.v lists, per context, the groups of non-ASCII runes by the behaviour of the REAL scanner; on a
    tree where the property holds every context has ONE group (theorem C12_rune_sweep_agrees).  Returns the first
    rune of every further group (as UTF-8 bytes in a latin1 string), i.e. runes the scanner no longer treats as
    characters outside the alphabet."""
    try:
        txt = open(os.path.join(C.GEN, "RuneTable.v")).read()
    except OSError:
        return []
    out = []
    for row in re.findall(r"^  \(.*?\[(\(.*)\]\)[;\]]", txt, re.M):
        groups = re.findall(r"\(\[([^\]]*)\], (\d+)%N, (\d+)%N\)", row)
        if len(groups) > 1:
            for sig, n, first in groups:
                if int(first) != 128 and 0x80 <= int(first) <= 0x10FFFF and not (0xD800 <= int(first) <= 0xDFFF):
                    r = chr(int(first)).encode("utf8").decode("latin1")
                    if r not in out:
                        out.append(r)
    return out[:60]
SINGLE = set(">()[]{}.;:|,+*&%")


def is_lab(c):
    return c.isascii() and (c.isalnum() or c in "_'")


def scan_boundaries(t):
    """positions of t at which a call of Scan starts or that lie in the whitespace in front of one
    (never inside a comment; the end of the text only if it is not inside an unterminated comment).
    Mirrors parser/scanner.go; returns (positions, clean) where clean = no illegal byte met."""
    bs, i, n = [], 0, len(t)
    while True:
        bs.append(i)
        while i < n and t[i] in WS:
            i += 1
            bs.append(i)
        if i >= n:
            return bs, True
        c = t[i]
        nxt = t[i + 1] if i + 1 < n else ""
        if c == "/" and nxt == "/":
            j = t.find("\n", i + 2)
            if j < 0:
                return bs, True        # the rest of the text is inside the comment
            i = j + 1
        elif c == "/" and nxt == "*":
            j = t.find("*/", i + 2)
            if j < 0:
                return bs, True
            i = j + 2
        elif c in SINGLE:
            i += 1
        elif c == "=":
            i += 2 if nxt == ">" else 1
        elif c == "<":
            i += 2 if nxt == "-" else 1
        elif c == "-":
            i += 2 if nxt in ("*", "o") else 1
        elif c == "\\" and nxt == "/":
            i += 2
        elif c == "/" and nxt == "\\":
            i += 2
        elif is_lab(c):      # includes '1' followed by label characters, and '1' alone
            i += 1
            while i < n and is_lab(t[i]):
                i += 1
        else:
            return bs, False           # an illegal byte in the seed itself


DECL_RE = [
    (re.compile(r"^type (\S+)"), "type"),
    (re.compile(r"^fun (\S+)"), "fun"),
]


def project(obs):
    """PROJECTED observable: verdict + list of (kind, names) of the declarations of the dump"""
    if obs.startswith("OK"):
        body = obs.split("\t", 1)[1] if "\t" in obs else ""
        decls = []
        for d in body.split(" ;; "):
            d = d.strip()
            if not d:
                continue
            if d.startswith("type "):
                decls.append(("type", d.split(" ")[1]))
            elif d.startswith("fun "):
                decls.append(("fun", d.split(" ")[1]))
            elif d.startswith("assume "):
                m = re.match(r"assume \(n (\S+)", d)
                decls.append(("assume", m.group(1) if m else "?"))
            elif d.startswith("proc "):
                # providers: "proc ((n a - _ _) (n b - _ _)) ..."
                depth, j = 0, 5
                for j in range(5, len(d)):
                    if d[j] == "(":
                        depth += 1
                    elif d[j] == ")":
                        depth -= 1
                        if depth == 0:
                            break
                decls.append(("proc", tuple(re.findall(r"\(n (\S+)", d[5:j + 1]))))
            else:
                decls.append(("?", d[:20]))
        return ("OK", tuple(decls))
    if obs.startswith("ERR"):
        return ("ERR",)
    return (obs.split()[0] if obs.split() else "MISSING",)


def verdict(obs):
    return project(obs)[0]


def grammar_text(b):
    """the grammar recovered from the tables, printed by diag/C12Grammar.v (for the evidence)"""
    rc, out, err = C.run(["coqc", "-Q", os.path.join(C.COQ, "theories"), "Grits", "-o", os.path.join(C.CACHE, "C12Grammar.vo"),
                          os.path.join(C.COQ, "theories/diag/C12Grammar.v")], timeout=300)
    txt = " ".join((out + err).split())
    return re.findall(r'"(\d+\. [^"]*)"', txt)


def shrink_violation(b, text, still):
    return S.shrink_text(text, still) if len(text) < 20000 else text


def run(b, ps, tier, seed):
    violations = []
    t0 = time.time()
    n_mut, n_rand = (1200, 600) if tier == "quick" else (40000, 20000)
    cases = list(T.stream(seed, n_mut, n_rand))
    impl, model, mism = {}, {}, []
    ok_tools = not b.probe_error and not b.model_error
    if ok_tools:
        impl, model, mism = S.correspond(b, "parse", cases, project=project, timeout=1200)
    # (0) grammar drift: the productions recovered from the current tables against the committed reference grammar
    drift_info = None
    try:
        from .. import grammardrift as GD
        dr = GD.drift()
        if dr is not None:
            drift_info = {"new_productions": [str(q) for q in dr["new"]], "removed_productions": [str(q) for q in dr["removed"]], "candidates": len(dr["candidates"])}
            found = 0
            if ok_tools:
                cc = [("drift:%d" % k, "drift", txt) for k, (q, toks, txt) in enumerate(dr["candidates"])]
                ri = S.run_tool(b.probe, "parse", cc, timeout=300)
                for k, (q, toks, txt) in enumerate(dr["candidates"]):
                    if verdict(ri.get("drift:%d" % k, "MISSING")) == "OK" and not GD.earley(dr["ref_prods"], dr["start"], toks):
                        found += 1
                        violations.append(C.Violation(
                            "the parser accepts %r, which is not a sentence of the reference grammar (production %s is not a reference production)" % (txt, q),
                            {"property": PROP, "kind": "accepted-outside-grammar", "input_text": txt, "input_hex": txt.encode("latin1").hex(),
                             "tokens": toks, "production": str(q), "replay_cmd": "bin/check C12 --replay <this file>"}))
            if not found:
                violations.append(C.Violation(
                    "the grammar recovered from the LR tables differs from the reference grammar (new: %s; removed: %s); no accepted non-sentence was constructed" % (dr["new"][:3], dr["removed"][:3]),
                    {"property": PROP, "kind": "unproven", "no_longer_checks": [{"what": "theorem C12_grammar_is_reference (spec/RefGrammar.v)", "detail": str(drift_info)}]}, found_input=False))
    except Exception as e:  # noqa: BLE001
        drift_info = {"error": repr(e)[:300]}
    # (1) correspondence on the projected observable
    for i, k, t, a, m in mism[:5]:
        va, vm = verdict(a), verdict(m)

        def still(x, _b=b):
            r1 = S.run_tool(_b.probe, "parse", [("x", "", x)], timeout=30).get("x", "MISSING")
            r2 = S.run_tool(_b.model, "parse", [("x", "", x)], timeout=30).get("x", "MISSING")
            return project(r1) != project(r2)
        small = shrink_violation(b, t, still)
        if va == "OK" and vm != "OK":
            what = "ParseString accepts a text that the proved model rejects (case %s, %s)" % (i, k)
            kind = "accepts-ungrammatical-or-incomplete-text"
        elif va == "OK" and vm == "OK":
            what = "the declarations of the parsed program differ from the declarations of the text (case %s, %s): impl %s / model %s" % (i, k, project(a)[1][:6], project(m)[1][:6])
            kind = "declarations-differ"
        else:
            what = "ParseString and the model disagree (case %s, %s): impl %s / model %s" % (i, k, va, vm)
            kind = "correspondence"
        violations.append(C.Violation(what, {
            "property": PROP, "kind": kind, "input_hex": small.encode("latin1", "replace").hex(), "input_text": small[:2000],
            "implementation": a[:400], "model": m[:400], "mutation": k, "replay_cmd": "bin/check C12 --replay <this file>"}))
    # (2) insertion of a character outside the alphabet at every token boundary of accepted seeds
    seeds = [(i, t) for i, k, t in cases if k == "seed" and verdict(impl.get(i, "")) == "OK" and verdict(model.get(i, "")) == "OK"]
    ins_cases, per_seed = [], {}
    rot = 0
    for si, t in seeds:
        bs, clean = scan_boundaries(t)
        if not clean:
            continue
        per_seed[si] = len(bs)
        for p in bs:
            chars = OUTSIDE if tier != "quick" else [OUTSIDE[rot % len(OUTSIDE)]]
            rot += 1
            for ch in chars:
                ins_cases.append(("%s@%d:%02x" % (si, p, ord(ch[0])), "insert_outside", t[:p] + ch + t[p:]))
    # (2b) when the rune sweep of the translator found non-ASCII runes that the real scanner no longer treats as
    # illegal (gen/RuneTable.v has a context with several groups; theorem C12_rune_sweep_agrees fails), the same
    # stream is run with those runes: inserted at every boundary, and in place of every single-character token
    dev = deviating_runes()
    n_dev_cases = 0
    if dev:
        for si, t in seeds[:25]:
            bs, clean = scan_boundaries(t)
            if not clean:
                continue
            for p in bs:
                for r in dev:
                    ins_cases.append(("%s@%d:rune%s" % (si, p, r.encode("latin1").hex()), "insert_rune", t[:p] + r + t[p:]))
                    n_dev_cases += 1
                    if p < len(t) and t[p] in SINGLE:
                        ins_cases.append(("%s@%d:sub%s" % (si, p, r.encode("latin1").hex()), "subst_rune", t[:p] + r + t[p + 1:]))
                        n_dev_cases += 1
                if n_dev_cases > 60000:
                    break
    impl_ins = S.run_tool(b.probe, "parse", ins_cases, timeout=2400) if ok_tools and ins_cases else {}
    accepted = [(i, k, t) for i, k, t in ins_cases if verdict(impl_ins.get(i, "MISSING")) != "ERR"]
    # the model must reject all of them (theorem C12_illegal_at_boundary_rejected); it is run on
    # everything the implementation did not reject and on a sample of the rest
    sample = ins_cases[::max(1, len(ins_cases) // 800)] if ins_cases else []
    model_ins = S.run_tool(b.model, "parse", accepted[:200] + sample, timeout=1200) if ok_tools and ins_cases else {}
    model_accepts = [(i, t) for i, _, t in accepted[:200] + sample if verdict(model_ins.get(i, "MISSING")) != "ERR"]
    for i, k, t in accepted[:5]:
        obs = impl_ins.get(i, "MISSING")

        def still2(x, _b=b):
            r1 = S.run_tool(_b.probe, "parse", [("x", "", x)], timeout=30).get("x", "MISSING")
            r2 = S.run_tool(_b.model, "parse", [("x", "", x)], timeout=30).get("x", "MISSING")
            return verdict(r1) != "ERR" and verdict(r2) == "ERR"
        small = shrink_violation(b, t, still2) if verdict(model_ins.get(i, "ERR")) == "ERR" else t
        violations.append(C.Violation(
            "a character outside the alphabet inserted at a token boundary is not rejected (case %s): %s" % (i, obs[:60]),
            {"property": PROP, "kind": "illegal-character-not-rejected", "input_hex": small.encode("latin1", "replace").hex(),
             "input_text": small[:2000], "implementation": obs[:400], "model": model_ins.get(i, "")[:200],
             "replay_cmd": "bin/check C12 --replay <this file>"}))
    if model_accepts:
        violations.append(C.Violation(
            "the model accepts %d texts of the insertion stream: the boundary computation of the check and the scanner model disagree" % len(model_accepts),
            {"property": PROP, "kind": "unproven", "no_longer_checks": [{"what": "insertion stream vs model", "detail": repr(model_accepts[:3])[:1500]}]},
            found_input=False))
    if not ok_tools:
        pass  # bin/check reports the build problem
    dt = time.time() - t0
    kinds = {}
    for _, k, _ in cases:
        k0 = k.split("+")[0]
        kinds[k0] = kinds.get(k0, 0) + 1
    verdicts = {}
    for i, _, _ in cases:
        v = verdict(impl.get(i, "MISSING"))
        verdicts[v] = verdicts.get(v, 0) + 1
    ndecl = {}
    for i, _, _ in cases:
        pr = project(impl.get(i, "MISSING"))
        if pr[0] == "OK":
            for d in pr[1]:
                ndecl[d[0]] = ndecl.get(d[0], 0) + 1
    gram = grammar_text(b) if not ps.broken else []
    cov = {
        "evaluations": len(cases) + len(ins_cases),
        "distinct_nontrivial": len({t for _, k, t in cases if len(t) > 8}) + len({t for _, _, t in ins_cases}),
        "rule": "correspondence stream: every examples/*.grits, every program snippet of the repository's tests, seeded "
                "single/double edits (token insert/delete/duplicate/swap, illegal characters, NUL, truncation, comment "
                "openers/closers, byte replacement), random bytes and token soup; non-trivial = longer than 8 bytes, distinct "
                "by content.  Insertion stream: for every seed accepted by implementation and model, EVERY position at which "
                "a call of Scan starts or that lies in the whitespace before one (never inside a comment), one character "
                "outside the alphabet inserted (quick: rotating through @ # $ ~ ! ? \" ^ ` NUL DEL 0x80 U+00E9 0xFF; thorough: all 14 at every position); "
                "each inserted text is distinct",
        "samples": [{"id": i, "kind": k, "text": t[:100], "impl": str(project(impl.get(i, "")))[:120]} for i, k, t in cases[300:304]] +
                   [{"id": i, "kind": k, "text": t[:100], "impl": impl_ins.get(i, "")[:20]} for i, k, t in ins_cases[1000:1003]],
        "input_kinds": kinds,
        "impl_verdicts": verdicts,
        "declarations_seen": ndecl,
        "correspondence_cases": len(cases),
        "correspondence_mismatches": len(mism),
        "insertion_cases": len(ins_cases),
        "deviating_runes_from_sweep": [r.encode("latin1").hex() for r in dev],
        "deviating_rune_cases": n_dev_cases,
        "insertion_seeds": len(per_seed),
        "insertion_boundaries": sum(per_seed.values()),
        "insertion_not_rejected": len(accepted),
        "insertion_model_checked": len(model_ins),
        "recovered_grammar": gram,
        "suite_wall_s": round(dt, 1),
    }
    cov["grammar_drift"] = drift_info or "none: recovered productions = reference productions (75)"
    return {"violations": violations, "known": [], "coverage": cov,
            "assumptions": ["bufio/utf8 decoding is outside the model (bytes >= 0x80 are one class; validated by the byte-level streams)",
                            "the grammar the theorem speaks about is the one RECOVERED from the LALR tables of parser.y.go (printed in coverage.recovered_grammar); "
                            "it is a superset of the README grammar: untyped prc/let, -o, recv/receive, fwd/forward and a bare expression as a whole program are accepted",
                            "the semantic actions of parser.y are modelled by hand (Actions.v); the tie is the AST-dump correspondence",
                            "the error-recovery loop of the goyacc driver is modelled as abort (no state shifts `error`: checked on the regenerated tables)"],
            "trusted_extra": ["translator translate/lrtables.py (syntactic: array literals and constants of parser.y.go)",
                              "translate/lrcert.py is NOT trusted: its output (edges, weights, right-hand sides) is re-checked in Coq by computation",
                              "translator `probe scantables` (go/ast keyword literals + behavioural dump of the 256 byte classes)",
                              "translator `probe runesweep` (the real scanner executed on every rune U+0080..U+10FFFF alone and on a covering sample in 11 further contexts; gen/RuneTable.v, theorem C12_rune_sweep_agrees)",
                              "correspondence: probe parse vs extracted model on the same texts (extraction: ExtrOcamlBasic, ExtrOcamlString)"]}


def replay(b, path):
    r = json.load(open(path))
    if "input_hex" not in r:
        print("no concrete input in this replay file:", r.get("no_longer_checks"))
        return 1
    t = bytes.fromhex(r["input_hex"]).decode("latin1")
    a = S.run_tool(b.probe, "parse", [("x", "", t)], timeout=60).get("x", "MISSING")
    m = S.run_tool(b.model, "parse", [("x", "", t)], timeout=60).get("x", "MISSING")
    print("implementation:", a[:300])
    print("model (proved): ", m[:300])
    if r.get("kind") == "illegal-character-not-rejected":
        return 0 if verdict(a) == "ERR" else 1
    return 0 if project(a) == project(m) else 1
