"""C11 — parsing is total and prompt.  Proof: scanner termination (structural) and the LR
certificate theorem over the regenerated tables.  Tie: the implementation is run on every text
of the stream under a watchdog; it must never hang or panic, and must agree with the model (which
provably does neither) on whether a result is produced.
Self-test (mutations tried in the worktree; /repo untouched):
  T1  parser.y.go tables (scratch copy via VERIF_REPO): gritsDef[95] := 32 (a state that reduces the
      empty production and returns to itself) -> z3 finds no weights, gen/LRCert.v is empty,
      proofs/LRCertInst.v (cert_ok) fails, 47/68 obligations discharged, the extracted model reports
      HANG on 5 generated texts: `VIOLATION ... no-failing-input-found` (the unmutated probe is fine).
  S1  Scan.v: a single-character token consumes nothing -> proofs/ScanProofs.v (scan1_body_progress) fails.
  S3  Expand.v: drop the has_illegal test -> ParseTotal.v, ParseSound.v, IllegalReject.v fail.
  F28 (real finding) is detected by the growth families: bytes allocated grow by a factor 14-15 for 4x input.
"""
import json
import time

from .. import common as C
from .. import suite as S
from .. import textgen as T

PROP = "C11"
PROP_V = "theories/props/C11.v"
MODEL_AREAS = ('front',)


def outcome_class(obs):
    if obs.startswith("OK"):
        return "result"
    if obs.startswith("ERR"):
        return "result"      # a parse error is a result
    return obs.split()[0]    # HANG / PANIC / CRASH / EXN / MISSING


def rep(n, f, sep):
    return sep.join(f(i) for i in range(n))


# growth families: one construct repeated n times; parsing time must grow (at most) linearly in n
FAMILIES = {
    "decls": lambda n: rep(n, lambda i: "prc[p%d] : 1 = close self" % i, "\n"),
    "types": lambda n: rep(n, lambda i: "type A%d = 1" % i, "\n"),
    "funs": lambda n: rep(n, lambda i: "let f%d() : 1 = close self" % i, "\n"),
    "names": lambda n: "prc[" + rep(n, lambda i: "a%d" % i, ",") + "] : 1 = close self",
    "callargs": lambda n: "prc[a] : 1 = f(" + rep(n, lambda i: "a%d" % i, ",") + ")",
    "params": lambda n: "let f(" + rep(n, lambda i: "a%d : 1" % i, ",") + ") : 1 = close self",
    "assume": lambda n: "assuming " + rep(n, lambda i: "a%d : 1" % i, ","),
    "options": lambda n: "type A = +{" + rep(n, lambda i: "l%d : 1" % i, ",") + "}",
    "branches": lambda n: "prc[a] : 1 = case b (" + rep(n, lambda i: "l%d<x> => close self" % i, "|") + ")",
    "parens": lambda n: "prc[a] : 1 = " + "(" * n + "close self" + ")" * n,
    "prints": lambda n: "prc[a] : 1 = " + "print l; " * n + "close self",
    "tensor": lambda n: "type A = " + " * ".join(["1"] * n),
    "typeleft": lambda n: "type A = " + "(" * n + "1" + " * 1)" * n,
    "label": lambda n: "prc[" + "a" * (8 * n) + "] : 1 = close self",
    "comment": lambda n: "/*" + "* /" * (4 * n) + "*/ prc[a] : 1 = close self",
    "linecomments": lambda n: "// c\n" * (4 * n) + "prc[a] : 1 = close self",
    "whitespace": lambda n: " \n\t" * (8 * n) + "prc[a] : 1 = close self",
    "unterminated": lambda n: "prc[a] : 1 = close self /*" + "x" * (8 * n),
    "illegal_tail": lambda n: "prc[a] : 1 = close self @" + "x y " * (4 * n),
    # F30: a doubling chain of unannotated type definitions (depth grows with log n, capped)
    "typechain": lambda n: "\n".join("type A%d = A%d * A%d" % (i, i + 1, i + 1) for i in range(min(16, 2 * n.bit_length() - 4)))
                           + "\ntype A%d = 1\n" % min(16, 2 * n.bit_length() - 4),
}


def _depth(n):
    return min(18, 2 * n.bit_length() - 4)


def _nest(form, ctx):
    """a term form nested d levels deep (d grows with log n: an exponential cost in the nesting depth shows as a large
    growth factor), in a process with two provider names (expandProcesses computes its free names) or in a function"""
    def body(n):
        d = _depth(n)
        out = []
        for i in range(d):
            if form == "recv":
                out.append("<x%d, y%d> <- recv %s; " % (i, i, "c" if i == 0 else "y%d" % (i - 1)))
            elif form == "split":
                out.append("<x%d, y%d> <- split %s; " % (i, i, "c" if i == 0 else "y%d" % (i - 1)))
            elif form == "case":
                out.append("case %s (l<y%d> => " % ("c" if i == 0 else "y%d" % (i - 1), i))
            elif form == "new":
                out.append("y%d : 1 <- new close self; " % i)
            elif form == "wait":
                out.append("wait z%d; " % i)
        tail = "close self" + (")" * d if form == "case" else "")
        return "".join(out) + tail
    if ctx == "prc2":
        return lambda n: "prc[a, b] : 1 = " + body(n)
    return lambda n: "let f(c : 1) : 1 = " + body(n)


for _f in ("recv", "split", "case", "new", "wait"):
    for _c in ("prc2", "fun"):
        FAMILIES["nest-%s-%s" % (_f, _c)] = _nest(_f, _c)
F30_FAMILIES = {"typechain"}
# F28: families that go through a right-recursive list rule whose action prepends with a full copy
F28_FAMILIES = {"decls", "types", "funs", "names", "callargs", "params", "assume", "options"}


def garbage(rng_seed, n):
    import random
    rng = random.Random(rng_seed)
    return "".join(rng.choice("()[]<>;:,.|+-*&{}1 ax") for _ in range(8 * n))


GROWTH_N = {"quick": 250, "thorough": 2000}


def short_texts():
    """EXHAUSTIVE short texts: every 1-byte text, every 2-byte text over 48 bytes of every lexical class, every 3-byte text over
    16 bytes and every 4-byte text over 9 bytes that start or end tokens (comment openers, shift symbols, arrows, newline,
    NUL, a non-ASCII byte): position bookkeeping at the very beginning / end of the input and lookahead handling of the
    scanner are only exercised by texts this short"""
    import itertools
    out = []
    for b1 in range(256):
        out.append(("short1:%02x" % b1, "short", chr(b1)))
    a2 = [ord(c) for c in "/\\*=<>-+&|{}[]():;,.'_\"!?#$%@^~`1aZ \t\n\r"] + [0, 0x7f, 0x80, 0xc3, 0xff]
    for x in itertools.product(a2, repeat=2):
        out.append(("short2:%02x%02x" % x, "short", "".join(map(chr, x))))
    a3 = [ord(c) for c in "/\\*=<>-1a \n{:"] + [0, 0x80]
    for x in itertools.product(a3, repeat=3):
        out.append(("short3:" + "".join("%02x" % v for v in x), "short", "".join(map(chr, x))))
    a4 = [ord(c) for c in "/\\*<-a \n"] + [0]
    for x in itertools.product(a4, repeat=4):
        out.append(("short4:" + "".join("%02x" % v for v in x), "short", "".join(map(chr, x))))
    return out


def measure_growth(b, tier, only=None):
    """run every family at sizes n and 4n (own probe process per family, 60 s watchdog);
    returns {family: (n, (us, bytes, verdict) at n, (us, bytes, verdict) at 4n, len(text 4n))}"""
    n = GROWTH_N[tier if tier in GROWTH_N else "quick"]
    res = {}
    for fam, g in FAMILIES.items():
        if only is not None and fam not in only:
            continue
        cases = [("%s:%d" % (fam, n), "growth", g(n)), ("%s:%d" % (fam, 4 * n), "growth", g(4 * n))]
        out = S.run_tool(b.probe, "parsetime", cases, timeout=200)
        row = []
        for i, _, _ in cases:
            o = out.get(i, "MISSING").split("\t")
            if len(o) == 3 and o[0].isdigit() and o[1].isdigit():
                row.append((int(o[0]), int(o[1]), o[2]))
            else:
                row.append((None, None, o[0]))
        res[fam] = (n, row[0], row[1], len(cases[1][2]))
    return res


def superlinear(row):
    """Linear growth is a factor 4 from n to 4n.  Criterion (deterministic, independent of the load
    of the machine): the number of BYTES ALLOCATED by one ParseString call grows by more than a
    factor 8 and exceeds 8 MB.  Wall time is recorded too; no result within the 60 s watchdog is
    reported as well.  (A superlinear cost that allocates nothing would show only as a hang.)"""
    n, (t1, a1, v1), (t4, a4, v4), _ = row
    if a1 is None or a4 is None:
        return "no result within the 60 s watchdog (%s / %s)" % (v1, v4)
    if a4 > 8000000 and a4 > 8 * max(a1, 100000):
        return ("memory allocated by one ParseString call grows by a factor %.1f when the input grows by 4 "
                "(%.1f MB -> %.1f MB; wall %.1f ms -> %.1f ms)" % (a4 / max(a1, 1), a1 / 1e6, a4 / 1e6, t1 / 1000, t4 / 1000))
    return None


def type_shapes(seed, tier):
    """ParseString runs mode inference over the type definitions: recursion of a definition through EVERY position of
    every constructor (left and right operand, branch, under a shift), directly, through an alias and through a second
    definition, with no head annotation and with each mode; plus generated type environments (lib/vlib/typegen.py)"""
    out = []
    pos = [("ten-left", "%s * 1"), ("ten-right", "1 * %s"), ("ten-both", "%s * %s"), ("lol-left", "%s -* 1"),
           ("lol-right", "1 -* %s"), ("lol-both", "%s -* %s"), ("plus", "+{l : %s, r : 1}"), ("with", "&{l : %s, r : 1}"),
           ("tree", "+{node : %s * %s, leaf : 1}"), ("nest", "&{l : (%s * 1) -* %s}"), ("self", "%s")]
    def fill(p, x):
        return p % ((x,) * p.count("%s"))
    for m in ["", "rep ", "mul ", "aff ", "lin "]:
        for pn, p in pos:
            body = fill(p, "T")
            b2 = body if not m else m + "(" + body + ")"
            tag = "%s:%s" % (pn, m.strip() or "none")
            out.append(("tshape:direct:" + tag, "typeshape", "type T = %s\nprc[a] : 1 = close self\n" % b2))
            out.append(("tshape:alias:" + tag, "typeshape", "type T = U\ntype U = %s\nprc[a] : 1 = close self\n" % b2))
            out.append(("tshape:mutual:" + tag, "typeshape", "type T = %s\ntype V = %s\nprc[a] : 1 = close self\n" % (fill(p, "V") if not m else m + "(" + fill(p, "V") + ")", b2)))
            out.append(("tshape:three:" + tag, "typeshape", "type T = %s\ntype V = %s\ntype W = %s\n" % (fill(p, "V"), fill(p, "W"), b2)))
        if m:
            mm = m.strip()
            for d, arrow in (("up", "/\\"), ("dn", "\\/")):
                out.append(("tshape:shift:%s:%s" % (d, mm), "typeshape", "type T = %s %s %s T\n" % (mm, arrow, mm)))
                out.append(("tshape:shift-in-choice:%s:%s" % (d, mm), "typeshape", "type T = +{next : %s %s %s T, stop : 1}\n" % (mm, arrow, mm)))
    try:
        from .. import typesuite as TS
        items, cases = TS.build(seed, "quick")
        n = 250 if tier == "quick" else 2000
        out.extend(("tshape:gen:%s" % i, "typeshape-generated", t) for i, k, t in cases[:n])
    except Exception:  # noqa: BLE001
        pass
    return out


def run(b, ps, tier, seed):
    n_mut, n_rand = (1500, 1500) if tier == "quick" else (60000, 60000)
    cases = list(T.stream(seed, n_mut, n_rand))
    cases.append(("big:garbage", "big", garbage(seed, 4000)))
    cases.extend(short_texts())
    cases.extend(type_shapes(seed, tier))
    violations = []
    t0 = time.time()
    impl, model, _ = ({}, {}, [])
    if not b.probe_error:
        impl = S.run_tool(b.probe, "parse", cases, timeout=1200)
    if not b.model_error and not b.probe_error:
        model = S.run_tool(b.model, "parse", cases, timeout=1200)
    dt = time.time() - t0
    bad = [(i, k, t, impl.get(i, "MISSING")) for i, k, t in cases if impl and outcome_class(impl.get(i, "MISSING")) != "result"]
    kinds = {}
    for _, k, _ in cases:
        k0 = k.split("+")[0]
        kinds[k0] = kinds.get(k0, 0) + 1
    for i, k, t, obs in bad[:5]:
        small = t
        if len(t) < 20000:
            def still(x, _b=b):
                r = S.run_tool(_b.probe, "parse", [("x", "", x)], timeout=30)
                return outcome_class(r.get("x", "MISSING")) != "result"
            small = S.shrink_text(t, still)
        violations.append(C.Violation(
            "ParseString does not return a result on input %s (%s): %s" % (i, k, obs[:80]),
            {"property": PROP, "kind": "parse-not-total", "input_hex": small.encode("latin1", "replace").hex(),
             "input_text": small[:2000], "observed": obs[:300], "mutation": k,
             "replay_cmd": "bin/check C11 --replay <this file>"}))
    # promptness: time must grow linearly with the size of one construct
    growth = measure_growth(b, tier) if not b.probe_error else {}
    known_lines, f19, f30 = [], [], []
    kf = {r.get("id"): r for r in C.known_findings(PROP)}
    for fam, row in sorted(growth.items()):
        why = superlinear(row)
        if not why:
            continue
        if fam in F30_FAMILIES and "F30" in kf:
            f30.append("%s: %s" % (fam, why))
            continue
        if fam in F28_FAMILIES and "F28" in kf:
            f19.append("%s: %s" % (fam, why))
            continue
        text = FAMILIES[fam](row[0] * 4)
        violations.append(C.Violation(
            "ParseString is not prompt on the construct family '%s': %s" % (fam, why),
            {"property": PROP, "kind": "superlinear-parse-time", "family": fam, "n": row[0] * 4,
             "input_hex": text.encode("latin1", "replace").hex() if len(text) < 400000 else "", "input_text": text[:300],
             "measured": {"n": list(row[1]), "4n": list(row[2])}, "replay_cmd": "bin/check C11 --replay <this file>"}))
    if f19:
        known_lines.append(kf["F28"].get("line", "known: F28") + " [measured now: " + "; ".join(f19) + "]")
    if f30:
        known_lines.append(kf["F30"].get("line", "known: F30") + " [measured now: " + "; ".join(f30) + "]")
    # model side: by theorem the model never hangs; an EXN / HANG of the model means the model or its
    # fuel is wrong (reported as unproven, not as a failing input)
    model_bad = [(i, model[i]) for i, _, _ in cases if model and outcome_class(model.get(i, "MISSING")) != "result"]
    distinct = len({t for _, _, t in cases})
    cov = {
        "evaluations": len(cases),
        "distinct_nontrivial": len({t for _, k, t in cases if len(t) > 8}),
        "rule": "texts = every examples/*.grits and every program snippet found in the repository's test files, "
                "seeded single/double edits of them (token insert/delete/duplicate/swap, illegal characters, NUL, "
                "truncation, comment openers/closers, byte replacement), random byte strings, token soup, one 32 kB garbage text, "
                "and %d growth families (one construct repeated n and 4n times, n = %d: declarations, name lists, choice options, "
                "branches, nesting, sequences, long labels/comments/whitespace, unterminated comment, illegal tail) measured (bytes allocated by the call - deterministic - and wall time) under a 60 s watchdog; "
                "non-trivial = longer than 8 bytes, distinct by content" % (len(FAMILIES), GROWTH_N[tier if tier in GROWTH_N else "quick"]),
        "samples": [{"id": i, "kind": k, "text": t[:120], "impl": impl.get(i, "")[:60]} for i, k, t in cases[400:406]],
        "input_kinds": kinds,
        "distinct_texts": distinct,
        "impl_outcomes": {c: sum(1 for i, _, _ in cases if outcome_class(impl.get(i, "MISSING")) == c) for c in {outcome_class(v) for v in impl.values()}} if impl else {},
        "model_nonresults": model_bad[:5],
        "growth": {fam: {"n": row[0], "wall_us_n": row[1][0], "wall_us_4n": row[2][0], "alloc_bytes_n": row[1][1], "alloc_bytes_4n": row[2][1],
                         "text_bytes_4n": row[3], "verdict": row[2][2],
                            "superlinear": superlinear(row)} for fam, row in sorted(growth.items())},
        "suite_wall_s": round(dt, 1),
    }
    if model_bad:
        violations.append(C.Violation("the model itself does not produce a result on %d inputs (fuel / model defect)" % len(model_bad),
                                      {"property": PROP, "kind": "unproven", "no_longer_checks": [{"what": "model parse_string totality on generated inputs", "detail": str(model_bad[:3])}]},
                                      found_input=False))
    cov["evaluations"] += 2 * len(growth)
    return {"violations": violations, "known": known_lines, "coverage": cov,
            "assumptions": ["bufio/utf8 decoding is outside the model (bytes >= 0x80 are one class)",
                            "the theorem bounds steps (scanner reads, driver iterations), not time: the cost of one step of the Go code (semantic actions) is measured, "
                            "through growth families at n and 4n: bytes allocated per ParseString call (deterministic; factor > 8 = superlinear), a 60 s watchdog, and a 5 s watchdog per stream input",
                            "the error-recovery loop of the goyacc driver is modelled as abort (no state shifts `error`: checked on the regenerated tables)"],
            "trusted_extra": ["translator translate/lrtables.py (syntactic: array literals and constants of parser.y.go)",
                              "translator `probe scantables` (go/ast keyword literals + behavioural dump of the 256 byte classes)",
                              "correspondence: probe parse vs extracted model on the same texts (extraction: ExtrOcamlBasic, ExtrOcamlString)"]}


def replay(b, path):
    r = json.load(open(path))
    if r.get("kind") == "superlinear-parse-time":
        fam, n = r["family"], r["n"] // 4
        cases = [("a", "", FAMILIES[fam](n)), ("b", "", FAMILIES[fam](4 * n))]
        class _B:
            probe = b.probe
        saved = dict(GROWTH_N)
        GROWTH_N["quick"] = n
        row = measure_growth(_B, "quick", only=[fam])[fam]
        GROWTH_N.update(saved)
        why = superlinear(row)
        print("family %s: n=%d -> %s, 4n -> %s: %s" % (fam, n, row[1], row[2], why or "linear"))
        return 1 if why else 0
    if "input_hex" not in r:
        print("no concrete input in this replay file:", r.get("no_longer_checks"))
        return 1
    t = bytes.fromhex(r["input_hex"]).decode("latin1")
    res = S.run_tool(b.probe, "parse", [("x", "", t)], timeout=60)
    print("implementation:", res.get("x", "MISSING")[:200])
    return 0 if outcome_class(res.get("x", "MISSING")) == "result" else 1
