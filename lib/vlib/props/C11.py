"""C11 — parsing is total and prompt.  Proof: scanner termination (structural) and the LR
certificate theorem over the regenerated tables.  Tie: the implementation is run on every text
of the stream under a watchdog; it must never hang or panic, and must agree with the model (which
provably does neither) on whether a result is produced."""
import json
import time

from .. import common as C
from .. import suite as S
from .. import textgen as T

PROP = "C11"
PROP_V = "theories/props/C11.v"


def outcome_class(obs):
    if obs.startswith("OK"):
        return "result"
    if obs.startswith("ERR"):
        return "result"      # a parse error is a result
    return obs.split()[0]    # HANG / PANIC / CRASH / EXN / MISSING


def big_inputs(rng_seed):
    """large inputs for the promptness part (linear growth): nested parentheses, long label, many
    declarations, long comment, deep type"""
    import random
    rng = random.Random(rng_seed)
    n = 4000
    return [
        ("big:parens", "big", "prc[a] : 1 = " + "(" * n + "close self" + ")" * n),
        ("big:label", "big", "prc[" + "a" * (8 * n) + "] : 1 = close self"),
        ("big:decls", "big", "\n".join("prc[p%d] : 1 = close self" % i for i in range(n))),
        ("big:comment", "big", "/*" + "* /" * (4 * n) + "*/ prc[a] : 1 = close self"),
        ("big:type", "big", "type A = " + " * ".join(["1"] * n)),
        ("big:typeleft", "big", "type A = " + "(" * n + "1" + " * 1)" * n),
        ("big:prints", "big", "prc[a] : 1 = " + "print l; " * n + "close self"),
        ("big:garbage", "big", "".join(rng.choice("()[]<>;:,.|+-*&{}1 ax") for _ in range(8 * n))),
        ("big:unterminated", "big", "prc[a] : 1 = close self /*" + "x" * (8 * n)),
    ]


def run(b, ps, tier, seed):
    n_mut, n_rand = (1500, 1500) if tier == "quick" else (60000, 60000)
    cases = list(T.stream(seed, n_mut, n_rand))
    cases += big_inputs(seed)
    violations = []
    t0 = time.time()
    impl, model, _ = ({}, {}, [])
    if not b.probe_error:
        impl = S.run_tool(b.probe, "parse", cases, timeout=1200)
    if not b.model_error and not b.probe_error:
        model = S.run_tool(b.model, "parse", cases, timeout=1200)
    dt = time.time() - t0
    bad = [(i, k, t, impl.get(i, "MISSING")) for i, k, t in cases if impl and outcome_class(impl.get(i, "MISSING")) != "result"]
    kinds = {}
    for _, k, _ in cases:
        k0 = k.split("+")[0]
        kinds[k0] = kinds.get(k0, 0) + 1
    for i, k, t, obs in bad[:5]:
        small = t
        if len(t) < 20000:
            def still(x, _b=b):
                r = S.run_tool(_b.probe, "parse", [("x", "", x)], timeout=30)
                return outcome_class(r.get("x", "MISSING")) != "result"
            small = S.shrink_text(t, still)
        violations.append(C.Violation(
            "ParseString does not return a result on input %s (%s): %s" % (i, k, obs[:80]),
            {"property": PROP, "kind": "parse-not-total", "input_hex": small.encode("latin1", "replace").hex(),
             "input_text": small[:2000], "observed": obs[:300], "mutation": k,
             "replay_cmd": "bin/check C11 --replay <this file>"}))
    # model side: by theorem the model never hangs; an EXN / HANG of the model means the model or its
    # fuel is wrong (reported as unproven, not as a failing input)
    model_bad = [(i, model[i]) for i, _, _ in cases if model and outcome_class(model.get(i, "MISSING")) != "result"]
    distinct = len({t for _, _, t in cases})
    cov = {
        "evaluations": len(cases),
        "distinct_nontrivial": len({t for _, k, t in cases if len(t) > 8}),
        "rule": "texts = every examples/*.grits and every program snippet found in the repository's test files, "
                "seeded single/double edits of them (token insert/delete/duplicate/swap, illegal characters, NUL, "
                "truncation, comment openers/closers, byte replacement), random byte strings, token soup and 9 large "
                "inputs (up to 32 kB, nesting depth 4000); non-trivial = longer than 8 bytes, distinct by content",
        "samples": [{"id": i, "kind": k, "text": t[:120], "impl": impl.get(i, "")[:60]} for i, k, t in cases[400:406]],
        "input_kinds": kinds,
        "distinct_texts": distinct,
        "impl_outcomes": {c: sum(1 for i, _, _ in cases if outcome_class(impl.get(i, "MISSING")) == c) for c in {outcome_class(v) for v in impl.values()}} if impl else {},
        "model_nonresults": model_bad[:5],
        "suite_wall_s": round(dt, 1),
    }
    if model_bad:
        violations.append(C.Violation("the model itself does not produce a result on %d inputs (fuel / model defect)" % len(model_bad),
                                      {"property": PROP, "kind": "unproven", "no_longer_checks": [{"what": "model parse_string totality on generated inputs", "detail": str(model_bad[:3])}]},
                                      found_input=False))
    return {"violations": violations, "known": [], "coverage": cov,
            "assumptions": ["bufio/utf8 decoding is outside the model (bytes >= 0x80 are one class)",
                            "wall-clock promptness is checked by a 5 s watchdog per input; the theorem bounds steps, not time",
                            "the error-recovery loop of the goyacc driver is modelled as abort (no state shifts `error`: checked on the regenerated tables)"],
            "trusted_extra": ["translator translate/lrtables.py (syntactic: array literals and constants of parser.y.go)",
                              "translator `probe scantables` (go/ast keyword literals + behavioural dump of the 256 byte classes)",
                              "correspondence: probe parse vs extracted model on the same texts (extraction: ExtrOcamlBasic, ExtrOcamlString)"]}


def replay(b, path):
    r = json.load(open(path))
    if "input_hex" not in r:
        print("no concrete input in this replay file:", r.get("no_longer_checks"))
        return 1
    t = bytes.fromhex(r["input_hex"]).decode("latin1")
    res = S.run_tool(b.probe, "parse", [("x", "", t)], timeout=60)
    print("implementation:", res.get("x", "MISSING")[:200])
    return 0 if outcome_class(res.get("x", "MISSING")) == "result" else 1
