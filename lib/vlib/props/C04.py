"""C04 — results and causal order agree with the SAX semantics.  Tie: the labels printed by the real
interpreter are the model's, and their ORDER on stdout is a linear extension of the causal partial
order of the model's run (program order per process, spawn, send-before-receive)."""
import collections

from .. import common as C
from .. import runsuite as R
from .. import runprops as P

PROP = "C04"
PROP_V = "theories/props/C04.v"


def run(b, ps, tier, seed):
    violations = []
    if b.probe_error or b.model_error:
        return {"violations": [], "coverage": {"evaluations": 1, "distinct_nontrivial": 2, "samples": ["(not run: build broken)"]}}
    d = R.collect(b, tier, seed, **P.settings(tier))
    order_checked, deviations, artefacts, nontrivial_orders = 0, 0, 0, 0
    for i, t in d.programs:
        contraction = R.uses_contraction(t)
        for m in R.MODES:
            evs = d.trace[i].get(m)
            if evs is None or (m == "np" and contraction):
                continue
            labels, preds = R.causal_print_order(evs)
            if sum(len(p) for p in preds) > 0 and len(labels) > 1:
                nontrivial_orders += 1
            for cfg, r in d.impl[i].items():
                if cfg[0] != m or r["panic"]:
                    continue
                order_checked += 1

                def bad(res, labels=labels, preds=preds):
                    return not R.is_linear_extension(res["prints"], labels, preds)
                if bad(r):
                    r2 = P.confirm(b, t, cfg, bad)
                    if r2 is None:
                        artefacts += 1
                        continue
                    deviations += 1
                    if len(violations) < 5:
                        what = "printed multiset differs" if collections.Counter(r2["prints"]) != collections.Counter(labels) else "print ORDER violates causality"
                        violations.append(P.violation(PROP, "order-or-result", what + ": observed %s, model prints %s" % (r2["prints"], labels),
                                                      i, t, cfg, {"prints": r2["prints"]}, {"prints": labels, "must_precede": [sorted(p) for p in preds]}))
    cov = R.coverage(d, {"sequences_checked_against_causal_order": order_checked, "runs_with_nontrivial_causal_order": nontrivial_orders,
                         "deviations_confirmed": deviations, "cut_short_by_timer_then_ok_on_rerun": artefacts})
    return {"violations": violations, "known": [], "coverage": cov,
            "assumptions": P.COMMON_ASSUMPTIONS + ["stdout order = order of the fmt.Printf calls (one write per label)"],
            "trusted_extra": P.COMMON_TRUSTED}


def replay(b, path):
    def bad(r, res):
        e = r.get("expected_by_model", {})
        preds = [set(p) for p in e.get("must_precede", [])]
        return not R.is_linear_extension(res["prints"], e.get("prints", []), preds)
    return P.replay(b, path, PROP, bad)
