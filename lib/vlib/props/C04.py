"""C04 — results and causal order agree with the SAX semantics.  Tie: the labels printed by the real
interpreter are the model's, and their ORDER on stdout is a linear extension of the causal partial
order of the model's run (program order per process, spawn, send-before-receive).

The happens-before relation computed by runsuite.causal_print_order is the relation `hb1_py` of
coq/theories/proofs/Causality.v (latest earlier event involving an acting process, latest earlier
send on the received channel); `hb_py_equiv` proves its transitive closure is the `hb` of
`prints_respect_causality`, and `trace_causal_exec` states the linear-extension property for it.

Results half: `saxcheck-<seed>` runs the extracted model in Async mode with the invariant of the SAX
refinement (`inv_b`) checked before every step; where it succeeds (`CHECKED`) the theorem
`prints_admitted_checked` applies to that very run: its labels are printed by an execution of
spec/Sax.v.  The check counts these runs, compares their labels with the uninstrumented model run and
with the real interpreter, and reports every program of the linear fragment on which the invariant
check fails.  `c04premises` evaluates the computable premises of the theorem C04_prints_admitted (closed, init_linear) on every program text: where they hold the theorem covers every run of the
program in the two polarized modes (no run-by-run check needed), and the counts say for how many
programs of the suite that is the case."""
import collections
import re

from .. import common as C
from .. import runsuite as R
from .. import runprops as P
from .. import suite as S

PROP = "C04"
PROP_V = "theories/props/C04.v"
MODEL_AREAS = ('front', 'tc', 'run', 'sax')


def run(b, ps, tier, seed):
    violations = []
    if b.probe_error or b.model_error:
        return {"violations": [], "coverage": {"evaluations": 1, "distinct_nontrivial": 2, "samples": ["(not run: build broken)"]}}
    d = R.collect(b, tier, seed, **P.settings(tier))
    order_checked, deviations, artefacts, nontrivial_orders = 0, 0, 0, 0
    recv_events, recv_unmatched = 0, 0
    # results half: the checked runs of the refinement theorem
    sax = refinement_runs(b, d, tier)
    for v in sax["violations"]:
        if len(violations) < 5:
            violations.append(v)
    for i, t in d.programs:
        contraction = R.uses_contraction(t)
        for m in R.MODES:
            for k, e in enumerate(d.trace[i].get(m) or []):
                if e["recv"] is not None:
                    recv_events += 1
                    if not any(x["send"] == e["recv"] for x in (d.trace[i][m] or [])[:k]):
                        recv_unmatched += 1
        for m in R.MODES:
            evs = d.trace[i].get(m)
            if evs is None or (m == "np" and contraction):
                continue
            labels, preds = R.causal_print_order(evs)
            if sum(len(p) for p in preds) > 0 and len(labels) > 1:
                nontrivial_orders += 1
            for cfg, r in d.impl[i].items():
                if cfg[0] != m:
                    continue
                if r["panic"] and d.model[i][m]["0"]["tag"] != "RAN":
                    continue            # the model's run dies too: C01's business
                order_checked += 1      # a run that dies where the model's does not prints a multiset the semantics does not admit

                def bad(res, labels=labels, preds=preds):
                    return not R.is_linear_extension(res["prints"], labels, preds)
                if bad(r):
                    r2 = P.confirm(b, t, cfg, bad)
                    if r2 is None:
                        artefacts += 1
                        continue
                    deviations += 1
                    if len(violations) < 5:
                        what = "printed multiset differs" if collections.Counter(r2["prints"]) != collections.Counter(labels) else "print ORDER violates causality"
                        violations.append(P.violation(PROP, "order-or-result", what + ": observed %s, model prints %s" % (r2["prints"], labels),
                                                      i, t, cfg, {"prints": r2["prints"]}, {"prints": labels, "must_precede": [sorted(p) for p in preds]}))
    cov = R.coverage(d, {"sequences_checked_against_causal_order": order_checked, "runs_with_nontrivial_causal_order": nontrivial_orders,
                         "deviations_confirmed": deviations, "cut_short_by_timer_then_ok_on_rerun": artefacts,
                         "model_receive_events": recv_events,
                         "model_receive_events_without_earlier_send (receive on a closed channel; recv_has_send's second case)": recv_unmatched,
                         "sax_refinement": sax["coverage"]})
    return {"violations": violations, "known": sax["known"], "coverage": cov,
            "assumptions": P.COMMON_ASSUMPTIONS + ["stdout order = order of the fmt.Printf calls (one write per label)"],
            "trusted_extra": P.COMMON_TRUSTED}


def in_linear_fragment(text):
    t = R.strip_comments(text)
    return not R.uses_contraction(text) and re.search(r"\bdrop\b", t) is None


def refinement_runs(b, d, tier):
    """run `saxcheck-<seed>` (model run with the refinement invariant checked before every step)"""
    seeds = [0, 1] if tier == "quick" else [0, 1, 2, 3]
    cases = [(i, "", t) for i, t in d.programs]
    checked, inv_fail_linear, inv_fail_other, label_mismatch, impl_compared = 0, [], 0, [], 0
    inv_fail_all = set()
    lin = {i: in_linear_fragment(t) for i, t in d.programs}
    violations = []
    for sd in seeds:
        res = S.run_tool(b.model, "saxcheck-%d" % sd, cases, timeout=1800)
        for i, t in d.programs:
            line = res.get(i, "MISSING")
            tag = line.split("\t")[0]
            order = [x for x in line.split("\t")[1:] if x.startswith("order=")]
            order = [y for y in order[0][6:].split(",") if y] if order else []
            if tag == "CHECKED":
                checked += 1
                # the instrumented run is the model's run (prints_admitted_checked, first conjunct)
                ref = d.model[i]["async"].get(str(sd))
                if ref is not None and ref["order"] != order:
                    label_mismatch.append(i)
                # and the real interpreter prints the same multiset in async mode
                for cfg, r in d.impl[i].items():
                    if cfg[0] == "async" and not r["panic"] and r["verdict"] is not None:
                        impl_compared += 1
                        if collections.Counter(r["prints"]) != collections.Counter(order):
                            r2 = P.confirm(b, t, cfg, lambda res, order=order: collections.Counter(res["prints"]) != collections.Counter(order))
                            if r2 is not None:
                                violations.append(P.violation(PROP, "result", "printed multiset is not the one the SAX semantics admits for this run: observed %s, SAX-admitted %s" % (r2["prints"], order),
                                                              i, t, cfg, {"prints": r2["prints"]}, {"prints": order, "must_precede": []}))
            elif tag == "INV-FAIL":
                inv_fail_all.add(i)
                if lin[i]:
                    inv_fail_linear.append(i)
                else:
                    inv_fail_other += 1
    # the premises of C04_prints_admitted (closed, init_linear), evaluated on the text: where they
    # hold the theorem covers EVERY run of the program in the two polarized modes, and the checked run must succeed
    prem = S.run_tool(b.model, "c04premises", cases, timeout=1800)
    prem_ok = {i for i, _ in d.programs if prem.get(i, "").split("\t")[0] == "PREMISES-OK"}
    # the premises of C04_prints_admitted_core: parses, accepted, closed, core_src_b on the SOURCE (init_linear derived)
    core = S.run_tool(b.model, "c04core", cases, timeout=1800)
    core_ok = {i for i, _ in d.programs if core.get(i, "").split("\t")[0] == "CORE-OK"}
    # the premises of C04_prints_admitted_drop: parses, accepted, closed, no split, one provider name per process
    # (drop allowed): every Async run is a run of Sax.v with its structural rules
    dropv = S.run_tool(b.model, "c04drop", cases, timeout=1800)
    drop_ok = {i for i, _ in d.programs if dropv.get(i, "").split("\t")[0] == "DROP-OK"}
    uses_drop = {i for i, t in d.programs if re.search(r"\bdrop\b", R.strip_comments(t))}
    # the premises of C04_prints_admitted_all: parses, accepted, closed, one provider name per declaration
    # (drop AND split allowed): every run in the two polarized modes is a run of Sax.v with its structural rules
    allv = S.run_tool(b.model, "c04all", cases, timeout=1800)
    all_ok = {i for i, _ in d.programs if allv.get(i, "").split("\t")[0] == "ALL-OK"}
    uses_split = {i for i, t in d.programs if re.search(r"\bsplit\b", R.strip_comments(t))}
    split_runs_compared = 0
    for i, t in d.programs:
        if i not in all_ok or i not in uses_split:
            continue
        ref = d.model[i]["async"].get("0")
        if ref is None:
            continue
        for cfg, r in d.impl[i].items():
            if cfg[0] in ("async", "sync") and not r["panic"] and r["verdict"] is not None:
                split_runs_compared += 1
                if collections.Counter(r["prints"]) != collections.Counter(ref["order"]):
                    r2 = P.confirm(b, t, cfg, lambda res, o=ref["order"]: collections.Counter(res["prints"]) != collections.Counter(o))
                    if r2 is not None:
                        violations.append(P.violation(PROP, "result", "run of a program with split prints a multiset the SAX semantics (with contraction) does not admit: observed %s, SAX-admitted %s" % (r2["prints"], ref["order"]),
                                                      i, t, cfg, {"prints": r2["prints"]}, {"prints": ref["order"], "must_precede": []}))
    drop_async_compared = 0
    for i, t in d.programs:
        if i not in drop_ok or i not in uses_drop:
            continue
        ref = d.model[i]["async"].get("0")
        if ref is None:
            continue
        for cfg, r in d.impl[i].items():
            if cfg[0] == "async" and not r["panic"] and r["verdict"] is not None:
                drop_async_compared += 1
                if collections.Counter(r["prints"]) != collections.Counter(ref["order"]):
                    r2 = P.confirm(b, t, cfg, lambda res, o=ref["order"]: collections.Counter(res["prints"]) != collections.Counter(o))
                    if r2 is not None:
                        violations.append(P.violation(PROP, "result", "run of a program with drop prints a multiset the SAX semantics (with weakening) does not admit: observed %s, SAX-admitted %s" % (r2["prints"], ref["order"]),
                                                      i, t, cfg, {"prints": r2["prints"]}, {"prints": ref["order"], "must_precede": []}))
    # the premises of C04_prints_admitted_all2 (one OR TWO provider names per declaration) and of the NP theorems
    # C04_prints_admitted_np_plain / _np_fwd (plain_src_b / fwf_src_b on the source: all three modes)
    all2v = S.run_tool(b.model, "c04all2", cases, timeout=1800)
    all2_ok = {i for i, _ in d.programs if all2v.get(i, "").split("\t")[0] == "ALL2-OK"}
    nppv = S.run_tool(b.model, "c04npplain", cases, timeout=1800)
    npplain_ok = {i for i, _ in d.programs if nppv.get(i, "").split("\t")[0] == "NPPLAIN-OK"}
    npfv = S.run_tool(b.model, "c04npfwd", cases, timeout=1800)
    npfwd_ok = {i for i, _ in d.programs if npfv.get(i, "").split("\t")[0] == "NPFWD-OK"}
    uses_fwd = {i for i, t in d.programs if re.search(r"\bfwd\b", R.strip_comments(t))}
    two_name_runs_compared = 0
    for i, t in d.programs:
        if i not in all2_ok or i in all_ok:
            continue
        ref = d.model[i]["async"].get("0")
        if ref is None:
            continue
        for cfg, r in d.impl[i].items():
            if cfg[0] in ("async", "sync") and not r["panic"] and r["verdict"] is not None:
                two_name_runs_compared += 1
                if collections.Counter(r["prints"]) != collections.Counter(ref["order"]):
                    r2 = P.confirm(b, t, cfg, lambda res, o=ref["order"]: collections.Counter(res["prints"]) != collections.Counter(o))
                    if r2 is not None:
                        violations.append(P.violation(PROP, "result", "run of a program with a two-name declaration prints a multiset the SAX semantics does not admit from sax_init2: observed %s, SAX-admitted %s" % (r2["prints"], ref["order"]),
                                                      i, t, cfg, {"prints": r2["prints"]}, {"prints": ref["order"], "must_precede": []}))
    np_runs_compared = 0
    for i, t in d.programs:
        if i not in npfwd_ok:
            continue
        ref = d.model[i].get("np", {}).get("0")
        if ref is None or "order" not in ref:
            continue
        for cfg, r in d.impl[i].items():
            if cfg[0] == "np" and not r["panic"] and r["verdict"] is not None:
                np_runs_compared += 1
                if collections.Counter(r["prints"]) != collections.Counter(ref["order"]):
                    r2 = P.confirm(b, t, cfg, lambda res, o=ref["order"]: collections.Counter(res["prints"]) != collections.Counter(o))
                    if r2 is not None:
                        violations.append(P.violation(PROP, "result", "non-polarized run prints a multiset the SAX semantics does not admit for this program: observed %s, SAX-admitted %s" % (r2["prints"], ref["order"]),
                                                      i, t, cfg, {"prints": r2["prints"]}, {"prints": ref["order"], "must_precede": []}))
    if (all_ok - all2_ok) or (npplain_ok - npfwd_ok) or (npfwd_ok - all_ok):
        violations.append(C.Violation("the verdicts c04all / c04all2 / c04npplain / c04npfwd are not nested as the theorems say (extraction / driver problem)",
                                      {"property": PROP, "kind": "unproven", "no_longer_checks": [{"what": "c04all2 / c04np*", "detail": str((sorted(all_ok - all2_ok)[:5], sorted(npplain_ok - npfwd_ok)[:5], sorted(npfwd_ok - all_ok)[:5]))}]}, found_input=False))
    prem_ok_not_checked = sorted(i for i in prem_ok if i in inv_fail_all)
    lin_without_premises = sorted(i for i, _ in d.programs if lin[i] and i not in prem_ok)
    sync_compared = 0
    for i, t in d.programs:
        if i not in prem_ok:
            continue
        ref = d.model[i]["async"].get("0")
        if ref is None:
            continue
        for cfg, r in d.impl[i].items():
            if cfg[0] == "sync" and not r["panic"] and r["verdict"] is not None:
                sync_compared += 1
                if collections.Counter(r["prints"]) != collections.Counter(ref["order"]):
                    r2 = P.confirm(b, t, cfg, lambda res, o=ref["order"]: collections.Counter(res["prints"]) != collections.Counter(o))
                    if r2 is not None:
                        violations.append(P.violation(PROP, "result", "synchronous run prints a multiset the SAX semantics does not admit for this program: observed %s, SAX-admitted %s" % (r2["prints"], ref["order"]),
                                                      i, t, cfg, {"prints": r2["prints"]}, {"prints": ref["order"], "must_precede": []}))
    if core_ok - prem_ok:
        violations.append(C.Violation("core_src_b holds but init_linear_b fails (contradicts init_linear_parsed: extraction / driver problem)",
                                      {"property": PROP, "kind": "unproven", "no_longer_checks": [{"what": "c04core vs c04premises", "detail": str(sorted(core_ok - prem_ok)[:5])}]}, found_input=False))
    if prem_ok_not_checked:
        violations.append(C.Violation("premises of C04_prints_admitted hold but the checked run failed (contradicts inv_sax_inv: extraction / driver problem)",
                                      {"property": PROP, "kind": "unproven", "no_longer_checks": [{"what": "c04premises vs saxcheck", "detail": str(prem_ok_not_checked[:5])}]}, found_input=False))
    known = []
    if inv_fail_linear:
        known.append("refinement-invariant check failed on linear-fragment programs (theorem not applicable to them; covered by the correspondence only): %s" % sorted(set(inv_fail_linear))[:10])
    cov = {"schedules": seeds,
           "programs_satisfying_premises_of_C04_prints_admitted (closed, init_linear: every run covered by the theorem, async and sync)": len(prem_ok),
           "programs_satisfying_premises_of_C04_prints_admitted_core (parses, accepted, closed, core_src_b on the source: no premise about the annotated program)": len(core_ok),
           "programs_satisfying_premises_of_C04_prints_admitted_all (one provider name per declaration; drop and split allowed)": len(all_ok),
           "of_which_use_split": len(all_ok & uses_split),
           "programs_satisfying_premises_of_C04_prints_admitted_all2 (one or two provider names per declaration)": len(all2_ok),
           "of_which_have_a_two_name_declaration": len(all2_ok - all_ok),
           "implementation_runs_of_two_name_programs_compared (async+sync)": two_name_runs_compared,
           "programs_satisfying_premises_of_C04_prints_admitted_np_plain (all three modes; no forward/drop/split)": len(npplain_ok),
           "programs_satisfying_premises_of_C04_prints_admitted_np_fwd (all three modes; forwards allowed, no drop/split)": len(npfwd_ok),
           "of_which_use_fwd": len(npfwd_ok & uses_fwd),
           "implementation_np_runs_compared_with_sax_admitted_multiset": np_runs_compared,
           "accepted_programs_outside (multi-name declarations: correspondence only)": sum(1 for i, _ in d.programs if i not in all_ok),
           "implementation_runs_of_split_programs_compared (async+sync)": split_runs_compared,
           "drop_ok_not_all_ok (would contradict the inclusion of the fragments)": sorted(drop_ok - all_ok)[:10],
           "programs_satisfying_premises_of_C04_prints_admitted_drop (weakening fragment: no split, one provider name per process)": len(drop_ok),
           "of_which_use_drop": len(drop_ok & uses_drop),
           "programs_using_drop_outside_that_fragment (split / multi-provider as well: correspondence only)": len(uses_drop - drop_ok),
           "implementation_async_runs_of_drop_programs_compared": drop_async_compared,
           "core_ok_not_drop_ok (would contradict core ⊆ weakening fragment)": sorted(core_ok - drop_ok)[:10],
           "core_ok_but_init_linear_check_fails (would contradict init_linear_parsed)": sorted(core_ok - prem_ok)[:10],
           "init_linear_holds_but_source_not_core (e.g. an empty case)": sorted(prem_ok - core_ok)[:10],
           "linear_fragment_programs_not_satisfying_them (covered by the checked runs and the correspondence only)": lin_without_premises[:20],
           "implementation_sync_runs_compared_with_sax_admitted_multiset": sync_compared,
           "runs_covered_by_prints_admitted_checked": checked,
           "programs_in_linear_fragment": sum(1 for v in lin.values() if v),
           "invariant_check_failed_in_linear_fragment": sorted(set(inv_fail_linear))[:20],
           "invariant_check_failed_outside_fragment (drop/split/multi-provider: expected)": inv_fail_other,
           "instrumented_run_differs_from_model_run": sorted(set(label_mismatch))[:20],
           "implementation_runs_compared_with_sax_admitted_multiset": impl_compared}
    if label_mismatch:
        violations.append(C.Violation("the instrumented model run differs from the model run (extraction / driver problem)",
                                      {"property": PROP, "kind": "unproven", "no_longer_checks": [{"what": "saxcheck", "detail": str(sorted(set(label_mismatch))[:5])}]}, found_input=False))
    return {"violations": violations, "coverage": cov, "known": known}


def replay(b, path):
    def bad(r, res):
        e = r.get("expected_by_model", {})
        preds = [set(p) for p in e.get("must_precede", [])]
        return not R.is_linear_extension(res["prints"], e.get("prints", []), preds)
    return P.replay(b, path, PROP, bad)
