"""C07 — the typing verdict matches the declarative session type system.
Proof: spec/Typing.v (the adjoint semi-axiomatic judgement, Inductive), proofs/TypingSound*.v and
proofs/TypingComplete*.v: the checker MODEL accepts a program iff it is derivable (all 22 rules, both
directions, no bound).  Tie: the verdict of the real typechecker (probe tc) is compared with the verdict
of the extracted model (model tc) on every text of three streams: the repository's own programs, lexical
edits of them, and type-level edits (identifier / label / mode / connective / statement edits that
mostly still parse).  A verdict disagreement is a concrete failing input of C07 — the model's verdict
is provably the declarative one — and is shrunk and reported with the text as replay."""
import json
import random
import re
import time

from .. import common as C
from .. import suite as S
from .. import textgen as T

try:                                    # written by another contributor; optional in this tree
    from .. import proggen as PG        # gen_program(rng, size) -> text, mutants(rng, program, n) -> [(kind, text)]
    HAVE_PROGGEN = True
except Exception:                       # noqa: BLE001
    PG = None
    HAVE_PROGGEN = False

PROP = "C07"
PROP_V = "theories/props/C07.v"

KEYWORDS = {"send", "recv", "receive", "case", "close", "wait", "cast", "shift", "drop", "split", "new", "fwd", "forward",
            "type", "let", "prc", "self", "print", "assuming", "exec", "in", "end", "lin", "aff", "rep", "mul",
            "linear", "affine", "replicable", "multicast", "l", "a", "r", "m"}
MODES = ["lin", "aff", "rep", "mul"]
TOK = re.compile(r"\s+|/\*.*?\*/|//[^\n]*|[A-Za-z_][A-Za-z0-9_']*|[0-9]+|<-|=>|-\*|-o|/\\|\\/|.", re.S)
FORM_WORDS = ["send", "recv", "case", "new", "close", "wait", "fwd", "split", "cast", "shift", "drop", "print", "exec", "assuming"]


def tokens(s):
    return [m.group(0) for m in TOK.finditer(s)]


def is_ident(t):
    return bool(re.match(r"^[A-Za-z_][A-Za-z0-9_']*$", t)) and t not in KEYWORDS


def type_mutate(rng, s):
    """one edit at the level the type system talks about; returns (kind, text)"""
    ts = tokens(s)
    idx_id = [i for i, t in enumerate(ts) if is_ident(t)]
    k = rng.choice(["swap_ident", "swap_ident", "fresh_ident", "self_for_name", "name_for_self", "mode", "connective",
                    "drop_stmt", "dup_stmt", "swap_stmt", "shift_dir", "drop_branch", "swap_args", "del_arg", "unit_for_type"])
    if k == "swap_ident" and len(idx_id) >= 2:
        i, j = rng.sample(idx_id, 2)
        ts[i] = ts[j]
    elif k == "fresh_ident" and idx_id:
        ts[rng.choice(idx_id)] = rng.choice(["zz", "q'", "_w"])
    elif k == "self_for_name" and idx_id:
        ts[rng.choice(idx_id)] = "self"
    elif k == "name_for_self":
        pos = [i for i, t in enumerate(ts) if t == "self"]
        if pos and idx_id:
            ts[rng.choice(pos)] = ts[rng.choice(idx_id)]
    elif k == "mode":
        pos = [i for i, t in enumerate(ts) if t in MODES]
        if pos:
            ts[rng.choice(pos)] = rng.choice(MODES)
        else:
            pos = [i for i, t in enumerate(ts) if t in ("1", "+", "&")]
            if pos:
                p = rng.choice(pos)
                ts[p] = rng.choice(MODES) + " " + ts[p]
    elif k == "connective":
        swap = {"*": "-*", "-*": "*", "+": "&", "&": "+", "/\\": "\\/", "\\/": "/\\"}
        pos = [i for i, t in enumerate(ts) if t in swap]
        if pos:
            p = rng.choice(pos)
            ts[p] = swap[ts[p]]
    elif k in ("drop_stmt", "dup_stmt", "swap_stmt"):
        semis = [i for i, t in enumerate(ts) if t == ";"]
        if len(semis) >= 2:
            a = rng.randrange(len(semis) - 1)
            lo, hi = semis[a] + 1, semis[a + 1] + 1
            seg = ts[lo:hi]
            if k == "drop_stmt":
                ts[lo:hi] = []
            elif k == "dup_stmt":
                ts[lo:hi] = seg + seg
            elif a + 2 < len(semis):
                hi2 = semis[a + 2] + 1
                ts[lo:hi2] = ts[hi:hi2] + seg
    elif k == "shift_dir":
        swap = {"cast": "shift", "send": "recv", "close": "wait", "wait": "close", "drop": "wait", "split": "recv"}
        pos = [i for i, t in enumerate(ts) if t in swap]
        if pos:
            p = rng.choice(pos)
            ts[p] = swap[ts[p]]
    elif k == "drop_branch":
        pos = [i for i, t in enumerate(ts) if t == "|"]
        if pos:
            p = rng.choice(pos)
            q = next((j for j in range(p + 1, len(ts)) if ts[j] in ("|", ")")), None)
            if q:
                ts[p:q] = []
    elif k in ("swap_args", "del_arg"):
        pos = [i for i, t in enumerate(ts) if t == ","]
        if pos:
            p = rng.choice(pos)
            a = next((j for j in range(p - 1, -1, -1) if ts[j].strip()), None)
            b = next((j for j in range(p + 1, len(ts)) if ts[j].strip()), None)
            if a is not None and b is not None:
                if k == "swap_args":
                    ts[a], ts[b] = ts[b], ts[a]
                else:
                    ts[p:b + 1] = []
    elif k == "unit_for_type":
        pos = [i for i, t in enumerate(ts) if t == ":"]
        if pos:
            p = rng.choice(pos)
            b = next((j for j in range(p + 1, len(ts)) if ts[j].strip()), None)
            if b is not None and is_ident(ts[b]):
                ts[b] = "1"
    return k, "".join(ts)


def first_word(s):
    w = s.split()
    return w[0] if w else s


def accept_bit(s):
    return first_word(s) == "ACCEPT"


def build_cases(tier, seed):
    n_lex, n_rand, n_ty, n_gen = (1200, 100, 9000, 400) if tier == "quick" else (30000, 2000, 300000, 20000)
    cases = list(T.stream(seed, n_lex, n_rand))
    from .. import eqstress as E
    cases += E.programs()
    from .. import smallprogs as SP
    cases += list(SP.stream(seed + 1, None))   # exhaustive name-confusion shapes
    from .. import declshapes as DS
    cases += list(DS.stream())                 # declaration-level shapes (aliases, cycles, duplicates, order, modes, ladders)
    rng = random.Random(seed + 7)
    seeds = [(i, t) for i, k, t in cases if k == "seed"]
    for j in range(n_ty):
        i, s = rng.choice(seeds)
        kind, t = type_mutate(rng, s)
        if rng.random() < 0.2:
            k2, t = type_mutate(rng, t)
            kind += "+" + k2
        cases.append(("y%d" % j, "ty:" + kind, t[:6000]))
    gen_info = {"available": HAVE_PROGGEN, "programs": 0, "mutants": 0}
    if HAVE_PROGGEN:
        grng = random.Random(seed + 11)
        for j in range(n_gen):
            try:
                p = PG.gen_program(grng, tier, closed=(j % 5 != 0), want_terminating=False)
                cases.append(("g%d" % j, "gen:typed", p.text))
                gen_info["programs"] += 1
                for n, mt in enumerate(PG.mutants(grng, p, 3)):
                    mk, mtxt = mt[0], mt[1]
                    exp = mt[2] if len(mt) > 2 else None
                    cases.append(("g%d.%d" % (j, n), "gen:mut:" + str(mk), mtxt))
                    gen_info["mutants"] += 1
                    if exp is not None:
                        gen_info.setdefault("expect", {})["g%d.%d" % (j, n)] = str(exp)
            except Exception as e:  # noqa: BLE001
                gen_info.setdefault("errors", []).append(repr(e)[:200])
                if len(gen_info["errors"]) > 5:
                    break
    return cases, gen_info


def _expect_stats(expect, impl):
    """how the generator's own prediction for a mutant (recorded, not enforced) compares with the implementation"""
    st = {}
    for i, e in expect.items():
        key = "%s/%s" % (e, first_word(impl.get(i, "MISSING")))
        st[key] = st.get(key, 0) + 1
    return st


def run(b, ps, tier, seed):
    cases, gen_info = build_cases(tier, seed)
    violations = []
    t0 = time.time()
    impl, model, mism = ({}, {}, [])
    if not b.probe_error and not b.model_error:
        impl, model, mism = S.correspond(b, "tc", cases, project=first_word, timeout=3000)
    # the syntactic premise of the bisimilarity instance (C07_verdict_bisim): evaluated by the extracted
    # spec/SynOk.prog_syn_ok on every parsed program
    syn = {}
    if not b.model_error:
        syn = S.run_tool(b.model, "synok", cases, timeout=3000)
    dt = time.time() - t0
    syn_parsed = [(i, k, t, syn[i]) for i, k, t in cases if syn.get(i, "").startswith("SYN-")]
    syn_bad = [x for x in syn_parsed if x[3].startswith("SYN-BAD")]
    syn_bad_acc = [x for x in syn_bad if x[3].endswith("ACCEPT")]
    if cases and not syn_parsed and not b.model_error:
        violations.append(C.Violation("the model driver has no `synok` subcommand (extraction area syn missing)",
                                      {"property": PROP, "kind": "unproven", "no_longer_checks": [{"what": "prog_syn_ok evaluation", "detail": str(list(syn.items())[:2])}]},
                                      found_input=False))
    if syn_bad_acc:
        i, k, t, o = syn_bad_acc[0]
        violations.append(C.Violation(
            "prog_syn_ok is false on %d ACCEPTED parsed programs (e.g. %s): the premise of C07_verdict_bisim does not cover them" % (len(syn_bad_acc), i),
            {"property": PROP, "kind": "unproven", "input_hex": t.encode("latin1", "replace").hex(), "input_text": t[:3000],
             "no_longer_checks": [{"what": "parse_string s = POk p -> prog_syn_ok p = true (assumed, evaluated on every case)", "detail": o}]},
            found_input=False))
    # a verdict disagreement is a failing input of C07 (the model's verdict is the declarative one, by theorem)
    verdict_mism = [m for m in mism if accept_bit(m[3]) != accept_bit(m[4])]
    other_mism = [m for m in mism if accept_bit(m[3]) == accept_bit(m[4])]
    for i, k, t, a, m in verdict_mism[:3]:
        want = (first_word(a), first_word(m))

        def still(x, _b=b, _w=want):
            ri = S.run_tool(_b.probe, "tc", [("x", "", x)], timeout=60).get("x", "MISSING")
            rm = S.run_tool(_b.model, "tc", [("x", "", x)], timeout=60).get("x", "MISSING")
            return (first_word(ri), first_word(rm)) == _w
        small = S.shrink_text(t, still) if len(t) < 20000 else t
        violations.append(C.Violation(
            "typechecker verdict %s but the declarative system (model, proved equivalent) says %s on %s (%s)" % (want[0], want[1], i, k),
            {"property": PROP, "kind": "verdict-differs-from-declarative-system",
             "input_hex": small.encode("latin1", "replace").hex(), "input_text": small[:4000],
             "implementation": first_word(a), "declarative": first_word(m), "mutation": k,
             "theorem": "C07_verdict_alg : accepts p <-> ProgOK teq_alg p (model side)",
             "replay_cmd": "bin/check C07 --replay <this file>"}))
    if other_mism and not verdict_mism:
        i, k, t, a, m = other_mism[0]
        violations.append(C.Violation(
            "implementation and model agree on accept/reject but not on the outcome class on %d inputs (e.g. %s: %s vs %s)" % (len(other_mism), i, a[:60], m[:60]),
            {"property": PROP, "kind": "outcome-class-differs", "input_hex": t.encode("latin1", "replace").hex(), "input_text": t[:4000],
             "implementation": a[:200], "model": m[:200], "replay_cmd": "bin/check C07 --replay <this file>"}))
    # ---- coverage statistics (measured)
    verdicts, kinds, by_kind_verdict = {}, {}, {}
    parsed_distinct, accepted_distinct = set(), set()
    constructs_acc, constructs_rej = {}, {}
    dump_equal = dump_total = 0
    for i, k, t in cases:
        v = first_word(impl.get(i, "MISSING"))
        verdicts[v] = verdicts.get(v, 0) + 1
        k0 = k.split("+")[0]
        kinds[k0] = kinds.get(k0, 0) + 1
        by_kind_verdict.setdefault(k0.split(":")[0], {}).setdefault(v, 0)
        by_kind_verdict[k0.split(":")[0]][v] += 1
        if v in ("ACCEPT", "REJECT", "REJECT-INTERNAL"):
            words = set(re.findall(r"[a-z]+", t))
            if any(w in words for w in FORM_WORDS):
                parsed_distinct.add(t)
            tgt = constructs_acc if v == "ACCEPT" else constructs_rej
            for w in FORM_WORDS:
                if w in words:
                    tgt[w] = tgt.get(w, 0) + 1
            if v == "ACCEPT":
                accepted_distinct.add(t)
                dump_total += 1
                if impl.get(i) == model.get(i):
                    dump_equal += 1
    sample_ids = [c for c in cases if c[1].startswith("ty:")][100:104] + [c for c in cases if c[1] == "seed"][3:5]
    cov = {
        "evaluations": len(cases),
        "distinct_nontrivial": len(parsed_distinct),
        "rule": "texts = every examples/*.grits, every program snippet in the repository's test files and corpus/text (seeds); "
                "lexical edits of seeds (lib/vlib/textgen.py); type-level edits of seeds (identifier swapped / freshened / replaced by self, "
                "self replaced by a name, mode changed or added, connective dualised, statement dropped / duplicated / swapped, "
                "action replaced by its dual, branch dropped, arguments swapped / deleted, annotation replaced by 1); "
                "typed programs and single-edit mutants from lib/vlib/proggen.py when that file is present. "
                "Non-trivial = the text parses (the typechecker itself is reached) and contains at least one process construct; counted distinct by content",
        "samples": [{"id": i, "kind": k, "text": t[:300], "impl": first_word(impl.get(i, "")), "model": first_word(model.get(i, ""))}
                    for i, k, t in sample_ids],
        "verdicts_impl": verdicts,
        "verdicts_by_stream": by_kind_verdict,
        "input_kinds": kinds,
        "distinct_accepted": len(accepted_distinct),
        "constructs_in_accepted": constructs_acc,
        "constructs_in_rejected": constructs_rej,
        "annotation_dump_equal_on_accepted": [dump_equal, dump_total],
        "mismatches": len(mism),
        "verdict_mismatches": len(verdict_mism),
        "prog_syn_ok": {"parsed_programs": len(syn_parsed), "true": len(syn_parsed) - len(syn_bad), "false": len(syn_bad),
                        "false_on_accepted": len(syn_bad_acc),
                        "false_samples": [{"id": i, "kind": k, "text": t[:160], "obs": o} for i, k, t, o in syn_bad[:3]]},
        "proggen": {k: v for k, v in gen_info.items() if k != "expect"},
        "proggen_mutant_expectations": _expect_stats(gen_info.get("expect", {}), impl),
        "reference_checker": "none separate: the extracted model `typecheck` is itself the decision procedure for ProgOK "
                             "(C07_verdict_alg, closed under the global context)",
        "suite_wall_s": round(dt, 1),
    }
    return {"violations": violations, "known": [], "coverage": cov,
            "assumptions": [
                "C07_verdict_bisim (type agreement = bisimilarity, via C08) has the premise prog_syn_ok p = true: every type occurring in p is "
                "syntactically what the parser produces (names/labels are LABEL lexemes, choices non-empty). That parse_string only yields such "
                "programs is NOT proved; the extracted prog_syn_ok is evaluated on every parsed program of this run (coverage.prog_syn_ok)",
                "type agreement in the declarative system is a parameter `teq`; C07_sound / C07_complete assume that EqualType decides it on "
                "well-formed types over an accepted environment (the two statements of C08); C07_verdict_alg is the closed instance teq := EqualType's answer",
                "annotations may omit modes: ProgOK is stated on the declarations as completed by AddMissingModalities (relation elab_program)",
                "Tc.v / TcTop.v model process/typechecker.go as repaired by the fix: commits; the model is tied to the code by this correspondence run only"],
            "trusted_extra": ["correspondence: probe tc (real ParseString + Typecheck) vs extracted model (parse_string + typecheck) on the same texts; "
                              "extraction: ExtrOcamlBasic, ExtrOcamlString",
                              "spec/Typing.v is the statement of the type system (read it: 22 rules + branches + arguments + context split + ProgOK)"]}


def replay(b, path):
    r = json.load(open(path))
    if "input_hex" not in r:
        print("no concrete input in this replay file:", r.get("no_longer_checks"))
        return 1
    t = bytes.fromhex(r["input_hex"]).decode("latin1")
    ri = S.run_tool(b.probe, "tc", [("x", "", t)], timeout=60).get("x", "MISSING")
    rm = S.run_tool(b.model, "tc", [("x", "", t)], timeout=60).get("x", "MISSING")
    print("implementation:", ri[:200])
    print("declarative (model):", rm[:200])
    return 0 if first_word(ri) == first_word(rm) else 1
