"""C09 — typechecking is total: always a verdict, never a crash or hang.

Proof (coq/theories/props/C09.v): the typechecker model reaches none of its modelled Go panics and
exhausts no fuel, for every program (tc_total), and the caller/worker protocol of process.Typecheck
returns exactly the worker's result on every schedule and leaves nothing behind (tc_protocol).

Tie, run here on every check:
 (a) the same texts go through the real ParseString+Typecheck (`probe tc`) and the extracted model
     (`model tc`).  Projected observable = the first word (ACCEPT / REJECT / REJECT-INTERNAL / HANG /
     PARSE-ERR / CRASH).  REJECT-INTERNAL, HANG, PANIC or a crash of the implementation is a violation
     of C09 itself; a different verdict than the model's means the theorem no longer speaks about
     this code, and the text is the replay.
 (b) `probe tcwatch` runs ONE text per fresh OS process (up to 16 in parallel): Typecheck in the main
     goroutine under a watchdog, then the process stays alive and is observed: it must not die after
     the verdict, and no goroutine may remain inside grits/process or grits/types."""
import concurrent.futures
import json
import os
import random
import time

from .. import common as C
from .. import garbagegen as G
from .. import suite as S
from .. import textgen as T

PROP = "C09"
PROP_V = "theories/props/C09.v"
MODEL_AREAS = ('front', 'tc')
NEED_MODEL = True

BAD_IMPL = {"REJECT-INTERNAL", "HANG", "PANIC", "CRASH", "MISSING"}
VERDICTS = {"ACCEPT", "REJECT", "PARSE-ERR"}


def first_word(obs):
    return obs.split("\t")[0].split(" ")[0] if obs else "MISSING"


def hexs(t):
    return t.encode("latin1", "replace").hex()


def handwritten():
    """small programs aimed at each site where the checker dereferences a type, takes a polarity,
    shifts a mode or indexes the parameters (one text per site of Tc.v that can panic outside the
    invariant), plus deep / wide inputs for the fuel of Unfold, isContractive and EqualType"""
    def nest(n, x):
        return "&{l : " * n + x + "}" * n
    L = [
        ("hw:polarity-name", "type A = &{l : B}\ntype B = 1\nlet f(x : A) : B = x.l<+self>"),
        ("hw:polarity-everywhere", "type A = 1 * 1\nlet f(x : A) : A = < +y, -z> <- recv +x; send -self< -y, +z>"),
        ("hw:nil-map", "let f(a : 1, b : 1) : 1 = wait a; wait b; close self\nlet g(x : 1) : 1 = x <- new f(x, zz); wait x; close self"),
        ("hw:noncontractive", "type A = A\nlet f(b : A) : A = fwd self b"),
        ("hw:noncontractive-mutual", "type A = B\ntype B = C\ntype C = A\nprc[a] : A = close self"),
        ("hw:alias-chain", "type A = B\ntype B = C\ntype C = 1\nlet f(x : A) : C = fwd self x\nprc[a] : A = close self"),
        ("hw:undefined-type", "let f(x : Z) : Y = fwd self x"),
        ("hw:undefined-in-cut", "prc[a] : 1 = x : Z <- new close self; wait x; close self"),
        ("hw:cut-untyped", "prc[a] : 1 = x <- new close self; wait x; close self"),
        ("hw:cut-reuse", "let f(x : 1) : 1 = x : 1 <- new fwd self x; fwd self x"),
        ("hw:cut-reuse-call", "let g(y : 1) : 1 = fwd self y\nlet f(x : 1) : 1 = x <- new g(x); fwd self x"),
        ("hw:cut-self-arg", "let g(y : 1) : 1 = fwd self y\nlet f(x : 1) : 1 = z <- new g(self, x); fwd self z"),
        ("hw:arity-less", "let g(y : 1, z : 1) : 1 = wait y; fwd self z\nlet f(x : 1) : 1 = g(x)"),
        ("hw:arity-more", "let g(y : 1) : 1 = fwd self y\nlet f(x : 1, w : 1) : 1 = g(self, x, w, x)"),
        ("hw:arity-zero", "let g() : 1 = close self\nlet f(x : 1) : 1 = g(x)"),
        ("hw:call-undefined", "prc[a] : 1 = nothere(self)"),
        ("hw:empty-case", "type A = +{l : 1}\nlet f(x : A) : 1 = case x ()"),
        ("hw:empty-case-self", "type A = &{l : 1}\nlet f() : A = case self ()"),
        ("hw:dup-branch", "type A = +{l : 1}\nlet f(x : A) : 1 = case x (l<y> => wait y; close self | l<z> => wait z; close self)"),
        ("hw:dup-label-type", "type A = +{l : 1, l : 1 * 1}\nlet f(x : A) : 1 = case x (l<y> => wait y; close self)"),
        ("hw:shift-nonsense", "type A = foo /\\ bar 1\nlet f(x : A) : 1 = cast x<self>"),
        ("hw:shift-nonsense-prc", "prc[a] : foo \\/ bar 1 = cast self<b>\nprc[b] : 1 = close self"),
        ("hw:shift-wrong-way", "type A = rep /\\ lin 1\nlet f() : A = y <- shift self; close y"),
        ("hw:shift-ok", "type A = lin /\\ rep lin 1\nlet f() : A = y <- shift self; close y"),
        ("hw:downshift", "type A = rep \\/ lin rep 1\nlet f(x : rep 1) : A = cast self<x>"),
        ("hw:drop-lin", "let f(x : lin 1) : lin 1 = drop x; close self"),
        ("hw:split-lin", "let f(x : lin 1) : lin 1 = <y, z> <- split x; wait y; wait z; close self"),
        ("hw:split-same", "let f(x : 1) : 1 = <y, y> <- split x; wait y; close self"),
        ("hw:recv-same", "let f(x : 1 * 1) : 1 = <y, y> <- recv x; wait y; close self"),
        ("hw:self-client", "let f(x : 1) : 1 = wait self; close x"),
        ("hw:fwd-self-self", "prc[a] : 1 = fwd self self"),
        ("hw:send-self-self", "prc[a] : 1 * 1 = send self<self, self>"),
        ("hw:missing-types", "let f(x) = close self\nprc[a] = close self\nassuming k"),
        ("hw:dup-decls", "type A = 1\ntype A = 1 * 1\nlet f() : A = close self\nlet f() : A = close self\nprc[a, a] : A = close self"),
        ("hw:multi-provider", "prc[a, b] : lin 1 = close self\nprc[c] : 1 = wait a; wait b; close self"),
        ("hw:assuming", "assuming k : 1, m : 1\nprc[a] : 1 = wait k; close self"),
        ("hw:exec", "let f() : 1 = close self\nexec f()"),
        ("hw:explicit-provider", "let f[w : 1 -* 1, x : 1] = <y, w'> <- recv w; wait x; fwd w' y"),
        ("hw:mode-mismatch", "type A = lin +{l : B}\ntype B = aff 1\nprc[a] : A = close self"),
        ("hw:eq-coprime", "type A = %s\ntype B = %s\nlet f(x : A) : B = fwd self x" % (nest(150, "A"), nest(151, "B"))),
        ("hw:eq-two-recursive", "type A = +{l : A}\ntype B = +{l : B}\nlet g(x : A) : B = fwd self x"),
        ("hw:long-alias-chain", "\n".join("type T%d = T%d" % (i, i + 1) for i in range(400)) + "\ntype T400 = 1\nlet f(x : T0) : T400 = fwd self x"),
        ("hw:many-defs", "\n".join("type T%d = +{l : T%d}" % (i, (i + 1) % 300) for i in range(300)) + "\nlet f(x : T0) : T150 = fwd self x"),
        ("hw:deep-type", "let f(x : %s) : %s = fwd self x" % (" * ".join(["1"] * 800), " * ".join(["1"] * 800))),
        ("hw:deep-term", "prc[a] : 1 = " + "print l; " * 3000 + "close self"),
        ("hw:wide-case", "type A = +{%s}\nlet f(x : A) : 1 = case x (%s)" % (
            ", ".join("l%d : 1" % i for i in range(200)), " | ".join("l%d<y> => wait y; close self" % i for i in range(200)))),
    ]
    return [(i, "handwritten", t) for i, t in L]


def build_cases(tier, seed):
    n_mut, n_rand, n_garb = (1200, 200, 2500) if tier == "quick" else (30000, 2000, 60000)
    cases = handwritten()
    from .. import eqstress as E
    cases += E.programs()          # type equality out of phase / deep shared chains, through the checker
    from .. import declshapes as DS
    cases += list(DS.stream())     # alias chains under every action, rho-shaped definition cycles, duplicate declarations, ladders
    cases += list(T.stream(seed, n_mut, n_rand))
    cases += list(G.stream(seed, n_garb))
    seen, out = set(), []
    for i, k, t in cases:
        if t in seen:
            continue
        seen.add(t)
        out.append((i, k, t))
    return out


def watch_one(probe, wait_ms, text):
    """returns (problem or None, summary dict)"""
    try:
        rc, out, err = C.run([probe, "tcwatch", str(wait_ms), hexs(text)], timeout=40 + 12 * wait_ms / 1000.0)
    except OSError as ex:     # argument too long
        return None, {"skipped": repr(ex)}
    info = {"rc": rc}
    verdict = None
    for line in out.split("\n"):
        if line.startswith("VERDICT "):
            verdict = line.split()[1]
            info["verdict"] = verdict
            info["phase"] = (line.split("phase=")[1].split()[0] if "phase=" in line else "-")
        elif line.startswith("LEFTOVER "):
            for kv in line.split()[1:]:
                k, v = kv.split("=")
                info[k] = int(v)
        elif line.startswith("INSIDE "):
            info["inside"] = int(line.split()[1])
            info["inside_where"] = line.split(" ", 2)[2] if len(line.split(" ", 2)) > 2 else ""
    problem = None
    if rc == 124:
        problem = "the probe process did not finish (watchdog of the harness): hang"
    elif verdict is None:
        problem = "the process died before a verdict was produced (rc=%d): %s" % (rc, err[-300:].replace("\n", " | "))
    elif rc != 0:
        problem = "the process died AFTER the verdict %s (rc=%d): %s" % (verdict, rc, err[:400].replace("\n", " | "))
    elif verdict in ("HANG", "REJECT-INTERNAL"):
        problem = "Typecheck verdict %s" % verdict
    elif verdict != "PARSE-ERR":
        if info.get("inside", 0) > 0:
            problem = "goroutines still inside grits after the wait: %s" % info.get("inside_where")
        elif info.get("after", 0) > info.get("base", 0):
            problem = "goroutines left over after the wait: base=%s after=%s" % (info.get("base"), info.get("after"))
    return problem, info


def pick_watch_sample(rng, cases, impl, phase, n):
    """stratified by (verdict, phase, input kind): round-robin over the strata; parse errors excluded"""
    strata = {}
    for i, k, t in cases:
        v = first_word(impl.get(i, ""))
        if v == "PARSE-ERR" or len(t) > 60000:
            continue
        key = (v, phase.get(i, "-").split(" ")[-1], k.split("+")[0].split(":")[0])
        strata.setdefault(key, []).append((i, k, t))
    for key in strata:
        rng.shuffle(strata[key])
    out = []
    keys = sorted(strata)
    while len(out) < n and keys:
        for key in list(keys):
            if strata[key]:
                out.append(strata[key].pop())
                if len(out) >= n:
                    break
            else:
                keys.remove(key)
    return out


def run(b, ps, tier, seed):
    t0 = time.time()
    rng = random.Random(seed + 9)
    cases = build_cases(tier, seed)
    violations = []
    impl, model, phase = {}, {}, {}
    if not b.probe_error:
        impl = S.run_tool(b.probe, "tc", cases, timeout=3000)
        phase = S.run_tool(b.probe, "tcphase", cases, timeout=3000)
    if not b.model_error and not b.probe_error:
        model = S.run_tool(b.model, "tc", cases, timeout=3000)
    t_batch = time.time() - t0

    def shrink(t, pred):
        return S.shrink_text(t, pred) if len(t) < 20000 else t

    # (a1) the implementation itself must produce a verdict
    bad = [(i, k, t, impl.get(i, "MISSING")) for i, k, t in cases if impl and first_word(impl.get(i, "MISSING")) in BAD_IMPL]
    for i, k, t, obs in bad[:5]:
        cls = first_word(obs)

        def still(x, _cls=cls):
            r = S.run_tool(b.probe, "tc", [("x", "", x)], timeout=60)
            return first_word(r.get("x", "MISSING")) == _cls
        small = shrink(t, still)
        violations.append(C.Violation(
            "Typecheck does not produce a clean verdict on %s (%s): %s" % (i, k, obs[:160]),
            {"property": PROP, "kind": "typecheck-not-total", "input_hex": hexs(small), "input_text": small[:4000],
             "observed": obs[:400], "generator": k, "replay_cmd": "bin/check C09 --replay <this file>"}))
    # (a2) verdict disagreement with the model (which provably never panics or hangs)
    mism = [(i, k, t, impl.get(i, "MISSING"), model.get(i, "MISSING")) for i, k, t in cases
            if impl and model and first_word(impl.get(i, "MISSING")) not in BAD_IMPL
            and first_word(impl.get(i, "MISSING")) != first_word(model.get(i, "MISSING"))]
    for i, k, t, a, m in mism[:5]:
        wa, wm = first_word(a), first_word(m)

        def still2(x, _wa=wa, _wm=wm):
            ra = S.run_tool(b.probe, "tc", [("x", "", x)], timeout=60)
            rm = S.run_tool(b.model, "tc", [("x", "", x)], timeout=60)
            return first_word(ra.get("x", "MISSING")) == _wa and first_word(rm.get("x", "MISSING")) == _wm
        small = shrink(t, still2)
        violations.append(C.Violation(
            "verdict of the implementation (%s) differs from the model's (%s) on %s (%s)" % (wa, wm, i, k),
            {"property": PROP, "kind": "verdict-mismatch", "input_hex": hexs(small), "input_text": small[:4000],
             "observed": a[:300], "model": m[:300], "generator": k, "replay_cmd": "bin/check C09 --replay <this file>"}))

    # (b) one fresh process per text, observed after Typecheck has returned
    n_watch, wait_ms = (220, 300) if tier == "quick" else (3000, 3000)
    sample = pick_watch_sample(rng, cases, impl, phase, n_watch) if impl else []
    t1 = time.time()
    watch_stats = {"run": 0, "verdicts": {}, "phases": {}, "max_before_minus_base": 0, "inconsistent_with_batch": 0, "needed_grace": 0}
    watch_bad = []
    if sample:
        with concurrent.futures.ThreadPoolExecutor(max_workers=16) as ex:
            futs = {ex.submit(watch_one, b.probe, wait_ms, t): (i, k, t) for i, k, t in sample}
            for f in concurrent.futures.as_completed(futs):
                i, k, t = futs[f]
                problem, info = f.result()
                watch_stats["run"] += 1
                v = info.get("verdict", "none")
                watch_stats["verdicts"][v] = watch_stats["verdicts"].get(v, 0) + 1
                ph = info.get("phase", "-")
                watch_stats["phases"][ph] = watch_stats["phases"].get(ph, 0) + 1
                watch_stats["max_before_minus_base"] = max(watch_stats["max_before_minus_base"], info.get("before", 0) - info.get("base", 0))
                if info.get("grace_ms", 0) > 0:
                    watch_stats["needed_grace"] += 1
                if v in VERDICTS and v != first_word(impl.get(i, "")):
                    watch_stats["inconsistent_with_batch"] += 1
                    problem = problem or "verdict in a fresh process (%s) differs from the batch run (%s)" % (v, first_word(impl.get(i, "")))
                if problem:
                    watch_bad.append((i, k, t, problem, info))
    t_watch = time.time() - t1
    for i, k, t, problem, info in watch_bad[:5]:
        def still3(x):
            p, _ = watch_one(b.probe, wait_ms, x)
            return p is not None
        small = shrink(t, still3) if len(t) < 4000 else t
        violations.append(C.Violation(
            "after Typecheck returned on %s (%s): %s" % (i, k, problem[:300]),
            {"property": PROP, "kind": "typecheck-leaves-work-behind", "input_hex": hexs(small), "input_text": small[:4000],
             "observed": problem[:600], "detail": info, "wait_ms": wait_ms, "generator": k,
             "replay_cmd": "bin/check C09 --replay <this file>"}))

    # coverage
    kinds, verdicts, phases = {}, {}, {}
    nontrivial = set()
    parsed = 0
    for i, k, t in cases:
        k0 = k.split("+")[0]
        kinds[k0] = kinds.get(k0, 0) + 1
        v = first_word(impl.get(i, "MISSING")) if impl else "not-run"
        verdicts[v] = verdicts.get(v, 0) + 1
        ph = phase.get(i, "- -").split(" ")[-1]
        phases[ph] = phases.get(ph, 0) + 1
        if v in ("ACCEPT", "REJECT"):
            parsed += 1
            if ph in ("body-fun", "body-prc") or (ph == "ok" and ("let " in t or "prc" in t)):
                nontrivial.add(t)
    model_nonverdicts = [(i, model[i][:80]) for i, _, _ in cases if model and first_word(model.get(i, "MISSING")) not in VERDICTS]
    samples = []
    for want in ("ACCEPT ok", "REJECT body-fun", "REJECT body-prc", "REJECT prelim-prc"):
        got = 0
        for i, k, t in cases:
            if phase.get(i, "") == want and k.startswith("garbage") and ("let " in t or "prc" in t) and len(t) > 120:
                samples.append({"id": i, "kind": k, "text": t[:600], "impl": first_word(impl.get(i, "")), "phase": phase.get(i, ""), "model": first_word(model.get(i, ""))})
                got += 1
                if got == 2:
                    break
    cov = {
        "evaluations": len(cases) + watch_stats["run"],
        "distinct_nontrivial": len(nontrivial),
        "rule": "texts = %d hand-written programs aimed at the dereference / polarity / shift / index sites of the checker and at the "
                "fuel of Unfold, isContractive, EqualType; every examples/*.grits, test snippet and corpus file with seeded token-level "
                "mutations; 'garbage that parses' (lib/vlib/garbagegen.py: grammatical programs that ignore typing to a seeded degree). "
                "Distinct by content. Non-trivial = accepted by the parser AND past all preliminary checks, i.e. the verdict was decided "
                "by the syntax-directed rules (ACCEPT of a text with at least one let/prc declaration, or REJECT with a 'typechecking error in function/process' message); measured "
                "with `probe tcphase` on this run" % len(handwritten()),
        "samples": samples[:8],
        "input_kinds": kinds,
        "impl_verdicts": verdicts,
        "impl_reject_phases": phases,
        "parsed_texts": parsed,
        "model_vs_impl_mismatches": len(mism),
        "model_nonverdicts": model_nonverdicts[:5],
        "watch": dict(watch_stats, wait_ms=wait_ms, problems=len(watch_bad), sample_size=len(sample)),
        "suite_wall_s": {"batch": round(t_batch, 1), "watch": round(t_watch, 1)},
    }
    return {"violations": violations, "known": [], "coverage": cov,
            "assumptions": [
                "the two Section hypotheses of proofs/TcTotal.v (EqualType returns; AddMissingModalities returns) are proved for the model's current definitions in proofs/TcEqFuel.v and proofs/TcInferFuel.v and instantiated: the property theorems have no premise. If TcDeps.equal_type is replaced, C09_tc_total_given carries the premise explicitly",
                "the worker's computation is abstracted to its result in the protocol LTS; Go's scheduler is any interleaving of the LTS steps",
                "a Go stack overflow is modelled as Hang (fuel exhaustion); real stack depth limits (1 GB) are not modelled: deep inputs are exercised by the tie only",
                "post-return observation lasts %d ms per text in this tier" % wait_ms],
            "trusted_extra": [
                "correspondence: probe tc vs extracted model tc on the same texts, first word compared (extraction: ExtrOcamlBasic, ExtrOcamlString)",
                "harness/tcwatch.go: runtime.NumGoroutine / runtime.Stack after the call, one OS process per text"]}


def replay(b, path):
    r = json.load(open(path))
    if "input_hex" not in r:
        print("no concrete input in this replay file:", r.get("no_longer_checks"))
        return 1
    t = bytes.fromhex(r["input_hex"]).decode("latin1")
    ri = S.run_tool(b.probe, "tc", [("x", "", t)], timeout=120).get("x", "MISSING")
    rm = S.run_tool(b.model, "tc", [("x", "", t)], timeout=120).get("x", "MISSING")
    problem, info = watch_one(b.probe, 3000, t)
    print("implementation:", ri[:200])
    print("model:         ", rm[:200])
    print("tcwatch:       ", info, "PROBLEM: " + problem if problem else "")
    ok = first_word(ri) in VERDICTS and first_word(ri) == first_word(rm) and problem is None
    return 0 if ok else 1
