"""C08 — type equality is equi-recursive equality and always terminates.

Proof (coq/theories/props/C08.v): for every well-formed environment the model of EqualType
terminates within its fuel and answers true exactly on bisimilar types.  Tie: the real EqualType
and the extracted model are run on all ordered pairs of a pool of query types (bodies and the
name types) of seeded environments; the projected observable is the matrix of equality bits plus
HANG/PANIC.  In addition the algebraic laws are checked on the IMPLEMENTATION's own matrices
(reflexive, symmetric, transitive, name/body agreement, equal-by-construction pairs: copies,
aliases, unfoldings, renamed families, branch permutations), so a violation names a concrete pair.
The hypotheses of the theorems (`wf_env`) are evaluated by the model on every environment the real
sanity checks accept and must hold there."""
import json
import time

from .. import common as C
from .. import suite as S
from .. import eqgen as G

PROP = "C08"
PROP_V = "theories/props/C08.v"


def parse_obs(obs):
    """-> dict(cls=..., n, B, N, S, RT, WF)"""
    p = obs.split("\t")
    if p[0] != "OK":
        return {"cls": p[0].split()[0] if p[0] else "MISSING"}
    if len(p) < 6:
        return {"cls": "CRASH"}       # a line cut short by a dying tool
    d = {"cls": "OK", "n": int(p[1]), "B": p[2], "N": p[3], "S": p[4].split(" ") if p[4] else [], "RT": p[5] if len(p) > 5 else ""}
    for x in p[6:]:
        if x.startswith("WF="):
            d["WF"] = x[3:]
    return d


def project(obs):
    d = parse_obs(obs)
    if d["cls"] != "OK":
        return d["cls"]
    return "OK %d %s %s" % (d["n"], d["B"], d["N"])


def laws(d, meta):
    """algebraic laws on one implementation matrix; returns list of (law, i, j[, k])"""
    n, B, N = d["n"], d["B"], d["N"]
    bad = []
    if len(B) != n * n or len(N) != n * n:
        return [("matrix-shape", -1, -1)]
    b = lambda i, j: B[i * n + j] == "1"
    for i in range(n):
        if not b(i, i):
            bad.append(("reflexive", i, i))
        for j in range(n):
            if b(i, j) != b(j, i) and i < j:
                bad.append(("symmetric", i, j))
            if (N[i * n + j] == "1") != b(i, j):
                bad.append(("name-vs-body", i, j))
    for i in range(n):
        for j in range(n):
            if b(i, j):
                for k in range(n):
                    if b(j, k) and not b(i, k):
                        bad.append(("transitive", i, j, k))
    if meta:
        cl = meta["classes"]
        for i in range(min(n, len(cl))):
            for j in range(min(n, len(cl))):
                if cl[i] == cl[j] and not b(i, j):
                    ops = [o for x, y, o in meta["equal"] if {x, y} == {i, j}]
                    bad.append(("equal-by-construction:" + (ops[0] if ops else "chain"), i, j))
    return bad


def run_capped(tool, sub, cases, max_crashes=3, chunk=20, timeout=1500):
    """run_tool in chunks; after `max_crashes` crashing / hanging cases the rest is skipped (a tree in
    which EqualType overflows the stack on many inputs would otherwise cost ~10 s per case)"""
    res, crashes = {}, 0
    for k in range(0, len(cases), chunk):
        part = cases[k:k + chunk]
        r = S.run_tool(tool, sub, part, timeout=timeout)
        res.update(r)
        crashes += sum(1 for i, _, _ in part if r.get(i, "MISSING").split("\t")[0].split(" ")[0] in ("CRASH", "HANG", "PANIC", "MISSING"))
        if crashes >= max_crashes:
            for i, _, _ in cases[k + chunk:]:
                res[i] = "SKIPPED"
            break
    return res


def shrink_case(b, text, pred):
    """drop definition lines while `pred(text)` stays true"""
    def still(x):
        try:
            return pred(x)
        except Exception:
            return False
    return S.shrink_text(text, still, budget=120)


def keep_in_corpus(text):
    """a minimised disagreement joins corpus/eq (run first by every later check)"""
    import os
    d = os.path.join(C.CORPUS, "eq")
    os.makedirs(d, exist_ok=True)
    p = os.path.join(d, "auto-%s.grits" % C.sha(text)[:10])
    if not os.path.exists(p) and len(text) < 20000:
        with open(p, "w", encoding="latin1", errors="replace") as f:
            f.write(text)
    return p


def one(b, tool, text, sub="eq"):
    r = S.run_tool(tool, sub, [("x", "", text)], timeout=60)
    return r.get("x", "MISSING")


def run(b, ps, tier, seed):
    n_cases, pool_max, env_size = (220, 12, 6) if tier == "quick" else (3000, 30, 10)
    stream = list(G.stream(seed, n_cases, pool_max, env_size))
    cases = [(i, k, t) for i, k, t, _ in stream]
    metas = {i: m for i, _, _, m in stream}
    violations = []
    t0 = time.time()
    impl, model, mism = {}, {}, []
    if not b.probe_error:
        impl = run_capped(b.probe, "eq", cases)
    if not b.probe_error and not b.model_error:
        model = run_capped(b.model, "eq", cases)
    dt = time.time() - t0
    stats = {"accepted": 0, "rejected": 0, "parse_err": 0, "pairs": 0, "equal_bits": 0, "wf_false": 0,
             "law_checks": 0, "by_construction_pairs": 0, "near_miss_pairs": 0, "near_miss_equal": 0}
    nontrivial = set()
    opcount = {}
    samples = []
    law_bad, corr_bad, hang_bad, wf_bad = [], [], [], []
    for i, k, t in cases:
        a = parse_obs(impl.get(i, "MISSING")) if impl else {"cls": "MISSING"}
        m = parse_obs(model.get(i, "MISSING")) if model else None
        if a["cls"] == "SKIPPED":
            stats["skipped"] = stats.get("skipped", 0) + 1
            continue
        if a["cls"] in ("HANG", "PANIC", "CRASH", "MISSING"):
            if impl:
                hang_bad.append((i, k, t, impl.get(i, "MISSING")))
            continue
        if a["cls"] == "PARSE-ERR":
            stats["parse_err"] += 1
            continue
        if a["cls"] == "REJECT":
            stats["rejected"] += 1
            continue
        stats["accepted"] += 1
        n = a["n"]
        stats["pairs"] += 2 * n * n
        stats["equal_bits"] += a["B"].count("1")
        meta = metas.get(i)
        bad = laws(a, meta)
        stats["law_checks"] += 1
        for x in bad:
            law_bad.append((i, k, t, x, a))
        if meta:
            stats["by_construction_pairs"] += len(meta["equal"])
            stats["near_miss_pairs"] += len(meta["miss"])
            for x, y, o in meta["miss"]:
                if x < n and y < n and a["B"][x * n + y] == "1":
                    stats["near_miss_equal"] += 1
            for o in meta["ops"]:
                opcount[o] = opcount.get(o, 0) + 1
        offdiag = [a["B"][x * n + y] for x in range(n) for y in range(n) if x != y]
        if "type" in t and ("0" in offdiag and "1" in offdiag) and n >= 3:
            nontrivial.add(t)
        if m is not None:
            if m["cls"] != "OK":
                corr_bad.append((i, k, t, "model: " + m["cls"], a, m))
            else:
                if m.get("WF") != "1":
                    stats["wf_false"] += 1
                    wf_bad.append((i, k, t))
                if (m["n"], m["B"], m["N"]) != (a["n"], a["B"], a["N"]):
                    corr_bad.append((i, k, t, "bits", a, m))
        if len(samples) < 4 and k == "gen" and n >= 4:
            samples.append({"id": i, "text": t[:600], "n": n, "bodies_matrix": a["B"], "names_matrix": a["N"],
                            "equal_by_construction": meta["equal"] if meta else None, "near_misses": meta["miss"] if meta else None})

    # --- violations -------------------------------------------------------------------------
    for i, k, t, obs in hang_bad[:1]:
        small = shrink_case(b, t, lambda x: parse_obs(one(b, b.probe, x))["cls"] in ("HANG", "PANIC", "CRASH"))
        violations.append(C.Violation(
            "EqualType (or the checks before it) does not return on case %s: %s" % (i, obs[:60]),
            {"property": PROP, "kind": "equal-not-total", "input_text": small, "input_hex": small.encode("latin1", "replace").hex(),
             "observed": obs[:300], "replay_cmd": "bin/check C08 --replay <this file>"}))
    seen_ids = set()
    law_first = []
    for y in law_bad:
        if y[0] not in seen_ids:
            seen_ids.add(y[0])
            law_first.append(y)
    for i, k, t, x, a in law_first[:3]:
        law = x[0]
        small, found = t, x
        if not law.startswith("equal-by"):
            def pred(txt, _law=law):
                d = parse_obs(one(b, b.probe, txt))
                return d["cls"] == "OK" and any(y[0] == _law for y in laws(d, None))
            small = shrink_case(b, t, pred)
            d2 = parse_obs(one(b, b.probe, small))
            again = [y for y in laws(d2, None) if y[0] == law] if d2["cls"] == "OK" else []
            if again:
                found, a = again[0], d2
            else:
                small = t
        keep_in_corpus(small)
        violations.append(C.Violation(
            "EqualType violates the law '%s' on case %s, pool positions %s (queries in order of their Q index, in the replay text)" % (law, i, list(found[1:])),
            {"property": PROP, "kind": "law", "law": law, "pair": list(found[1:]), "input_text": small,
             "input_hex": small.encode("latin1", "replace").hex(), "bodies_matrix": a.get("B"), "names_matrix": a.get("N"),
             "replay_cmd": "bin/check C08 --replay <this file>"}))
    for i, k, t, why, a, m in corr_bad[:3]:
        def pred(txt):
            da, dm = parse_obs(one(b, b.probe, txt)), parse_obs(one(b, b.model, txt))
            return da["cls"] == "OK" and dm["cls"] == "OK" and (da["B"], da["N"]) != (dm["B"], dm["N"])
        small = shrink_case(b, t, pred) if why == "bits" else t
        da, dm = parse_obs(one(b, b.probe, small)), parse_obs(one(b, b.model, small))
        pair = None
        if da.get("cls") == "OK" and dm.get("cls") == "OK":
            n = da["n"]
            for idx in range(min(len(da["B"]), len(dm["B"]))):
                if da["B"][idx] != dm["B"][idx]:
                    pair = ["body", idx // n, idx % n, "impl=" + da["B"][idx], "spec=" + dm["B"][idx]]
                    break
            if pair is None:
                for idx in range(min(len(da["N"]), len(dm["N"]))):
                    if da["N"][idx] != dm["N"][idx]:
                        pair = ["name", idx // n, idx % n, "impl=" + da["N"][idx], "spec=" + dm["N"][idx]]
                        break
        # the model is proved to decide bisimilarity (for WF=1): its bit is the specification's
        keep_in_corpus(small)
        violations.append(C.Violation(
            "EqualType disagrees with equi-recursive equality on case %s (%s): %s" % (i, why, pair),
            {"property": PROP, "kind": "equality-bit", "pair": pair, "input_text": small,
             "input_hex": small.encode("latin1", "replace").hex(),
             "impl": {"B": da.get("B"), "N": da.get("N"), "cls": da.get("cls")},
             "spec_via_model": {"B": dm.get("B"), "N": dm.get("N"), "cls": dm.get("cls"), "wf_env": dm.get("WF")},
             "replay_cmd": "bin/check C08 --replay <this file>"}))
    if wf_bad:
        i, k, t = wf_bad[0]
        violations.append(C.Violation(
            "the hypotheses of the C08 theorems (wf_env) do not hold on %d environments the sanity checks accept, e.g. %s" % (len(wf_bad), i),
            {"property": PROP, "kind": "unproven", "no_longer_checks": [{"what": "wf_env on accepted environments", "detail": t[:1500]}]},
            found_input=False))
    cov = {
        "evaluations": len(cases),
        "distinct_nontrivial": len(nontrivial),
        "rule": "one case = a seeded environment of type definitions (recursive, mutually recursive, aliases and alias chains, shifts, "
                "1-3 modes) plus a pool of <= %d query types derived from base types by copy / alias / one-step unfolding / renamed "
                "family / branch permutation (equal by construction) and by near-miss edits (label, branch count, connective, nesting, "
                "mode of the whole family, leaf); every ordered pair of the pool is evaluated twice (bodies, name types) by the real "
                "EqualType and by the extracted model; 12 hand-written cases (the F1/F2/F10 witnesses among them) run first. "
                "non-trivial = accepted environment, pool >= 3, whose off-diagonal matrix contains both equal and unequal pairs; distinct by text" % pool_max,
        "samples": samples,
        "pairs_evaluated": stats["pairs"],
        "stats": stats,
        "operators_used_in_cases": opcount,
        "impl_vs_model_mismatches": len(corr_bad),
        "law_violations": len(law_bad),
        "suite_wall_s": round(dt, 1),
    }
    return {"violations": violations, "known": [], "coverage": cov,
            "assumptions": ["the environments are those SanityChecksTypeDefinitions accepts; the model evaluates the theorem hypotheses (wf_env) on each of them",
                            "types reach EqualType through the real parser and mode inference (queries are written as extra definitions)",
                            "a stack overflow of the real EqualType kills the probe: reported as CRASH for that case"],
            "trusted_extra": ["correspondence: probe eq (harness/typeseq.go) vs extracted model (coq/extract/drv_eq.ml glue: pool selection, hex, fuel shared per case)",
                              "extraction: ExtrOcamlBasic, ExtrOcamlString"]}


def replay(b, path):
    r = json.load(open(path))
    if "input_hex" not in r:
        print("no concrete input in this replay file:", r.get("no_longer_checks"))
        return 1
    t = bytes.fromhex(r["input_hex"]).decode("latin1")
    a = one(b, b.probe, t)
    d = parse_obs(a)
    print("implementation:", project(a)[:300])
    if d["cls"] != "OK":
        return 1 if d["cls"] in ("HANG", "PANIC", "CRASH", "MISSING") else 0
    bad = laws(d, None)
    m = parse_obs(one(b, b.model, t))
    print("specification (proved model):", m.get("B"), m.get("N"))
    if bad:
        print("law violations:", bad[:5])
    return 1 if bad or (m.get("cls") == "OK" and (m["B"], m["N"]) != (d["B"], d["N"])) else 0
