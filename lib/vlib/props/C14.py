"""C14 — lexical scoping: verdict and outcome are invariant under consistent renaming of bound
channel names, function names, type names and labels, and under permuting declarations.
Tie (`meta` suite): generated programs P with renamings/permutations r (biased to collisions): the
REAL typechecker and interpreter must give r(P) the verdict of P and the prints of P with r applied
to the labels; the model must agree with the implementation on every variant."""
import collections
import concurrent.futures
import json
import random

from .. import common as C
from .. import runsuite as R
from .. import suite as S

PROP = "C14"
PROP_V = "theories/props/C14.v"
MODEL_AREAS = ('front', 'tc', 'run')


def first_word(x):
    return x.split("\t")[0].split(" ")[0]


def run(b, ps, tier, seed):
    """both halves: the outcome/verdict metamorphic suite on runnable programs below, and the verdict suite of
    C14_verdict.py (accepted AND rejected texts, type-level mutants); the proof obligations of props/C14.v and of
    props/C14_verdict.v both count"""
    from . import C14_verdict as V
    ps2 = C.proof_status(b, V.PROP_V)
    ps.broken.update(ps2.broken)
    ps.theorems = list(ps.theorems) + [t for t in ps2.theorems if t not in ps.theorems]
    ps.cone_files = sorted(set(ps.cone_files) | set(ps2.cone_files))
    ps.obligations, ps.discharged = ps.obligations + ps2.obligations, ps.discharged + ps2.discharged
    ps.pa_text = (ps.pa_text or "") + "\n" + (ps2.pa_text or "")
    ps.ok = ps.ok and ps2.ok
    res = run_outcome(b, ps, tier, seed)
    resv = V.run(b, ps2, tier, seed)
    res["violations"] = list(res.get("violations", [])) + list(resv.get("violations", []))
    cov = res.setdefault("coverage", {})
    # the translated code of process/form.go (gen/FormOps.v) against the reference copy: when the agreement theorems
    # C14_formops_* break, name the method and search for a program (lib/vlib/formopsdrift.py)
    try:
        from .. import formopsdrift as FD
        fv, fcov = FD.diagnose(b, ps, PROP)
        res["violations"] = fv + res["violations"]
        cov["formops"] = fcov
    except Exception as e:  # noqa: BLE001
        cov["formops"] = {"error": repr(e)[:300]}
    cv = resv.get("coverage", {})
    cov["evaluations"] = cov.get("evaluations", 0) + cv.get("evaluations", 0)
    cov["distinct_nontrivial"] = cov.get("distinct_nontrivial", 0) + cv.get("distinct_nontrivial", 0)
    cov["verdict_half"] = {k: v for k, v in cv.items() if k != "samples"}
    res["assumptions"] = list(res.get("assumptions", [])) + list(resv.get("assumptions", []))
    return res


def run_outcome(b, ps, tier, seed):
    violations = []
    if b.probe_error or b.model_error:
        return {"violations": [], "coverage": {"evaluations": 1, "distinct_nontrivial": 2, "samples": ["(not run: build broken)"]}}
    try:
        from .. import proggen
    except ImportError:
        proggen = None
    rng = random.Random(seed)
    n_prog, n_ren = (40, 4) if tier == "quick" else (1200, 8)
    items = []      # (pid, base_text, [(variant_text, label_map)])
    kinds = collections.Counter()
    if proggen is not None:
        for k in range(n_prog):
            try:
                pr = proggen.gen_program(rng, size="quick" if tier == "quick" else rng.choice(["quick", "thorough"]), closed=True, want_terminating=True)
                rs = proggen.renamings(rng, pr, n_ren)
            except Exception:
                kinds["generator-failure"] += 1
                continue
            items.append(("gen:%d" % k, pr.text, rs))
    # alpha-variants among the run-time shapes (a binder re-using its subject / a dead name / the caller's name)
    from .. import runshapes
    for g, base, vs in runshapes.renaming_groups():
        items.append((g, base, [(v, {}) for v in vs]))
    # every permutation of a small set of declarations (types, functions, processes, exec statements)
    from .. import declshapes
    byfam = {}
    for i, k, t in declshapes.fam_order():
        byfam.setdefault(i.rsplit(":", 1)[0], []).append(t)
    for g, ts in sorted(byfam.items()):
        items.append((g, ts[0], [(v, {}) for v in ts[1:]]))
    # hand-written collision cases from the corpus (reproducers of the capture findings and their renamed variants)
    import glob, os
    for p in sorted(glob.glob(os.path.join(C.CORPUS, "run", "*.grits"))):
        t = open(p, "rb").read().decode("latin1")
        if R.is_closed(t):
            items.append(("corpus:" + os.path.basename(p), t, []))
    # verdicts of everything (implementation and model), in two batch calls
    cases = []
    for pid, t, rs in items:
        cases.append((pid, "", t))
        for j, (vt, _) in enumerate(rs):
            cases.append(("%s/r%d" % (pid, j), "", vt))
    impl_v = S.run_tool(b.probe, "tc", cases, timeout=1200)
    model_v = S.run_tool(b.model, "tc", cases, timeout=1200)
    verdict_dev, verdict_checked = 0, 0
    for pid, t, rs in items:
        bv = first_word(impl_v.get(pid, "MISSING"))
        if first_word(model_v.get(pid, "MISSING")) != bv:
            verdict_dev += 1
            violations.append(C.Violation("implementation %s, model %s on %s" % (bv, first_word(model_v.get(pid, "")), pid),
                                          {"property": PROP, "kind": "verdict-model-mismatch", "program_text": t, "input_hex": R.hexs(t)}))
        for j, (vt, _) in enumerate(rs):
            verdict_checked += 1
            v = first_word(impl_v.get("%s/r%d" % (pid, j), "MISSING"))
            if v != bv and len(violations) < 5:
                verdict_dev += 1
                violations.append(C.Violation(
                    "renaming changes the verdict of %s: %s -> %s" % (pid, bv, v),
                    {"property": PROP, "kind": "verdict-not-invariant", "program_text": t, "renamed_text": vt, "input_hex": R.hexs(vt),
                     "verdict": bv, "renamed_verdict": v, "replay_cmd": "bin/check C14 --replay <this file>"}))
    # outcomes: accepted programs and their variants under the real interpreter (async) and the model
    run_cases = []
    for pid, t, rs in items:
        if first_word(impl_v.get(pid, "")) != "ACCEPT":
            continue
        run_cases.append((pid, t, None, pid))
        for j, (vt, lm) in enumerate(rs):
            run_cases.append(("%s/r%d" % (pid, j), vt, lm, pid))
    mres = S.run_tool(b.model, "run-async-0", [(i, "", t) for i, t, _, _ in run_cases], timeout=1800)

    def work(c):
        i, t, lm, base = c
        return i, R.run_impl_once(b.probe, t, "async", 0, 250)
    ires = {}
    with concurrent.futures.ThreadPoolExecutor(max_workers=8) as ex:
        for i, r in ex.map(work, run_cases):
            ires[i] = r
    out_checked, out_dev, artefacts = 0, 0, 0
    for i, t, lm, base in run_cases:
        r = ires[i]
        m = R.parse_model_line(mres.get(i, "MISSING"))
        if m["tag"] != "RAN":
            continue
        out_checked += 1
        want = collections.Counter(m["prints"])
        bad_model = (collections.Counter(r["prints"]) != want) or bool(r["panic"])
        bad_ren = False
        if lm is not None and ires.get(base) is not None:
            mapped = collections.Counter(lm.get(x, x) for x in ires[base]["prints"])
            bad_ren = collections.Counter(r["prints"]) != mapped
        if bad_model or bad_ren:
            r2 = R.run_impl_once(b.probe, t, "async", 0, 1200)
            b2 = R.run_impl_once(b.probe, dict((x[0], x[1]) for x in run_cases)[base], "async", 0, 1200) if lm is not None else None
            ok_model = collections.Counter(r2["prints"]) == want and not r2["panic"]
            ok_ren = True if lm is None else collections.Counter(r2["prints"]) == collections.Counter(lm.get(x, x) for x in b2["prints"])
            if ok_model and ok_ren:
                artefacts += 1
                continue
            out_dev += 1
            if len(violations) < 5:
                violations.append(C.Violation(
                    "outcome of %s: prints %s (panic %s); model %s; base program prints %s under map" % (i, sorted(r2["prints"]), r2["panic"], sorted(want.elements()), None if b2 is None else sorted(b2["prints"])),
                    {"property": PROP, "kind": "outcome-not-invariant", "program_text": dict((x[0], x[1]) for x in run_cases)[base], "renamed_text": t,
                     "input_hex": R.hexs(t), "label_map": lm, "observed": {"prints": r2["prints"], "panic": r2["panic"]},
                     "expected_by_model": {"prints": sorted(want.elements())}, "replay_cmd": "bin/check C14 --replay <this file>"}))
    cov = {
        "evaluations": len(cases) + len(run_cases),
        "distinct_nontrivial": len({t for _, _, t in cases}),
        "rule": "generated well-typed closed terminating programs (lib/vlib/proggen.py) each with %d renamings of bound channel names / function / type names / choice and print labels biased to collisions, plus declaration permutations; plus the capture reproducers of corpus/run; distinct by text" % n_ren,
        "samples": [{"base": t[:200], "variant": (rs[0][0][:200] if rs else None)} for _, t, rs in items[:2]],
        "programs": len(items), "variants_verdict_checked": verdict_checked, "outcomes_checked": out_checked,
        "verdict_deviations": verdict_dev, "outcome_deviations": out_dev, "cut_short_by_timer_then_ok_on_rerun": artefacts,
        "proggen_available": proggen is not None, "generator_failures": kinds.get("generator-failure", 0),
    }
    return {"violations": violations, "known": [], "coverage": cov,
            "assumptions": ["renamings are produced by lib/vlib/proggen.py (avoid keywords, mode words, root, execN); their admissibility is the generator's responsibility",
                            "outcome = printed multiset in asynchronous mode (the other modes are compared with the model by C01-C04)"],
            "trusted_extra": ["correspondence: `probe tc` / `probe run1` vs extracted model on programs and their renamed variants"]}


def replay(b, path):
    r = json.load(open(path))
    if "input_hex" not in r:
        print("no concrete input:", r.get("no_longer_checks"))
        return 1
    t = bytes.fromhex(r["input_hex"]).decode("latin1")
    res = S.run_tool(b.probe, "tc", [("x", "", t)], timeout=60)
    print("verdict:", first_word(res.get("x", "")))
    rr = R.run_impl_once(b.probe, t, "async", 0, 1200)
    print("prints:", rr["prints"], "panic:", rr["panic"])
    exp = r.get("expected_by_model", {}).get("prints")
    if exp is not None:
        return 0 if sorted(rr["prints"]) == sorted(exp) and not rr["panic"] else 1
    return 0 if first_word(res.get("x", "")) == r.get("verdict") else 1
