"""C01 — type safety: accepted closed programs never hit a run-time protocol error, in the three
execution modes.  Tie: every run of the real interpreter must end without panic / error, and agree
with the model on whether an error occurs."""
from .. import common as C
from .. import runsuite as R
from .. import runprops as P

PROP = "C01"
PROP_V = "theories/props/C01.v"
MODEL_AREAS = ('front', 'tc', 'run', 'rtcheck')


def is_bad(res):
    return bool(res["panic"]) or res["verdict"] != "ran" or res["rc"] != 0


def run(b, ps, tier, seed):
    violations = []
    if b.probe_error or b.model_error:
        return {"violations": [], "coverage": {"evaluations": 1, "distinct_nontrivial": 2, "samples": ["(not run: build broken)"]}}
    d = R.collect(b, tier, seed, **P.settings(tier))
    errs = 0
    model_errs = []
    for i, t in d.programs:
        for m in R.MODES:
            for sd, mo in d.model[i][m].items():
                if mo["tag"] != "RAN":
                    model_errs.append((i, m, sd, mo["tag"], mo["err"]))
        for cfg, r in d.impl[i].items():
            if is_bad(r):
                r2 = P.confirm(b, t, cfg, is_bad)
                if r2 is not None:
                    errs += 1
                    if len(violations) < 5:
                        violations.append(P.violation(PROP, "runtime-error", "the interpreter %s" % (r2["panic"] or r2["verdict"]), i, t, cfg,
                                                      {"panic": r2["panic"], "verdict": r2["verdict"], "prints": r2["prints"]},
                                                      d.model[i][cfg[0]]["0"]))
    # the model reports an error / runs out of fuel where the implementation is fine: model defect
    impl_fine = [x for x in model_errs if not any(is_bad(r) for c, r in d.impl[x[0]].items() if c[0] == x[1])]
    if impl_fine and not violations:
        violations.append(C.Violation("model reports run-time errors the implementation does not show: %s" % impl_fine[:3],
                                      {"property": PROP, "kind": "unproven", "no_longer_checks": [{"what": "correspondence run (error class)", "detail": str(impl_fine[:5])}]},
                                      found_input=False))
    pcov, not_typed = P.premise_check(b, d, seed, tier)
    if not_typed and not violations:
        violations.append(C.Violation("the premise tc_annotations_typed of the safety theorem fails on an accepted program of the fragment: %s" % [i for i, _ in not_typed[:3]],
                                      {"property": PROP, "kind": "unproven", "no_longer_checks": [{"what": "premise check (static_typed_b on the annotated program)", "detail": not_typed[0][1][:800]}]},
                                      found_input=False))
    acov, avio = P.accepted_set_check(b, PROP, seed, tier, is_bad)
    if not violations:
        violations.extend(avio)
    pcov.update(acov)
    extra = {"impl_runs_with_error": errs, "model_runs_with_error": len(model_errs)}
    extra.update(pcov)
    cov = R.coverage(d, extra)
    return {"violations": violations, "known": [], "coverage": cov, "assumptions": P.COMMON_ASSUMPTIONS, "trusted_extra": P.COMMON_TRUSTED}


def replay(b, path):
    return P.replay(b, path, PROP, lambda r, res: is_bad(res))
