"""formops / nameops drift (C14, C04): the table translated from the CURRENT /repo/process/form.go by `probe formops`
(coq/theories/gen/FormOps.v: per form type the body of Substitute and of FreeNames, the four list helpers, the
constructors, FormHasContinuation, CopyForm; gen/NameOps.v: Name.Initialized / Equal / Substitute of name.go) against the
committed reference copies lib/ref_formops.v, lib/ref_nameops.v.
The theorems C14_formops_* (proofs/FormOpsAgree.v) say that the current table means the model of Subst.v; when the
table differs from the reference AND those theorems no longer check (or the translator refuses the source), this
module names the methods whose translation changed and SEARCHES for a concrete program: focused programs per form
type (a binder spelt like a free name that is substituted, code instantiated twice, ...), the capture reproducers of
corpus/run and the run-time shapes, each run through the real typechecker + interpreter and through the model; a
program on which they print different labels is the failing input.  Without one, the violation names the theorem and
the method (`no-failing-input-found`)."""
import collections
import glob
import os
import re

from . import common as C

REF = os.path.join(C.VERIF, "lib", "ref_formops.v")
CUR = os.path.join(C.GEN, "FormOps.v")
REF_N = os.path.join(C.VERIF, "lib", "ref_nameops.v")
CUR_N = os.path.join(C.GEN, "NameOps.v")
AGREE_V = "theories/proofs/FormOpsAgree.v"
AGREE_N = "theories/proofs/NameOpsAgree.v"

THEOREMS = {
    "structs": ["C14_formops_structs"],
    "ctors": ["C14_formops_copy_agrees", "C14_formops_copy_wf"],
    "subst_methods": ["C14_formops_subst_agrees", "C14_formops_subst_brs_agrees", "C14_formops_subst_wf"],
    "free_methods": ["C14_formops_free_names_agrees", "C14_formops_free_names_brs_agrees"],
    "helpers": ["C14_formops_append_agrees", "C14_formops_remove_agrees", "C14_formops_exists_agrees", "C14_formops_merge_agrees"],
    "has_cont": ["C14_formops_has_continuation_agrees"],
    "copy_cases": ["C14_formops_copy_agrees", "C14_formops_copy_wf", "C14_formops_copy_identity"],
    "name_ops": ["C14_nameops_initialized_agrees", "C14_nameops_equal_agrees", "C14_nameops_subst_agrees", "C14_nameops_subst_wf"],
    "name_fields": ["C14_nameops_fields"],
}
GO_NAME = {
    "subst_methods": "(*%s).Substitute", "free_methods": "(*%s).FreeNames", "helpers": "func %s", "copy_cases": "CopyForm, case *%s",
    "ctors": "constructor %s", "structs": "type %s struct", "has_cont": "FormHasContinuation%s",
    "name_ops": "(*Name).%s", "name_fields": "type Name struct%s",
}

# focused programs: (form types they exercise, text).  Closed, terminating, printing.
FOCUS = [
    # a function with an EXPLICIT provider name w whose body re-binds w (receive payload / cut / case payload): below the
    # binder, w is the local channel, not the provider (Name.Equal decides where the provider substitution stops)
    (("ReceiveForm", "name_ops"), """let consume[w : 1, x : 1 * 1] =
    <w, c> <- recv x;
    wait w;
    wait c;
    print consumed;
    close self
prc[a] : 1 = close self
prc[b] : 1 = close self
prc[p] : 1 * 1 = send self<a, b>
prc[q] : 1 = consume(p)
"""),
    (("NewForm", "name_ops"), """let mk() : 1 = close self
let viacut[w : 1] =
    w <- new mk();
    wait w;
    print cut_done;
    close self
prc[q] : 1 = viacut()
"""),
    (("CaseForm", "BranchForm", "name_ops"), """type sel = +{a : 1}
let mk() : sel =
    u : 1 <- new close self;
    self.a<u>
let viacase[w : 1, x : sel] =
    case x ( a<w> => wait w; print case_done; close self )
prc[s] : sel = mk()
prc[q] : 1 = viacase(s)
"""),
    (("ReceiveForm", "SendForm", "CaseForm", "BranchForm"), """type sel = +{a : 1}
type pair = 1 * sel
let mk() : sel =
    u : 1 <- new close self;
    self.a<u>
let f(x : 1) : pair =
    s <- new mk();
    send self<x, s>
prc[p] : 1 =
    x : 1 <- new close self;
    y <- new f(x);
    <k, x> <- recv y;
    case x ( a<z> => print ok; wait z; wait k; close self )
"""),
    (("SplitForm", "CaseForm", "BranchForm"), """type T = +{tick : 1}
let src() : T =
    u : 1 <- new close self;
    self.tick<u>
let use(x : T) : 1 =
    <x, y> <- split x;
    case x (tick<a> => print got_x; wait a;
    case y (tick<b> => print got_y; wait b; close self))
prc[main] : 1 =
    s <- new src();
    use(s)
"""),
    (("SplitForm", "CaseForm", "BranchForm"), """type T = +{tick : 1}
let src() : T =
    u : 1 <- new close self;
    self.tick<u>
let use(x : T) : 1 =
    <y, x> <- split x;
    case x (tick<a> => print got_x; wait a;
    case y (tick<b> => print got_y; wait b; close self))
prc[main] : 1 =
    s <- new src();
    use(s)
"""),
    (("helpers", "NewForm", "ReceiveForm", "DropForm", "CaseForm", "BranchForm"), """type N = &{go : 1}
let leaf() : N = case self (go<c> => close c)
let unit() : 1 = close self
let mk() : N * 1 =
    k <- new leaf();
    e <- new unit();
    send self<k, e>
let holder(p : N, q : N) : N = case self (go<c> => drop p; drop q; close c)
prc[main] : 1 =
    a <- new mk();
    b <- new mk();
    <k1, e1> <- recv a;
    <k2, e2> <- recv b;
    wait e1;
    wait e2;
    v <- new holder(k1, k2);
    drop v;
    print done;
    close self
"""),
    (("DropForm", "WaitForm", "CallForm", "PrintForm"), """type T = lin 1
type U = aff 1
let f(w : U, z : T) : T = drop w; wait z; close self
prc[w1] : U = close self
prc[w2] : U = close self
prc[z1] : T = close self
prc[z2] : T = close self
prc[a] : T = f(w1, z1)
prc[b] : T = f(w2, z2)
prc[c] : T = wait a; print a_done; close self
prc[d] : T = wait b; print b_done; close self
"""),
    (("ShiftForm", "CastForm", "WaitForm", "PrintForm", "CloseForm"), """type srvT = lin /\\ lin 1
let srv(u : lin 1) : srvT =
    y <- shift self;
    wait u;
    print served;
    close y
prc[u1] : lin 1 = print one; close self
prc[u2] : lin 1 = print two; close self
prc[s1] : srvT = srv(u1)
prc[s2] : srvT = srv(u2)
prc[c1] : lin 1 = cast s1<self>
prc[c2] : lin 1 = cast s2<self>
prc[main] : lin 1 = wait c1; wait c2; print done; close self
"""),
    (("NewForm", "WaitForm", "ForwardForm", "SelectForm", "CaseForm", "BranchForm"), """type C = +{l : 1}
let one() : 1 = close self
let mk(a : 1) : C = self.l<a>
let idc(a : C) : C = fwd self a
let use(a : 1) : 1 =
    a <- new mk(a);
    a <- new idc(a);
    case a (l<a> => print inner; wait a; close self)
prc[main] : 1 =
    u <- new one();
    r <- new use(u);
    wait r; print outer; close self
"""),
]


def _entries(txt):
    """section -> {key: value text} of a generated FormOps.v (one `("Key", value)` per line)"""
    out = collections.OrderedDict()
    sec = None
    for line in txt.split("\n"):
        m = re.match(r"Definition (\w+) :", line)
        if m:
            sec = m.group(1)
            out[sec] = collections.OrderedDict()
            if sec in ("has_cont",):
                continue
        if sec is None or sec == "table":
            continue
        if sec == "name_fields":
            if line.strip():
                out[sec][""] = line.strip()
            continue
        if sec == "name_ops":
            if not m and line.strip() and len(out[sec]) < 3:
                k = ["Initialized", "Equal", "Substitute"][min(len(out[sec]), 2)]
                out[sec][k] = line.strip().rstrip(".")
            continue
        if sec == "has_cont":
            if line.strip().startswith("("):
                out[sec][""] = line.strip().rstrip(".")
            continue
        m = re.match(r"\s*\[?\(\"(\w+)\", (.*?)\)\]?[;.]?\s*$", line)
        if m:
            out[sec][m.group(1)] = m.group(2)
    return out


def changed_entries(cur_txt, ref_txt):
    cur, ref = _entries(cur_txt), _entries(ref_txt)
    ch = []
    for sec in sorted(set(cur) | set(ref)):
        a, b = cur.get(sec, {}), ref.get(sec, {})
        for k in list(a) + [k for k in b if k not in a]:
            if a.get(k) != b.get(k):
                ch.append({"section": sec, "key": k, "go": GO_NAME.get(sec, sec + " %s") % k,
                           "reference": b.get(k, "(absent)"), "current": a.get(k, "(absent)")})
        if list(a) != list(b) and not [c for c in ch if c["section"] == sec]:
            ch.append({"section": sec, "key": "", "go": sec + " (order of declarations)", "reference": " ".join(b), "current": " ".join(a)})
    return ch


def drift(b=None):
    """None when the current translation is the reference one and the translator ran"""
    info = {"translator_error": None, "changed": []}
    bad = [g for g in ("FormOps.v", "NameOps.v") if b is not None and g in b.gen_errors]
    if bad:
        e = b.gen_errors[bad[0]]
        info["translator_error"] = e.strip()[-1200:]
        m = re.search(r"cannot translate (.*?): (.*)", e)
        if m:
            info["refused"] = {"go": m.group(1), "why": m.group(2)}
        return info
    try:
        cur = open(CUR).read() + "\n" + open(CUR_N).read()
        ref = open(REF).read() + "\n" + open(REF_N).read()
    except OSError as ex:
        info["translator_error"] = repr(ex)
        return info
    if cur == ref:
        return None
    info["changed"] = changed_entries(cur, ref)
    return info if info["changed"] else None


def _types_of(info):
    ts = set()
    if info.get("refused"):
        m = re.search(r"\*?(\w+Form)\b", info["refused"]["go"])
        ts.add(m.group(1) if m else "helpers")
        if not m:
            ts.add("*")
    for c in info.get("changed", []):
        if c["section"] in ("name_ops", "name_fields"):
            ts.add("*")
        elif c["section"] in ("subst_methods", "free_methods", "copy_cases", "structs"):
            ts.add(c["key"])
        elif c["section"] == "ctors":
            ts.add("*")
        else:
            ts.add("helpers" if c["section"] == "helpers" else "*")
    return ts


def candidates(info):
    ts = _types_of(info)
    out = []
    for k, (tys, text) in enumerate(FOCUS):
        if "*" in ts or ts & set(tys) or not ts:
            out.append(("focus:%d" % k, text))
    rest = [("focus:%d" % k, text) for k, (tys, text) in enumerate(FOCUS) if ("focus:%d" % k, text) not in out]
    out += rest
    from . import runsuite as R
    for p in sorted(glob.glob(os.path.join(C.CORPUS, "run", "*.grits"))):
        t = open(p, "rb").read().decode("latin1")
        if R.is_closed(t):
            out.append(("corpus:" + os.path.basename(p), t))
    try:
        from . import runshapes
        for i, t in runshapes.programs():
            if R.is_closed(t):
                out.append((i, t))
    except Exception:  # noqa: BLE001
        pass
    return out


def search(b, info, prop, limit=3):
    """run the candidates through the implementation and the model; return (violations with input, number run)"""
    from . import runsuite as R
    from . import suite as S
    cands = candidates(info)
    if b.probe_error or b.model_error or not cands:
        return [], 0
    cases = [(i, "", t) for i, t in cands]
    impl_v = S.run_tool(b.probe, "tc", cases, timeout=600)
    first = lambda x: x.split("\t")[0].split(" ")[0]
    # the VERDICT first: a substitution / name comparison that goes wrong inside the checker's own use of it (expansion of
    # explicit providers, free names of a cut body) flips the verdict of a program the model accepts or rejects
    model_v = S.run_tool(b.model, "tc", cases, timeout=600)
    found0 = []
    for i, t in cands:
        a, m = first(impl_v.get(i, "MISSING")), first(model_v.get(i, "MISSING"))
        if a != m and a in ("ACCEPT", "REJECT") and m in ("ACCEPT", "REJECT"):
            found0.append(C.Violation(
                "form.go / name.go changed (%s): the checker's verdict on %s is %s, the model's %s" % (
                    "; ".join(c["go"] for c in info.get("changed", [])[:3]) or (info.get("refused") or {}).get("go", "translator refused"), i, a, m),
                {"property": prop, "kind": "formops-drift", "program_text": t, "input_hex": R.hexs(t), "case": i,
                 "observed": {"verdict": a}, "expected_by_model": {"verdict": m}, "verdict": m,
                 "changed_methods": info.get("changed", [])[:6], "translator_refused": info.get("refused"),
                 "replay_cmd": "bin/check %s --replay <this file>" % prop}))
            if len(found0) >= limit:
                return found0, len(cands)
    acc = [(i, t) for i, t in cands if first(impl_v.get(i, "")) == "ACCEPT"]
    mres = S.run_tool(b.model, "run-async-0", [(i, "", t) for i, t in acc], timeout=900)
    found = list(found0)
    ran = 0
    for i, t in acc:
        m = R.parse_model_line(mres.get(i, "MISSING"))
        if m["tag"] != "RAN":
            continue
        ran += 1
        want = collections.Counter(m["prints"])
        r = R.run_impl_once(b.probe, t, "async", 0, 400)
        if collections.Counter(r["prints"]) == want and not r["panic"]:
            continue
        r = R.run_impl_once(b.probe, t, "async", 0, 1500)   # not an artefact of the timer
        if collections.Counter(r["prints"]) == want and not r["panic"]:
            continue
        found.append(C.Violation(
            "form.go changed (%s): the interpreter prints %s (panic %s) on %s, the model %s" % (
                "; ".join(c["go"] for c in info.get("changed", [])[:3]) or (info.get("refused") or {}).get("go", "translator refused"),
                sorted(r["prints"]), r["panic"], i, sorted(want.elements())),
            {"property": prop, "kind": "formops-drift", "program_text": t, "input_hex": R.hexs(t), "case": i,
             "observed": {"prints": r["prints"], "panic": r["panic"]}, "expected_by_model": {"prints": sorted(want.elements())},
             "changed_methods": info.get("changed", [])[:6], "translator_refused": info.get("refused"),
             "replay_cmd": "bin/check %s --replay <this file>" % prop}))
        if len(found) >= limit:
            break
    return found, ran


def diagnose(b, ps, prop):
    """(violations, coverage info) for the check of `prop`"""
    info = drift(b)
    if info is None:
        return [], {"drift": False}
    broken = [f for f in ps.broken if f in (AGREE_V, AGREE_N, "theories/gen/FormOps.v", "theories/gen/NameOps.v", "theories/FormIR.v", "theories/NameIR.v")] or \
             [f for f, e in ps.broken.items() if "FormOps" in e or "NameOps" in e]
    cov = {"drift": True, "changed": [c["go"] for c in info.get("changed", [])], "refused": info.get("refused"),
           "agreement_theorems_broken": bool(broken)}
    if not broken and not info.get("translator_error"):
        # a different but equivalent source: the theorems were re-proved for the current table
        cov["note"] = "the translation differs from lib/ref_formops.v but C14_formops_* still check: refresh the reference copy"
        return [], cov
    found, ran = search(b, info, prop)
    cov["candidates_run"] = ran
    if found:
        return found, cov
    thms = sorted({t for c in info.get("changed", []) for t in THEOREMS.get(c["section"], [])})
    what = [{"what": "theorem %s (proofs/FormOpsAgree.v) for %s" % (", ".join(THEOREMS.get(c["section"], ["C14_formops_*"])), c["go"]),
             "detail": "reference: %s\ncurrent:   %s" % (c["reference"][:600], c["current"][:600])} for c in info.get("changed", [])[:8]]
    if info.get("translator_error"):
        what.append({"what": "translator `probe formops` refuses %s" % (info.get("refused") or {}).get("go", "form.go"),
                     "detail": info["translator_error"]})
    v = C.Violation(
        "the code of form.go no longer translates to the model of Subst.v (%s); no program on which interpreter and model differ was found among %d candidates" % (
            "; ".join(c["go"] for c in info.get("changed", [])[:4]) or (info.get("refused") or {}).get("go", "translator refused"), ran),
        {"property": prop, "kind": "unproven", "theorems": thms, "no_longer_checks": what,
         "note": "no concrete failing input was found by the search"}, found_input=False)
    return [v], cov


if __name__ == "__main__":
    import json
    import sys
    d = drift()
    print(json.dumps(d, indent=1))
    sys.exit(0 if d is None else 1)
