"""'Garbage that parses': grammatical programs (grammar of /repo/parser/parser.y) whose statements
ignore typing to a seeded degree.  Every text is built from grammatical fragments, so nearly all
of them are accepted by the parser; what they mean is left to chance: undefined functions and
type names, wrong arities, self in odd positions, explicit polarities on any name, untyped cuts,
empty case, duplicated labels / binders / declarations, non-contractive and mutually recursive type
definitions, shifts with nonsense modes.  A 'directed' share of the choices follows the provider
type or the type of a name in scope, so that the later rules of the checker (and their error
paths) are reached and not only the preliminary checks.

Types are kept as tuples so that the generator can unfold them:
  ("n", X) ("1",) ("*", a, b) ("-*", a, b) ("+", [(l, t)..]) ("&", [(l, t)..]) ("up", f, t, a) ("dn", f, t, a)
  ("m", mode, t)   explicit head modality"""
import random

MODES = ["lin", "aff", "mul", "rep"]
ODD_MODES = ["foo", "bar", "l", "R", "Linear", "x", "unset", "1a"]
TNAMES = ["A", "B", "C", "nat", "T"]
LABELS = ["l", "r", "zero", "succ", "l1"]
VARS = ["x", "y", "z", "w", "a", "b", "u", "x'"]
FUNS = ["f", "g", "h"]


class Gen:
    def __init__(self, rng, chaos):
        self.r = rng
        self.chaos = chaos          # probability of an undirected choice
        self.env = {}               # type name -> body
        self.sigs = {}              # function name -> (param list [(x, t)], ret)
        self.fresh = 0
        self.stats = set()
        self.defined = []           # names of the type definitions of this program
        self.defmode = {}           # their modes ("rep" when the program is unmoded)
        self.moded = False

    # ------------------------------------------------------------------ helpers
    def ch(self, p=None):
        """a deviation: with probability `chaos` where no p is given, else p scaled by the chaos level"""
        return self.r.random() < (self.chaos if p is None else p * min(2.0, self.chaos / 0.15))

    def mode(self):
        if self.ch(0.12):
            return self.r.choice(ODD_MODES)
        return self.r.choice(MODES)

    def tname(self, cur=None):
        if self.ch(0.1):
            return self.r.choice(["Z", "undefined", "self'", "lin"] + TNAMES)
        same = [x for x in self.defined if self.defmode.get(x) == cur or cur is None]
        if self.ch(0.1):
            same = self.defined
        return self.r.choice(same) if same else None

    def label(self):
        return self.r.choice(LABELS)

    def var(self):
        return self.r.choice(VARS)

    def newvar(self, ctx):
        if self.ch(0.15):
            return self.var()          # may clash with a name in scope
        self.fresh += 1
        for v in VARS:
            if v not in ctx:
                return v
        return "v%d" % self.fresh

    # ------------------------------------------------------------------ types
    def ty(self, depth, cur="rep"):
        """a type whose outer mode is meant to be `cur` (shifts change it for their operand)"""
        r = self.r
        k = r.random()
        if depth <= 0 or k < 0.3:
            x = self.tname(cur)
            return ("1",) if x is None or r.random() < 0.5 else ("n", x)
        if k < 0.42:
            return ("*", self.ty(depth - 1, cur), self.ty(depth - 1, cur))
        if k < 0.54:
            return ("-*", self.ty(depth - 1, cur), self.ty(depth - 1, cur))
        if k < 0.8 or not self.moded:
            n = r.choice([1, 1, 2, 2, 3])
            labs = [self.label() for _ in range(n)] if self.ch(0.2) else r.sample(LABELS, n)
            return (r.choice("+&"), [(l, self.ty(depth - 1, cur)) for l in labs])
        if self.ch(0.25):
            return (r.choice(["up", "dn"]), self.mode(), self.mode(), self.ty(depth - 1, cur))
        up = r.random() < 0.5
        weaker = {"rep": ["rep", "mul", "aff", "lin"], "mul": ["mul", "lin"], "aff": ["aff", "lin"], "lin": ["lin"]}
        stronger = {"rep": ["rep"], "mul": ["rep", "mul"], "aff": ["rep", "aff"], "lin": ["rep", "mul", "aff", "lin"]}
        f = r.choice(weaker[cur] if up else stronger[cur]) if cur in weaker else self.mode()
        return ("up" if up else "dn", f, cur, self.ty(depth - 1, f))

    def tmode(self, t):
        """the mode a type expression is meant to have (for printing a head annotation)"""
        if t[0] == "n":
            return self.defmode.get(t[1], "rep")
        if t[0] in ("up", "dn"):
            return t[2]
        if t[0] in ("*", "-*"):
            return self.tmode(t[1])
        if t[0] in ("+", "&") and t[1]:
            return self.tmode(t[1][0][1])
        return None

    def show(self, t, left=False):
        k = t[0]
        if k == "n":
            return t[1]
        if k == "1":
            return "1"
        if k in ("*", "-*"):
            s = "%s %s %s" % (self.show(t[1], True), k, self.show(t[2]))
            return "(" + s + ")" if left or self.ch(0.1) else s
        if k in ("+", "&"):
            return "%s{%s}" % (k, ", ".join("%s : %s" % (l, self.show(a)) for l, a in t[1]))
        if k in ("up", "dn"):
            s = "%s %s %s %s" % (t[1], "/\\" if k == "up" else "\\/", t[2], self.show(t[3]))
            return "(" + s + ")" if left else s
        if k == "m":
            inner = self.show(t[2], True)
            # a modality is only grammatical in front of a whole session_type or a shift
            return inner
        return "1"

    def show_top(self, t, cur=None):
        if not self.moded:
            return self.show(t) if not self.ch(0.05) else "%s %s" % (self.mode(), self.show(t))
        if self.ch(0.1):
            return "%s %s" % (self.mode(), self.show(t))
        m = cur or self.tmode(t)
        if m is None:
            m = self.r.choice(MODES)
        if t[0] == "n" or (m == "rep" and self.r.random() < 0.5):
            return self.show(t)
        return "%s %s" % (m, self.show(t))

    def unfold(self, t, n=6):
        while t is not None and n > 0:
            if t[0] == "m":
                t = t[2]
            elif t[0] == "n":
                t = self.env.get(t[1])
            else:
                return t
            n -= 1
        return None

    # ------------------------------------------------------------------ names
    def deco(self, n):
        if self.ch(0.12):
            return self.r.choice(["+", " -"]) + n     # "<-x" would be scanned as the arrow
        return n

    def prov(self, selfnames):
        if self.ch(0.1):
            return self.deco(self.var())
        return self.deco(self.r.choice(selfnames))

    def client(self, ctx):
        if ctx and not self.ch(0.15):
            return self.deco(self.r.choice(sorted(ctx)))
        return self.deco(self.r.choice(VARS + ["self"]))

    # ------------------------------------------------------------------ expressions
    def build(self, ctx, t, depth):
        """cuts that create a fresh name of type t (positive types only: the body of a cut is an
        axiom form); returns (prefix, name) or None"""
        u = self.unfold(t)
        if u is None or depth <= 0:
            return None
        self.fresh += 1
        y = "n%d" % self.fresh
        ann = "%s : %s" % (y, self.show_top(t))
        if u[0] == "1":
            return "%s <- new close self; " % ann, y
        if u[0] == "+":
            l, a = self.r.choice(u[1])
            inner = self.build(ctx, a, depth - 1)
            if inner:
                return "%s%s <- new self.%s<%s>; " % (inner[0], ann, l, inner[1]), y
        if u[0] == "*":
            a, b = self.build(ctx, u[1], depth - 1), self.build(ctx, u[2], depth - 1)
            if a and b:
                return "%s%s%s <- new send self<%s, %s>; " % (a[0], b[0], ann, a[1], b[1]), y
        if u[0] == "dn":
            a = self.build(ctx, u[3], depth - 1)
            if a:
                return "%s%s <- new cast self<%s>; " % (a[0], ann, a[1]), y
        fs = [f for f in sorted(self.sigs) if self.sigs[f][1] == t and not self.sigs[f][0]]
        if fs:
            return "%s <- new %s(); " % (y, self.r.choice(fs)), y
        return None

    def get(self, ctx, t, depth, used):
        """a client name of type t: one in scope (not yet in `used`), or built by cuts"""
        for x in sorted(ctx):
            if ctx[x] == t and x not in used and not self.ch(0.1):
                used.append(x)
                return "", self.deco(x)
        if not self.ch(0.15):
            b = self.build(ctx, t, min(depth, 3))
            if b:
                return b[0], self.deco(b[1])
        return "", self.client(ctx)

    def finish(self, ctx, used, tail, pty, selfnames):
        """get rid of the names of ctx that `tail` (an axiom form) does not use"""
        pre = ""
        for x in sorted(ctx):
            if x not in used and not self.ch(0.15):
                pre += ("wait %s; " if self.unfold(ctx[x]) == ("1",) else "drop %s; ") % x
        return pre + tail

    def expr(self, ctx, pty, selfnames, depth):
        """ctx: name -> type (or None); pty: provider type or None"""
        r = self.r
        if depth <= 0:
            return self.leaf(ctx, pty, selfnames)
        if self.ch():
            return self.wild(ctx, pty, selfnames, depth)
        cands = []
        up = self.unfold(pty)
        if up is not None:
            cands += [("R", up)] * 3
        for x in sorted(ctx):
            ux = self.unfold(ctx[x])
            if ux is not None:
                cands.append(("L", x, ux))
        cands += [("cut",), ("call",), ("print",)]
        if ctx:
            cands += [("fwd",), ("drop",), ("split",)]
        c = r.choice(cands)
        self.stats.add(c[0] + (":" + c[-1][0] if c[0] in "RL" else ""))
        if c[0] == "R":
            return self.right(ctx, pty, c[1], selfnames, depth)
        if c[0] == "L":
            return self.left(ctx, pty, c[1], c[2], selfnames, depth)
        if c[0] == "cut":
            return self.cut(ctx, pty, selfnames, depth)
        if c[0] == "call":
            return self.call(ctx, selfnames)
        if c[0] == "print":
            return "print %s; %s" % (self.label(), self.expr(ctx, pty, selfnames, depth - 1))
        if c[0] == "fwd":
            return "fwd %s %s" % (self.prov(selfnames), self.client(ctx))
        x = self.client(ctx)
        rest = {k: v for k, v in ctx.items() if k != x.lstrip("+- ")}
        if c[0] == "drop":
            return "drop %s; %s" % (x, self.expr(rest, pty, selfnames, depth - 1))
        y, z = self.newvar(ctx), self.newvar(dict(ctx, q=None))
        if y == z and not self.ch(0.3):
            z = z + "'"
        t = ctx.get(x.lstrip("+- "))
        return "<%s, %s> <- split %s; %s" % (y, z, x, self.expr(dict(rest, **{y: t, z: t}), pty, selfnames, depth - 1))

    def leaf(self, ctx, pty, selfnames):
        r = self.r
        up = self.unfold(pty)
        k = r.random()
        if ctx and k < 0.3:
            return "fwd %s %s" % (self.prov(selfnames), self.client(ctx))
        if up is not None and up[0] == "*" and k < 0.7:
            return "send %s<%s, %s>" % (self.prov(selfnames), self.client(ctx), self.client(ctx))
        if up is not None and up[0] == "+" and k < 0.7:
            return "%s.%s<%s>" % (self.prov(selfnames), r.choice(up[1])[0] if not self.ch(0.2) else self.label(), self.client(ctx))
        if up is not None and up[0] == "dn" and k < 0.7:
            return "cast %s<%s>" % (self.prov(selfnames), self.client(ctx))
        if k < 0.85:
            return "close %s" % self.prov(selfnames)
        return self.call(ctx, selfnames)

    def right(self, ctx, pty, up, selfnames, depth):
        k = up[0]
        s = self.prov(selfnames)
        if k == "1":
            if ctx and not self.ch(0.1):
                x = self.client(ctx)
                rest = {a: b for a, b in ctx.items() if a != x.lstrip("+- ")}
                verb = "wait" if self.unfold(ctx.get(x.lstrip("+- "))) == ("1",) or self.ch(0.3) else "drop"
                return "%s %s; %s" % (verb, x, self.expr(rest, pty, selfnames, depth - 1))
            return "close %s" % s
        if k == "*":
            used = []
            p1, a = self.get(ctx, up[1], depth, used)
            p2, b = self.get(ctx, up[2], depth, used)
            return p1 + p2 + self.finish(ctx, used, "send %s<%s, %s>" % (s, a, b), pty, selfnames)
        if k == "-*":
            x, y = self.newvar(ctx), self.newvar(dict(ctx, q=None))
            if x == y and not self.ch(0.3):
                y = y + "'"
            return "<%s, %s> <- recv %s; %s" % (x, y, s, self.expr(dict(ctx, **{x: up[1]}), up[2], ["self", y], depth - 1))
        if k == "+":
            l, t = self.r.choice(up[1])
            if self.ch(0.15):
                l = self.label()
            used = []
            p1, a = self.get(ctx, t, depth, used)
            return p1 + self.finish(ctx, used, "%s.%s<%s>" % (s, l, a), pty, selfnames)
        if k == "&":
            brs = []
            opts = list(up[1])
            if self.ch(0.2) and opts:
                opts = opts[:-1]
            if self.ch(0.15):
                opts = opts + [self.r.choice(opts or [("l", ("1",))])]
            if self.ch(0.1):
                opts = opts + [(self.label(), ("1",))]
            for l, t in opts:
                y = self.newvar(ctx)
                brs.append("%s<%s> => %s" % (l, y, self.expr(dict(ctx), t, ["self", y], depth - 1)))
            return "case %s (%s)" % (s, " | ".join(brs))
        if k == "up":
            y = self.newvar(ctx)
            return "%s <- shift %s; %s" % (y, s, self.expr(dict(ctx), up[3], ["self", y], depth - 1))
        if k == "dn":
            used = []
            p1, a = self.get(ctx, up[3], depth, used)
            return p1 + self.finish(ctx, used, "cast %s<%s>" % (s, a), pty, selfnames)
        return "close %s" % s

    def left(self, ctx, pty, x, ux, selfnames, depth):
        k = ux[0]
        rest = {a: b for a, b in ctx.items() if a != x}
        xs = self.deco(x)
        s = self.prov(selfnames)
        if k == "1":
            return "wait %s; %s" % (xs, self.expr(rest, pty, selfnames, depth - 1))
        if k == "*":
            y, z = self.newvar(ctx), self.newvar(dict(ctx, q=None))
            if y == z and not self.ch(0.3):
                z = z + "'"
            return "<%s, %s> <- recv %s; %s" % (y, z, xs, self.expr(dict(rest, **{y: ux[1], z: ux[2]}), pty, selfnames, depth - 1))
        if k == "-*":
            used = []
            p1, a = self.get(rest, ux[1], depth, used)
            return p1 + self.finish(rest, used, "send %s<%s, %s>" % (xs, a, s), pty, selfnames)
        if k == "+":
            brs = []
            opts = list(ux[1])
            if self.ch(0.2) and opts:
                opts = opts[:-1]
            if self.ch(0.15):
                opts = opts + [self.r.choice(opts or [("l", ("1",))])]
            for l, t in opts:
                y = self.newvar(ctx)
                brs.append("%s<%s> => %s" % (l, y, self.expr(dict(rest, **{y: t}), pty, selfnames, depth - 1)))
            return "case %s (%s)" % (xs, " | ".join(brs))
        if k == "&":
            l, t = self.r.choice(ux[1])
            if self.ch(0.15):
                l = self.label()
            return self.finish(rest, [], "%s.%s<%s>" % (xs, l, s), pty, selfnames)
        if k == "up":
            return self.finish(rest, [], "cast %s<%s>" % (xs, s), pty, selfnames)
        if k == "dn":
            y = self.newvar(ctx)
            return "%s <- shift %s; %s" % (y, xs, self.expr(dict(rest, **{y: ux[3]}), pty, selfnames, depth - 1))
        return "wait %s; close self" % xs

    def call(self, ctx, selfnames):
        r = self.r
        fn = r.choice(sorted(self.sigs) or FUNS) if not self.ch(0.15) else r.choice(FUNS + ["undef"])
        params = self.sigs.get(fn, ([], None))[0]
        n = len(params)
        if self.ch(0.2):
            n = max(0, n + r.choice([-1, 1, 2]))
        names = sorted(ctx)
        r.shuffle(names)
        args = [self.deco(names[i]) if i < len(names) and not self.ch(0.15) else self.client(ctx) for i in range(n)]
        if self.ch(0.3):
            args = [self.prov(selfnames)] + args
        return "%s(%s)" % (fn, ", ".join(args))

    def cut(self, ctx, pty, selfnames, depth):
        r = self.r
        y = self.newvar(ctx)
        if self.ch(0.1) and ctx:
            y = r.choice(sorted(ctx))       # re-use of a name in scope
        names = sorted(ctx)
        r.shuffle(names)
        k = r.randrange(len(names) + 1)
        left = {a: ctx[a] for a in names[:k]}
        right = {a: ctx[a] for a in names[k:]}
        if self.ch(0.15):
            right = dict(ctx)
        if r.random() < 0.5 and self.sigs:
            fn = r.choice(sorted(self.sigs))
            params, ret = self.sigs[fn]
            args = [self.deco(a) for a in list(left)[:len(params)]]
            while len(args) < len(params) and not self.ch(0.3):
                args.append(self.client(ctx))
            if self.ch(0.3):
                args = [r.choice([y, "self"])] + args
            body = "%s(%s)" % (fn, ", ".join(args))
            return "%s <- new %s; %s" % (y, body, self.expr(dict(right, **{y: ret}), pty, selfnames, depth - 1))
        t = self.ty(2, r.choice(MODES) if self.moded else "rep") if self.ch(0.4) or not self.env else ("n", r.choice(sorted(self.env)))
        body = self.leaf(left, t, ["self", y]) if not self.ch(0.2) else self.expr(left, t, ["self", y], 1)
        ann = "%s : %s" % (y, self.show_top(t)) if not self.ch(0.15) else y
        if self.ch(0.3):
            body = "(" + body + ")"
        return "%s <- new %s; %s" % (ann, body, self.expr(dict(right, **{y: t}), pty, selfnames, depth - 1))

    def wild(self, ctx, pty, selfnames, depth):
        r = self.r
        n = lambda: self.deco(r.choice(VARS + ["self", "self"] + sorted(ctx)))  # noqa: E731
        e = lambda: self.expr(ctx, pty, selfnames, depth - 1)  # noqa: E731
        k = r.randrange(15)
        self.stats.add("wild")
        if k == 0:
            return "send %s<%s, %s>" % (n(), n(), n())
        if k == 1:
            return "<%s, %s> <- recv %s; %s" % (n(), n(), n(), e())
        if k == 2:
            return "%s.%s<%s>" % (n(), self.label(), n())
        if k == 3:
            m = r.choice([0, 0, 1, 2, 3])
            return "case %s (%s)" % (n(), " | ".join("%s<%s> => %s" % (self.label(), n(), e()) for _ in range(m)))
        if k == 4:
            return "%s <- new %s; %s" % (n(), e(), e())
        if k == 5:
            return "%s : %s <- new %s; %s" % (self.var(), self.show_top(self.ty(2)), e(), e())
        if k == 6:
            return self.call(ctx, selfnames)
        if k == 7:
            return "close %s" % n()
        if k == 8:
            return "fwd %s %s" % (n(), n())
        if k == 9:
            return "<%s, %s> <- split %s; %s" % (n(), n(), n(), e())
        if k == 10:
            return "wait %s; %s" % (n(), e())
        if k == 11:
            return "cast %s<%s>" % (n(), n())
        if k == 12:
            return "%s <- shift %s; %s" % (n(), n(), e())
        if k == 13:
            return "drop %s; %s" % (n(), e())
        return "(%s)" % e()

    # ------------------------------------------------------------------ programs
    def program(self):
        r = self.r
        stmts = []
        self.moded = r.random() < 0.5
        ntypes = r.choice([0, 1, 2, 3, 4])
        names = r.sample(TNAMES, min(ntypes, len(TNAMES)))
        self.defined = list(names)
        for x in names:
            self.defmode[x] = r.choice(MODES) if self.moded and r.random() < 0.6 else "rep"
        for x in names:
            if self.ch(0.1):
                body = ("n", r.choice(names + ["Z"]))        # alias / non-contractive
            else:
                body = self.ty(r.choice([1, 2, 3]), self.defmode[x])
                if body[0] == "n" and not self.ch(0.3):
                    body = ("+", [(self.label(), body)])
            self.env[x] = body
        for x in names:
            stmts.append("type %s = %s" % (x, self.show_top(self.env[x], self.defmode[x])))
        if self.ch(0.1) and names:
            x = r.choice(names)
            stmts.append("type %s = %s" % (x, self.show(self.ty(1))))    # duplicate definition
        pool = [("n", x) for x in names] + [("1",)]

        def pick():
            if self.ch(0.3):
                return self.ty(2, r.choice(MODES) if self.moded else "rep")
            return r.choice(pool)

        nf = r.choice([0, 1, 1, 2, 3])
        for fn in r.sample(FUNS, nf):
            ps = []
            for _ in range(r.choice([0, 1, 1, 2, 3])):
                v = self.var() if self.ch(0.1) else r.choice([v for v in VARS if v not in [p[0] for p in ps]])
                ps.append((v, pick()))
            self.sigs[fn] = (ps, pick())
        for fn in sorted(self.sigs):
            ps, ret = self.sigs[fn]

            def pshow(p):
                if self.ch(0.08):
                    return p[0]
                return "%s : %s" % (p[0], self.show_top(p[1]))
            ctx = dict(ps)
            rs = self.show_top(ret)
            if r.random() < 0.25:
                w = self.newvar(ctx)
                head = "let %s[%s%s%s]" % (fn, w, " : " + rs if not self.ch(0.1) else "",
                                            "".join(", " + pshow(p) for p in ps))
                body = self.expr(ctx, ret, ["self", w], r.choice([1, 2, 3, 4]))
            else:
                head = "let %s(%s)%s" % (fn, ", ".join(pshow(p) for p in ps), " : " + rs if not self.ch(0.08) else "")
                body = self.expr(ctx, ret, ["self"], r.choice([1, 2, 3, 4]))
            stmts.append("%s = %s" % (head, body))
        if self.ch(0.1) and self.sigs:
            fn = r.choice(sorted(self.sigs))
            stmts.append("let %s() : 1 = close self" % fn)           # duplicate function
        np_ = r.choice([0, 1, 1, 2])
        provs = r.sample(["p", "q", "s", "t"], np_)
        ptys = {p: pick() for p in provs}
        assumed = {}
        if self.ch(0.3):
            for v in r.sample(["k", "m"], r.choice([1, 2])):
                assumed[v] = pick()
            stmts.append("assuming " + ", ".join("%s : %s" % (v, self.show(t)) if not self.ch(0.1) else v for v, t in assumed.items()))
        for i, p in enumerate(provs):
            ctx = {}
            for q in provs[i + 1:]:
                if r.random() < 0.6:
                    ctx[q] = ptys[q]
            for v in assumed:
                if r.random() < 0.6:
                    ctx[v] = assumed[v]
            hd = p if not self.ch(0.15) else p + ", " + r.choice(["p2", "q", p])
            tys = (" : " + self.show_top(ptys[p])) if not self.ch(0.08) else ""
            stmts.append("prc[%s]%s = %s" % (hd, tys, self.expr(ctx, ptys[p], ["self", p] if "," not in hd else ["self"], r.choice([1, 2, 3, 4]))))
        if self.ch(0.25):
            nullary = [f for f in sorted(self.sigs) if not self.sigs[f][0]]
            if nullary or self.ch(0.2):
                stmts.append("exec %s()" % r.choice(nullary or FUNS))
        if self.ch(0.3):
            r.shuffle(stmts)
        return "\n".join(stmts) + "\n"


def stream(seed, n):
    """yields (id, kind, text)"""
    rng = random.Random(seed * 7919 + 13)
    for i in range(n):
        chaos = rng.choice([0.03, 0.08, 0.15, 0.3, 0.6])
        g = Gen(random.Random(rng.getrandbits(48)), chaos)
        try:
            t = g.program()
        except RecursionError:
            continue
        yield "g%d" % i, "garbage:%.2f" % chaos, t
