"""Correspondence helper: run the Go probe (implementation) and the extracted OCaml model on the
same case file and return both observables per case.  A crash of the probe process (a Go panic in
a goroutine kills it) is isolated by re-running the remaining cases one by one."""
import os
import tempfile
import time

from . import common as C


def _parse_lines(out):
    res = {}
    for line in out.split("\n"):
        if "\t" in line:
            i, v = line.split("\t", 1)
            res[i] = v
    return res


MAX_CRASHES = 40


def run_tool(binary, sub, cases, timeout=600, extra_args=()):
    """cases: list of (id, kind, text). returns dict id -> observable ('CRASH ...' when the tool died on it).
    A tool that keeps dying (a stack overflow on every input of some shape takes seconds each) is restarted at most
    MAX_CRASHES times; the cases left are reported as 'NOT-RUN ...' so that a check stays within minutes - the crashes
    seen so far are what it reports."""
    os.makedirs(os.path.join(C.CACHE, "tmp"), exist_ok=True)
    res = {}
    todo = list(cases)
    crashes = 0
    while todo:
        if crashes >= MAX_CRASHES:
            for c in todo:
                res[c[0]] = "NOT-RUN the tool died %d times before reaching this case" % crashes
            break
        fd, path = tempfile.mkstemp(dir=os.path.join(C.CACHE, "tmp"), suffix=".cases")
        os.close(fd)
        with open(path, "w") as f:
            for i, _, t in todo:
                f.write("%s\t%s\n" % (i, t.encode("latin1", "replace").hex()))
        rc, out, err = C.run([binary, sub, path] + list(extra_args), timeout=timeout)
        os.remove(path)
        got = _parse_lines(out)
        res.update(got)
        if rc == 0 and len(got) >= len(todo):
            break
        # the tool died (or timed out) before finishing: the first case without output is the culprit
        rest = [c for c in todo if c[0] not in got]
        if not rest:
            break
        bad = rest[0]
        tail = (err or "")[-400:].replace("\n", " | ")
        res[bad[0]] = "CRASH rc=%d %s" % (rc, "TIMEOUT" if rc == 124 else tail)
        crashes += 1
        todo = rest[1:]
    return res


def correspond(b, sub, cases, project=lambda s: s, timeout=600, model_sub=None):
    """returns (impl, model, mismatches) ; mismatches = list of (id, kind, text, impl_obs, model_obs)
    comparing the PROJECTED observables only"""
    impl = run_tool(b.probe, sub, cases, timeout)
    model = run_tool(b.model, model_sub or sub, cases, timeout)
    mism = []
    for i, k, t in cases:
        a, m = impl.get(i, "MISSING"), model.get(i, "MISSING")
        if a.startswith("NOT-RUN") or m.startswith("NOT-RUN"):
            continue
        if project(a) != project(m):
            mism.append((i, k, t, a, m))
    return impl, model, mism


def shrink_text(text, still_fails, budget=200):
    """greedy delta-debugging on a text: drop lines, then tokens, keeping `still_fails` true"""
    t0 = time.time()
    cur = text
    for sep in ("\n", " "):
        changed = True
        while changed and budget > 0 and time.time() - t0 < 20:
            changed = False
            parts = cur.split(sep)
            for i in range(len(parts)):
                cand = sep.join(parts[:i] + parts[i + 1:])
                budget -= 1
                if cand != cur and still_fails(cand):
                    cur = cand
                    changed = True
                    break
                if budget <= 0:
                    break
    return cur
