"""C12 — grammar drift: the productions recovered from the CURRENT LR tables (coq/theories/gen/LRTables.v tR1,
gen/LRCert.v tRhs; regenerated from /repo by the translators) against the committed reference grammar
(lib/ref_grammar.json = coq/theories/spec/RefGrammar.v).  When they differ the theorem C12_grammar_is_reference is
broken; this module then SEARCHES for a concrete text: for every production of the current grammar that is not a
reference production, the shortest sentence that uses it (shortest yield of its right-hand side inside the shortest
context of its left-hand side), rendered with one lexeme per token; a text the real parser accepts although the
REFERENCE grammar does not derive its token sequence (Earley recogniser over the reference productions) is a text
"accepted although it is not a sentence of the documented grammar"."""
import json
import os
import re

from . import common as C

LEX = {"LABEL": None, "LEFT_ARROW": "<-", "RIGHT_ARROW": "=>", "UP_ARROW": "/\\", "DOWN_ARROW": "\\/", "EQUALS": "=", "DOT": ".",
       "SEQUENCE": ";", "COLON": ":", "COMMA": ",", "LPAREN": "(", "RPAREN": ")", "LSBRACK": "[", "RSBRACK": "]", "LANGLE": "<",
       "RANGLE": ">", "PIPE": "|", "SEND": "send", "RECEIVE": "recv", "CASE": "case", "CLOSE": "close", "WAIT": "wait", "CAST": "cast",
       "SHIFT": "shift", "ACCEPT": "accept", "ACQUIRE": "acquire", "DETACH": "detach", "RELEASE": "release", "DROP": "drop",
       "SPLIT": "split", "PUSH": "push", "NEW": "new", "SNEW": "snew", "TYPE": "type", "LET": "let", "IN": "in", "END": "end",
       "SPRC": "sprc", "PRC": "prc", "FORWARD": "fwd", "SELF": "self", "PRINT": "print", "PLUS": "+", "MINUS": "-", "TIMES": "*",
       "AMPERSAND": "&", "UNIT": "1", "LCBRACK": "{", "RCBRACK": "}", "LOLLI": "-*", "PERCENTAGE": "%", "ASSUMING": "assuming", "EXEC": "exec"}


def _coqlist(txt, name):
    m = re.search(r"Definition %s : [^=]*:= (\[.*?\])\.\n" % name, txt, re.S)
    return json.loads(m.group(1).replace("(", "").replace(")", "").replace(";", ","))


def current():
    cert = open(os.path.join(C.COQ, "theories", "gen", "LRCert.v")).read()
    tabs = open(os.path.join(C.COQ, "theories", "gen", "LRTables.v")).read()
    return {"r1": _coqlist(tabs, "tR1"), "rhs": _coqlist(cert, "tRhs")}


def reference():
    return json.load(open(os.path.join(C.VERIF, "lib", "ref_grammar.json")))


def prods(g):
    return [(-g["r1"][p], tuple(g["rhs"][p])) for p in range(1, len(g["r1"]))]


def shortest_yields(ps):
    y = {}
    changed = True
    while changed:
        changed = False
        for lhs, rhs in ps:
            parts = []
            ok = True
            for x in rhs:
                if x > 0:
                    parts.append([x])
                elif x in y:
                    parts.append(y[x])
                else:
                    ok = False
                    break
            if ok:
                cand = [t for part in parts for t in part]
                if lhs not in y or len(cand) < len(y[lhs]):
                    y[lhs] = cand
                    changed = True
    return y


def shortest_contexts(ps, start, y):
    ctx = {start: ([], [])}
    changed = True

    def yl(seq):
        out = []
        for x in seq:
            if x > 0:
                out.append(x)
            elif x in y:
                out.extend(y[x])
            else:
                return None
        return out
    while changed:
        changed = False
        for lhs, rhs in ps:
            if lhs not in ctx:
                continue
            pre, suf = ctx[lhs]
            for i, x in enumerate(rhs):
                if x < 0:
                    a, b = yl(rhs[:i]), yl(rhs[i + 1:])
                    if a is None or b is None:
                        continue
                    cand = (pre + a, b + suf)
                    if x not in ctx or len(cand[0]) + len(cand[1]) < len(ctx[x][0]) + len(ctx[x][1]):
                        ctx[x] = cand
                        changed = True
    return ctx


def earley(ps, start, toks):
    """recogniser; ps = [(lhs, rhs tuple)], symbols: terminals > 0, nonterminals < 0"""
    by = {}
    for lhs, rhs in ps:
        by.setdefault(lhs, []).append(rhs)
    n = len(toks)
    chart = [set() for _ in range(n + 1)]
    for rhs in by.get(start, []):
        chart[0].add((start, rhs, 0, 0))
    for i in range(n + 1):
        work = list(chart[i])
        while work:
            lhs, rhs, dot, org = work.pop()
            if dot < len(rhs):
                x = rhs[dot]
                if x < 0:
                    for r2 in by.get(x, []):
                        it = (x, r2, 0, i)
                        if it not in chart[i]:
                            chart[i].add(it)
                            work.append(it)
                    # nullable completion
                    for (l3, r3, d3, o3) in list(chart[i]):
                        if l3 == x and d3 == len(r3) and o3 == i:
                            it = (lhs, rhs, dot + 1, org)
                            if it not in chart[i]:
                                chart[i].add(it)
                                work.append(it)
                elif i < n and toks[i] == x:
                    chart[i + 1].add((lhs, rhs, dot + 1, org))
            else:
                for (l3, r3, d3, o3) in list(chart[org]):
                    if d3 < len(r3) and r3[d3] == lhs:
                        it = (l3, r3, d3 + 1, o3)
                        if it not in chart[i]:
                            chart[i].add(it)
                            work.append(it)
    return any(l == start and d == len(r) and o == 0 for (l, r, d, o) in chart[n])


def render(toks, toknames):
    out, k = [], 0
    for t in toks:
        name = toknames[t - 1]
        if name == "LABEL":
            out.append("a%d" % k)
            k += 1
        else:
            out.append(LEX.get(name) or name.lower())
    return " ".join(out)


def drift():
    """None when the recovered grammar is the reference; else (changed productions, candidate texts with their token lists)"""
    cur, ref = current(), reference()
    pc, pr = prods(cur), prods(ref)
    if pc == pr:
        return None
    new = [q for q in pc if q not in set(pr)]
    start = pc[0][0]
    y = shortest_yields(pc)
    ctx = shortest_contexts(pc, start, y)
    cands = []
    for lhs, rhs in new:
        if lhs not in ctx:
            continue
        mid = []
        ok = True
        for x in rhs:
            if x > 0:
                mid.append(x)
            elif x in y:
                mid.extend(y[x])
            else:
                ok = False
        if not ok:
            continue
        toks = ctx[lhs][0] + mid + ctx[lhs][1]
        toks = [t for t in toks if t != 1]      # $end
        cands.append(((lhs, rhs), toks, render(toks, ref["toknames"])))
    removed = [q for q in pr if q not in set(pc)]
    return {"new": new, "removed": removed, "candidates": cands, "ref_prods": pr, "start": pr[0][0]}
