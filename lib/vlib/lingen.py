"""Targeted program texts for C05 (substructural discipline) and C06 (mode independence), plus the
shared driver of the two checks: verdict correspondence probe tc / model tc on the text stream and on
the targeted texts, and the executable oracle (extracted from spec/Oracle.v) applied to every program
the IMPLEMENTATION accepts."""
import itertools
import json
import random

from . import common as C
from . import suite as S
from . import textgen as T

MODES = ["lin", "aff", "mul", "rep"]


def verdict(obs):
    """first word of the observable: ACCEPT / REJECT / REJECT-INTERNAL / HANG / PARSE-ERR / ..."""
    return (obs.split() or ["MISSING"])[0]


# ----------------------------------------------------------------------------------------
# C05
# ----------------------------------------------------------------------------------------

def c05_targeted():
    """(id, kind, text): a name used twice / never / on one path only; every binder kind re-binding a
    live name, the consumed subject, the other binder, the provider's name; drop and split at each
    mode (parameter, bound name, through a type name); multi-name declarations at each mode"""
    out = []

    def add(kind, text):
        out.append(("c05:%d" % len(out), kind, text))

    for m in MODES:
        add("drop-param-" + m, "let f(x : %s 1) : %s 1 = drop x; close self" % (m, m))
        add("drop-bound-" + m, "let f(x : %s (1 * 1)) : %s 1 = <a, b> <- recv x; drop a; wait b; close self" % (m, m))
        add("drop-alias-" + m, "type A = %s 1\nlet f(x : A) : A = drop x; close self" % m)
        add("drop-case-payload-" + m, "type C = %s +{l : 1}\nlet f(x : C) : %s 1 = case x ( l<c> => drop c; close self )" % (m, m))
        add("split-param-" + m, "let f(x : %s 1) : %s 1 = <a, b> <- split x; wait a; wait b; close self" % (m, m))
        add("split-bound-" + m, "let f(x : %s (1 * 1)) : %s 1 = <a, b> <- recv x; <c, d> <- split a; wait c; wait d; wait b; close self" % (m, m))
        add("split-alias-" + m, "type A = %s 1\nlet f(x : A) : A = <a, b> <- split x; wait a; wait b; close self" % m)
        add("split-then-drop-" + m, "let f(x : %s 1) : %s 1 = <a, b> <- split x; drop a; drop b; close self" % (m, m))
        add("multi-prc-" + m, "prc[a, b] : %s 1 = close self\nprc[c] : %s 1 = wait a; wait b; close self" % (m, m))
        add("multi-prc3-" + m, "prc[a, b, c] : %s 1 = close self\nprc[d] : %s 1 = wait a; wait b; wait c; close self" % (m, m))
        add("single-prc-" + m, "prc[a] : %s 1 = close self\nprc[c] : %s 1 = wait a; close self" % (m, m))
        add("shift-drop-" + m, "let f(x : %s \\/ lin 1) : lin 1 = y <- shift x; drop y; close self" % m)
        add("never-" + m, "let f(x : %s 1) : %s 1 = close self" % (m, m))
        add("twice-" + m, "let f(x : %s 1) : %s 1 = wait x; wait x; close self" % (m, m))
        add("once-" + m, "let f(x : %s 1) : %s 1 = wait x; close self" % (m, m))
    # uses: twice / never / one path only, by kind of consumer
    add("never-2", "let f(x : lin 1, y : lin 1) : lin 1 = wait x; close self")
    add("twice-send", "let f(x : lin 1) : lin (1 * 1) = send self<x, x>")
    add("twice-cut-body", "let f(x : lin 1) : lin 1 = y : lin (1 * 1) <- new send self<x, x>; <a, b> <- recv y; wait a; wait b; close self")
    add("twice-call", "let g(a : lin 1, b : lin 1) : lin 1 = wait a; wait b; close self\nlet f(x : lin 1) : lin 1 = g(x, x)")
    add("twice-body-and-cont", "let f(x : lin 1) : lin 1 = y : lin 1 <- new fwd self x; wait y; wait x; close self")
    add("once-body", "let f(x : lin 1) : lin 1 = y : lin 1 <- new fwd self x; wait y; close self")
    add("fwd-and-left", "let f(x : lin 1, y : lin 1) : lin 1 = fwd self x")
    add("case-one-path", "type C = lin +{l : 1, r : 1}\nlet f(x : C, y : lin 1) : lin 1 = case x ( l<c> => wait c; wait y; close self | r<c> => wait c; close self )")
    add("case-both-paths", "type C = lin +{l : 1, r : 1}\nlet f(x : C, y : lin 1) : lin 1 = case x ( l<c> => wait c; wait y; close self | r<c> => wait y; wait c; close self )")
    add("case-self-one-path", "type W = lin &{l : 1, r : 1}\nlet f(y : lin 1) : W = case self ( l<c> => wait y; close c | r<c> => close c )")
    add("case-self-both", "type W = lin &{l : 1, r : 1}\nlet f(y : lin 1) : W = case self ( l<c> => wait y; close c | r<d> => wait y; close d )")
    add("payload-unused", "type C = lin +{l : 1}\nlet f(x : C) : lin 1 = case x ( l<c> => close self )")
    add("recv-unused", "let f(x : lin (1 * 1)) : lin 1 = <a, b> <- recv x; wait a; close self")
    add("cut-name-unused", "let f() : lin 1 = y : lin 1 <- new close self; close self")
    add("cut-name-twice", "let f() : lin 1 = y : lin 1 <- new close self; wait y; wait y; close self")
    add("undeclared", "let f() : lin 1 = wait q; close self")
    add("self-as-client", "let f() : lin 1 = wait self; close self")
    add("call-explicit-self", "let g(a : lin 1) : lin 1 = wait a; close self\nlet f(x : lin 1) : lin 1 = g(self, x)")
    add("call-explicit-self-missing", "let g(a : lin 1) : lin 1 = wait a; close self\nlet f(x : lin 1, y : lin 1) : lin 1 = g(self, x)")
    add("cut-reuse-call", "let g(a : lin 1) : lin 1 = wait a; close self\nlet f(x : lin 1) : lin 1 = x <- new g(x); wait x; close self")
    add("cut-reuse-not-in-body", "let f(x : lin 1) : lin 1 = x : lin 1 <- new close self; wait x; close self")
    add("cut-new-name-in-body", "let f() : lin 1 = y : lin 1 <- new close y; wait y; close self")
    # every binder kind x what the new name N collides with
    templates = [
        ("recv-client-pay", "let f(x : lin (1 * 1), y : lin 1) : lin 1 = <%(N)s, b> <- recv x; wait %(N)s; wait b; wait y; close self", ["n", "y", "x", "b"]),
        ("recv-client-cont", "let f(x : lin (1 * 1), y : lin 1) : lin 1 = <a, %(N)s> <- recv x; wait a; wait %(N)s; wait y; close self", ["n", "y", "x", "a"]),
        ("recv-self-pay", "let f(y : lin 1) : lin (1 -* 1) = <%(N)s, s> <- recv self; wait %(N)s; wait y; close s", ["n", "y", "s"]),
        ("recv-self-cont", "let f(y : lin 1) : lin (1 -* 1) = <a, %(N)s> <- recv self; wait a; wait y; close %(N)s", ["n", "y", "a"]),
        ("case-client", "type C = lin +{l : 1}\nlet f(x : C, y : lin 1) : lin 1 = case x ( l<%(N)s> => wait %(N)s; wait y; close self )", ["n", "y", "x"]),
        ("case-self", "type W = lin &{l : 1}\nlet f(y : lin 1) : W = case self ( l<%(N)s> => wait y; close %(N)s )", ["n", "y"]),
        ("case-self-cut", "type W = lin &{l : 1}\nlet f(y : lin 1) : W = case self ( l<%(N)s> => z : lin 1 <- new fwd self y; wait z; close %(N)s )", ["n", "y", "z"]),
        ("split", "let f(x : rep 1, y : rep 1) : rep 1 = <%(N)s, b> <- split x; drop %(N)s; drop b; drop y; close self", ["n", "y", "x", "b"]),
        ("split-second", "let f(x : rep 1, y : rep 1) : rep 1 = <a, %(N)s> <- split x; drop a; drop %(N)s; drop y; close self", ["n", "y", "x", "a"]),
        ("shift-client", "let f(x : lin \\/ lin 1, y : lin 1) : lin 1 = %(N)s <- shift x; wait %(N)s; wait y; close self", ["n", "y", "x"]),
        ("shift-self", "let f(y : lin 1) : lin /\\ lin 1 = %(N)s <- shift self; wait y; close %(N)s", ["n", "y"]),
        ("cut", "let f(x : lin 1, y : lin 1) : lin 1 = %(N)s : lin 1 <- new fwd self x; wait %(N)s; wait y; close self", ["n", "y", "x"]),
        ("cut-call", "let g(a : lin 1) : lin 1 = wait a; close self\nlet f(x : lin 1, y : lin 1) : lin 1 = %(N)s <- new g(x); wait %(N)s; wait y; close self", ["n", "y", "x"]),
        # binders that take the name currently bound for the provider (F22)
        ("prov-name:cut", "let f() : lin (1 -* 1) = <a, p> <- recv self; %(N)s : lin 1 <- new close self; wait a; q : lin 1 <- new fwd self %(N)s; wait q; close p", ["n", "p", "a"]),
        ("prov-name:case-client", "type C = lin +{l : 1}\nlet f() : lin (C -* 1) = <a, p> <- recv self; case a ( l<%(N)s> => q : lin 1 <- new fwd self %(N)s; wait q; close p )", ["n", "p", "a"]),
        ("prov-name:split", "let f() : rep (1 -* 1) = <a, p> <- recv self; <%(N)s, b> <- split a; drop b; q : rep 1 <- new fwd self %(N)s; drop q; close p", ["n", "p", "a"]),
        ("prov-name:recv-client", "let f() : lin ((1 * 1) -* 1) = <a, p> <- recv self; <%(N)s, b> <- recv a; wait b; q : lin 1 <- new fwd self %(N)s; wait q; close p", ["n", "p", "a"]),
        ("prov-name:shift-client", "let f() : lin ((lin \\/ lin 1) -* 1) = <a, p> <- recv self; %(N)s <- shift a; q : lin 1 <- new fwd self %(N)s; wait q; close p", ["n", "p", "a"]),
        ("prov-name:after-shift", "let f() : lin /\\ lin 1 = p <- shift self; %(N)s : lin 1 <- new close self; wait %(N)s; close p", ["n", "p"]),
        ("prov-name:after-case", "type W = lin &{l : 1}\nlet f() : W = case self ( l<p> => %(N)s : lin 1 <- new close self; wait %(N)s; close p )", ["n", "p"]),
    ]
    for kind, tpl, names in templates:
        for n in names:
            add("%s:N=%s" % (kind, n), tpl % {"N": n})
    # top-level processes and assumed names
    add("prc-name-twice", "prc[a] : lin 1 = close self\nprc[b] : lin 1 = wait a; close self\nprc[c] : lin 1 = wait a; close self")
    add("prc-name-never", "prc[a] : lin 1 = close self\nprc[b] : lin 1 = close self")
    add("prc-chain", "prc[a] : lin 1 = close self\nprc[b] : lin 1 = wait a; close self")
    add("prc-own-name", "prc[a] : lin 1 = wait a; close self")
    add("assume-unused", "assuming z : lin 1\nprc[b] : lin 1 = close self")
    add("assume-used", "assuming z : lin 1\nprc[b] : lin 1 = wait z; close self")
    add("assume-twice", "assuming z : lin 1\nprc[b] : lin 1 = wait z; close self\nprc[c] : lin 1 = wait z; close self")
    add("multi-prc-used-once-each", "prc[a, b] : rep 1 = close self\nprc[c] : lin 1 = drop a; drop b; close self")
    add("multi-prc-call", "let g() : rep 1 = close self\nprc[a, b] : rep 1 = g()\nprc[c] : lin 1 = drop a; drop b; close self")
    add("exec", "let main() : lin 1 = close self\nexec main()")
    return out


# ----------------------------------------------------------------------------------------
# C06
# ----------------------------------------------------------------------------------------

def c06_targeted():
    """every one of the 16 mode pairs (m1 = the channel used, m2 = the provider) at every place where
    the calculus relates two modes"""
    out = []

    def add(kind, text):
        out.append(("c06:%d" % len(out), kind, text))

    for m1, m2 in itertools.product(MODES, MODES):
        pair = "%s-%s" % (m1, m2)
        add("fun-param-vs-result:" + pair, "let f(x : %s 1) : %s 1 = wait x; close self" % (m1, m2))
        add("fun-two-params:" + pair, "let f(x : %s 1, y : lin 1) : %s 1 = wait x; wait y; close self" % (m1, m2))
        add("new-vs-provider:" + pair, "let f() : %s 1 = y : %s 1 <- new close self; wait y; close self" % (m2, m1))
        add("new-vs-provider-call:" + pair, "let g() : %s 1 = close self\nlet f() : %s 1 = y <- new g(); wait y; close self" % (m1, m2))
        add("cut-ctx-vs-new-cast:" + pair, "let f(x : %s 1) : lin 1 = y : %s \\/ %s 1 <- new cast self<x>; z <- shift y; wait z; close self" % (m1, m1, m2))
        add("cut-ctx-vs-new-call:" + pair, "let g(a : %s 1) : %s 1 = wait a; close self\nlet f(x : %s 1) : lin 1 = y <- new g(x); wait y; close self" % (m1, m2, m1))
        add("cut-ctx-vs-new-call-rep:" + pair, "let g(a : %s 1) : %s 1 = wait a; close self\nlet f(x : %s 1) : %s 1 = y <- new g(x); wait y; close self" % (m1, m2, m1, m2))
        add("prc-root:" + pair, "prc[a] : %s 1 = wait b; close self\nprc[b] : %s 1 = close self" % (m2, m1))
        add("prc-root-assumed:" + pair, "assuming b : %s 1\nprc[a] : %s 1 = wait b; close self" % (m1, m2))
        add("prc-inner-cut:" + pair, "prc[a] : lin 1 = y : %s 1 <- new close self; z : %s \\/ %s 1 <- new cast self<y>; w <- shift z; wait w; close self" % (m1, m1, m2))
        add("prc-new-vs-provider:" + pair, "prc[a] : %s 1 = y : %s 1 <- new close self; wait y; close self" % (m2, m1))
        add("type-up:" + pair, "type U = %s /\\ %s 1\nlet f() : U = x <- shift self; close x" % (m1, m2))
        add("type-down:" + pair, "type V = %s \\/ %s 1\nlet f(x : V) : lin 1 = y <- shift x; wait y; close self" % (m1, m2))
        add("shift-self-up:" + pair, "let f() : %s /\\ %s 1 = x <- shift self; close x" % (m1, m2))
        add("shift-client-down:" + pair, "let f(x : %s \\/ %s 1) : %s 1 = y <- shift x; wait y; close self" % (m1, m2, m2))
        add("cast-self-down:" + pair, "let f(x : %s 1) : %s \\/ %s 1 = cast self<x>" % (m1, m1, m2))
        add("cast-client-up:" + pair, "let f(x : %s /\\ %s 1) : %s 1 = cast x<self>" % (m1, m2, m1))
        add("shift-up-with-ctx:" + pair, "let f(y : %s 1) : lin /\\ %s 1 = x <- shift self; wait y; close x" % (m1, m2))
        add("shift-up-ctx-weaker:" + pair, "let f(y : %s 1) : %s /\\ %s 1 = x <- shift self; wait y; close x" % (m2, m1, m2))
        add("down-in-tensor:" + pair, "let f(x : %s ((%s \\/ %s 1) * 1)) : %s 1 = <a, b> <- recv x; c <- shift a; wait c; wait b; close self" % (m2, m1, m2, m2))
        add("case-payload:" + pair, "type C = %s +{l : 1}\nlet f(x : C) : %s 1 = case x ( l<c> => wait c; close self )" % (m1, m2))
        add("recv-self-payload:" + pair, "let f(y : %s 1) : %s (1 -* 1) = <a, s> <- recv self; wait a; wait y; close s" % (m1, m2))
        # a correctly directed shift NESTED in a type of another mode (its target mode m1 against the
        # surrounding mode m2): the provider would be handed a channel of a weaker mode
        add("nested-down-in-lolli:" + pair, "let f() : %s ((lin \\/ %s 1) -* 1) = <x, s> <- recv self; w <- shift x; wait w; close s" % (m2, m1))
        add("nested-down-in-tensor-param:" + pair, "let f(p : %s ((rep \\/ %s 1) * 1)) : %s 1 = <x, y> <- recv p; w <- shift x; wait w; wait y; close self" % (m2, m1, m2))
        add("nested-down-in-branch:" + pair, "let f() : %s &{l : rep \\/ %s 1} = case self ( l<c> => d <- shift c; wait d; close self )" % (m2, m1))
        add("nested-up-in-up:" + pair, "let f(x : aff 1) : %s /\\ %s (%s /\\ rep 1) = y <- shift self; z <- shift y; wait x; close z" % (m2, m2, m1))
        add("nested-up-in-choice:" + pair, "type C = %s +{l : lin /\\ %s 1}\nlet f(x : C) : lin 1 = case x ( l<c> => r : lin 1 <- new cast c<self>; wait r; close self )" % (m2, m1))
    # ---- the HEAD of the antecedent's / the provider's type is itself a shift (or any other constructor): the mode
    # that counts is the mode of the channel (target mode of a down shift, source mode of ... as the code defines it),
    # not a mode found inside the type.  All 64 triples (k, m, n) at every place where an antecedent meets a provider.
    for k, m, n in itertools.product(MODES, MODES, MODES):
        tr = "%s-%s-%s" % (k, m, n)
        add("head-down-param:" + tr, "let f(x : %s \\/ %s 1) : %s 1 = y <- shift x; wait y; close self" % (k, m, n))
        add("head-down-param-drop:" + tr, "let f(x : %s \\/ %s 1) : %s 1 = y <- shift x; drop y; close self" % (k, m, n))
        add("head-down-param-alias:" + tr, "type D = %s \\/ %s 1\nlet f(x : D) : %s 1 = y <- shift x; wait y; close self" % (k, m, n))
        add("head-up-param-drop:" + tr, "let f(x : %s /\\ %s 1) : %s 1 = drop x; close self" % (k, m, n))
        add("head-up-param-cast:" + tr, "let f(x : %s /\\ %s 1) : %s 1 = y : %s 1 <- new cast x<self>; wait y; close self" % (k, m, n, k))
        add("head-down-cut-ann:" + tr, "let f(z : %s 1) : %s 1 = y : %s \\/ %s 1 <- new cast self<z>; w <- shift y; wait w; close self" % (k, n, k, m))
        add("head-down-cut-call:" + tr, "let g(z : %s 1) : %s \\/ %s 1 = cast self<z>\nlet f(z : %s 1) : %s 1 = y <- new g(z); w <- shift y; wait w; close self" % (k, k, m, k, n))
        add("head-down-cut-call-alias:" + tr, "type D = %s \\/ %s 1\nlet g(z : %s 1) : D = cast self<z>\nlet f(z : %s 1) : %s 1 = y <- new g(z); w <- shift y; wait w; close self" % (k, m, k, k, n))
        add("head-up-cut-ann:" + tr, "let f() : %s 1 = y : %s /\\ %s 1 <- new (u <- shift self; close u); drop y; close self" % (n, k, m))
        # the provider's type is a shift and a cut stands in front of the shift (p = n here: the spawned channel)
        add("prov-up-cut-before-shift:" + tr, "let g() : %s /\\ %s 1 = x : %s 1 <- new close self; z <- shift self; wait x; close z" % (k, m, n))
        add("prov-up-cut-before-shift-drop:" + tr, "let g() : %s /\\ %s 1 = x : %s 1 <- new close self; z <- shift self; drop x; close z" % (k, m, n))
        add("prov-up-cut-call-before-shift:" + tr, "let h() : %s 1 = close self\nlet g() : %s /\\ %s 1 = x <- new h(); z <- shift self; wait x; close z" % (n, k, m))
        add("prov-up-alias-cut-before-shift:" + tr, "type U = %s /\\ %s 1\nlet g() : U = x : %s 1 <- new close self; z <- shift self; wait x; close z" % (k, m, n))
        add("prov-up-prc-cut-before-shift:" + tr, "prc[a] : %s /\\ %s 1 = x : %s 1 <- new close self; z <- shift self; wait x; close z" % (k, m, n))
        add("prov-down-cut-before-cast:" + tr, "let g(z : %s 1) : %s \\/ %s 1 = x : %s 1 <- new close self; wait x; cast self<z>" % (k, k, m, n))
        add("prov-up-cut-after-shift:" + tr, "let g() : %s /\\ %s 1 = z <- shift self; x : %s 1 <- new close self; wait x; close z" % (k, m, n))
    # every other head constructor of the provider's type (mode m) with a cut (mode p) in front of its first action,
    # and of the antecedent's type (mode m) against a provider of mode n
    for m, p_ in itertools.product(MODES, MODES):
        pair = "%s-%s" % (m, p_)
        add("prov-head-tensor:" + pair, "let g(a : %s 1) : %s (1 * 1) = x : %s 1 <- new close self; wait x; b : %s 1 <- new close self; send self<a, b>" % (m, m, p_, m))
        add("prov-head-lolli:" + pair, "let g() : %s (1 -* 1) = x : %s 1 <- new close self; <a, s> <- recv self; wait x; wait a; close s" % (m, p_))
        add("prov-head-plus:" + pair, "let g() : %s +{l : 1} = x : %s 1 <- new close self; wait x; c : %s 1 <- new close self; self.l<c>" % (m, p_, m))
        add("prov-head-with:" + pair, "let g() : %s &{l : 1} = x : %s 1 <- new close self; case self ( l<s> => wait x; close s )" % (m, p_))
        add("ante-head-tensor:" + pair, "let f(x : %s (1 * 1)) : %s 1 = <a, b> <- recv x; wait a; wait b; close self" % (m, p_))
        add("ante-head-lolli:" + pair, "let f(x : %s (1 -* 1)) : %s 1 = a : %s 1 <- new close self; b : %s 1 <- new send x<a, self>; wait b; close self" % (m, p_, m, m))
        add("ante-head-plus:" + pair, "let f(x : %s +{l : 1}) : %s 1 = case x ( l<c> => wait c; close self )" % (m, p_))
        add("ante-head-with:" + pair, "let f(x : %s &{l : 1}) : %s 1 = c : %s 1 <- new x.l<self>; wait c; close self" % (m, p_, m))
        add("ante-head-alias:" + pair, "type A = %s 1\ntype B = A\nlet f(x : B) : %s 1 = wait x; close self" % (m, p_))
        add("ante-head-drop:" + pair, "let f(x : %s (1 * 1)) : %s 1 = drop x; close self" % (m, p_))
    return out


# ----------------------------------------------------------------------------------------
# shared driver
# ----------------------------------------------------------------------------------------

def construct_profile(text):
    ks = ["case", "new", "drop", "split", "shift", "cast", "recv", "send", "fwd", "wait", "prc", "let", "assuming", "exec", "print"]
    return [k for k in ks if k in text]


def run_property(b, prop, tier, seed, targeted, oracle_sub, oracle_ok, known_prefixes=()):
    """returns (violations, known, coverage-dict)"""
    n_mut, n_rand = (1500, 200) if tier == "quick" else (40000, 4000)
    stream = list(T.stream(seed, n_mut, n_rand))
    from . import smallprogs as SP
    small = list(SP.stream(seed, None))
    from . import declshapes as DS
    cases = stream + list(targeted) + small + list(DS.stream())
    if tier != "quick":
        # thorough: single-token mutants of the targeted texts as well
        rng = random.Random(seed + 7)
        for j in range(20 * len(targeted)):
            i, k, t = rng.choice(targeted)
            mk, mt = T.mutate(rng, t)
            cases.append(("tm%d" % j, k + "+" + mk, mt))
    violations, known = [], []
    impl, model, mism = S.correspond(b, "tc", cases, project=verdict, timeout=3000)
    oracle = S.run_tool(b.model, oracle_sub, cases, timeout=3000)
    accepted = [(i, k, t) for i, k, t in cases if verdict(impl.get(i, "MISSING")) == "ACCEPT"]
    # 1. verdict correspondence
    for i, k, t, a, m in mism[:5]:
        def still(x, _b=b):
            r1 = S.run_tool(_b.probe, "tc", [("x", "", x)], timeout=60).get("x", "MISSING")
            r2 = S.run_tool(_b.model, "tc", [("x", "", x)], timeout=60).get("x", "MISSING")
            return verdict(r1) != verdict(r2)
        small = S.shrink_text(t, still) if len(t) < 6000 else t
        o = S.run_tool(b.model, oracle_sub, [("x", "", small)], timeout=60).get("x", "MISSING")
        ra = verdict(S.run_tool(b.probe, "tc", [("x", "", small)], timeout=60).get("x", "MISSING"))
        concrete = ra == "ACCEPT" and o.startswith("VIOLATES")
        violations.append(C.Violation(
            "verdict of the implementation (%s) differs from the model (%s) on %s (%s); oracle on it: %s" % (verdict(a), verdict(m), i, k, o),
            {"property": prop, "kind": "accepted-program-violates" if concrete else "verdict-mismatch", "input_text": small, "input_hex": small.encode("latin1", "replace").hex(),
             "implementation": a[:300], "model": m[:300], "oracle": o, "case_kind": k,
             "no_longer_checks": [] if concrete else [{"what": "correspondence probe tc / model tc (verdict)", "detail": "the theorem is about the model; the implementation no longer agrees with it on this input"}],
             "replay_cmd": "bin/check %s --replay <this file>" % prop},
            found_input=concrete))
    # 2. the executable oracle on everything the implementation accepts
    n_known = 0
    bad_flags = []
    for i, k, t in accepted:
        o = oracle.get(i, "MISSING")
        if "uninit=0" in o or "moded=0" in o:
            bad_flags.append((i, k, t, o))
        if oracle_ok(o):
            continue
        if any(o.startswith(p) for p in known_prefixes):
            n_known += 1
            continue
        if len([v for v in violations if v.found_input]) >= 5:
            continue

        def still(x, _b=b, _o=o.split()[0]):
            r1 = S.run_tool(_b.probe, "tc", [("x", "", x)], timeout=60).get("x", "MISSING")
            r2 = S.run_tool(_b.model, oracle_sub, [("x", "", x)], timeout=60).get("x", "MISSING")
            return verdict(r1) == "ACCEPT" and r2.startswith(_o) and not oracle_ok(r2)
        small = S.shrink_text(t, still) if len(t) < 6000 else t
        violations.append(C.Violation(
            "the implementation ACCEPTS a program that the %s oracle rejects (%s): %s" % (prop, o, small[:200]),
            {"property": prop, "kind": "accepted-program-violates", "input_text": small, "input_hex": small.encode("latin1", "replace").hex(),
             "oracle": o, "case_kind": k, "replay_cmd": "bin/check %s --replay <this file>" % prop}))
    for i, k, t, o in bad_flags[:3]:
        violations.append(C.Violation(
            "a premise of the theorem does not hold of a parsed program (%s): %s" % (o, t[:200]),
            {"property": prop, "kind": "unproven", "input_text": t, "oracle": o,
             "no_longer_checks": [{"what": "premise uninit_prog / env_moded_b of the property theorem on parser output", "detail": o}]},
            found_input=False))
    # coverage
    verdicts = {}
    for i, _, _ in cases:
        v = verdict(impl.get(i, "MISSING"))
        verdicts[v] = verdicts.get(v, 0) + 1
    tv = {}
    for i, k, _ in targeted:
        k0 = k.split(":")[0]
        d = tv.setdefault(k0, {})
        v = verdict(impl.get(i, "MISSING"))
        d[v] = d.get(v, 0) + 1
    nontrivial = {t for i, k, t in cases if verdict(impl.get(i, "MISSING")) in ("ACCEPT", "REJECT", "REJECT-INTERNAL", "HANG")}
    oracle_on_accepted = {}
    for i, _, _ in accepted:
        o = (oracle.get(i, "MISSING").split() or ["MISSING"])[0]
        oracle_on_accepted[o] = oracle_on_accepted.get(o, 0) + 1
    constructs = {}
    for i, k, t in accepted:
        for c in construct_profile(t):
            constructs[c] = constructs.get(c, 0) + 1
    samples = [{"id": i, "kind": k, "text": t[:160], "impl": verdict(impl.get(i, "MISSING")), "model": verdict(model.get(i, "MISSING")),
                "oracle": oracle.get(i, "")} for i, k, t in (list(targeted)[:3] + list(targeted)[-3:] + stream[5:7])]
    cov = {
        "evaluations": len(cases),
        "distinct_nontrivial": len(nontrivial),
        "rule": "texts = seeds harvested from /repo (examples, test files) + corpus/text + seeded single/double token edits of them + "
                "token soup, and %d targeted programs generated for this property (see lib/vlib/lingen.py); a case is non-trivial when it "
                "PARSES (the typechecker runs on it: verdict ACCEPT / REJECT / REJECT-INTERNAL / HANG), distinct by text" % len(targeted),
        "samples": samples,
        "verdicts_impl": verdicts,
        "targeted_cases": len(targeted),
        "targeted_verdicts_by_kind": tv,
        "accepted_by_impl": len(accepted),
        "oracle_on_accepted": oracle_on_accepted,
        "constructs_in_accepted": constructs,
        "verdict_mismatches": len(mism),
        "known_finding_shapes_seen": n_known,
    }
    if n_known:
        known.append("K1 top-level prc declarations are not checked for independence: %d accepted programs violate independence ONLY at the root sequent of a prc" % n_known)
    return violations, known, cov


def replay_common(b, path, prop, oracle_sub, oracle_ok):
    r = json.load(open(path))
    if "input_hex" not in r:
        print("no concrete input in this replay file:", r.get("no_longer_checks"))
        return 1
    t = bytes.fromhex(r["input_hex"]).decode("latin1")
    a = S.run_tool(b.probe, "tc", [("x", "", t)], timeout=60).get("x", "MISSING")
    m = S.run_tool(b.model, "tc", [("x", "", t)], timeout=60).get("x", "MISSING")
    o = S.run_tool(b.model, oracle_sub, [("x", "", t)], timeout=60).get("x", "MISSING")
    print("implementation:", a[:200])
    print("model:", m[:80])
    print("oracle:", o)
    bad = (verdict(a) == "ACCEPT" and not oracle_ok(o) and not o.startswith("K1")) or verdict(a) != verdict(m)
    return 1 if bad else 0
