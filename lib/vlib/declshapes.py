"""Declaration-level shapes for the checker properties (C07, C09, C05, C06, C14) and, where accepted and closed, the run
suite.

Systematic families around the places where the checker resolves a NAME of a declaration - a type name through a chain
of aliases, a function by name (and the interpreter by name and arity), a process by any of its provider names - and
around the declaration-level side conditions:

  alias    a channel whose declared type is an alias chain of length 0..5 is acted upon directly, by every action of the
           language (send, receive, select, case, close, wait, shift, cast, forward, cut, call, drop, split)
  cycle    definition chains with a tail of length 0..3 leading into a cycle of length 1..3, in every rotation of the
           declaration order (non-contractive: must be rejected, and promptly)
  dupdecl  two declarations of one name that differ in arity / signature / body / kind (function-function,
           type-type, process-process, function with a type's name), in both orders, with a call of each arity
  order    `exec` before / after the `let` it runs, process before / after the function it calls, type used before
           its definition: every permutation of up to four declarations
  modes    a process declared under one, two or three provider names at each of the four modes (and an unannotated one),
           used by as many clients;   a cut that re-binds its own argument with a result of each mode under a provider
           of each mode;   shift types between every pair of modes, at the root of a parameter type
  ladder   growth families for the preliminary checks: ladders of n two-provider processes (each using both names of
           the next level), chains of n aliases, n functions calling each other in a chain

`stream()` yields (id, kind, text)."""
import itertools

MODES = ["rep", "mul", "aff", "lin"]


def chain_defs(n, body, base="T"):
    """type T0 = T1 ... type T(n-1) = Tn ; type Tn = body  -> name of the head"""
    lines = ["type %s%d = %s%d" % (base, i, base, i + 1) for i in range(n)]
    lines.append("type %s%d = %s" % (base, n, body))
    return lines, base + "0"


def fam_alias():
    out = []
    acts = {
        # (body type, program using a parameter/provider of the alias head H)
        "send": ("1 * 1", "let f(a : 1, b : 1) : H = send self<a, b>"),
        "recvc": ("1 * 1", "let f(x : H) : 1 = <a, b> <- recv x; wait a; wait b; close self"),
        "recvp": ("1 -* 1", "let f() : H = <a, b> <- recv self; wait a; close b"),
        "sendc": ("1 -* 1", "let f(x : H, a : 1) : 1 = send x<a, self>"),
        "sel": ("+{l : 1, r : 1}", "let f(a : 1) : H = self.l<a>"),
        "casec": ("+{l : 1, r : 1}", "let f(x : H) : 1 = case x (l<a> => wait a; close self | r<a> => wait a; close self)"),
        "casep": ("&{l : 1, r : 1}", "let f() : H = case self (l<a> => close a | r<a> => close a)"),
        "selc": ("&{l : 1, r : 1}", "let f(x : H) : 1 = x.l<self>"),
        "close": ("1", "let f() : H = close self"),
        "wait": ("1", "let f(x : H) : 1 = wait x; close self"),
        "fwd": ("1", "let f(x : H) : 1 = fwd self x"),
        "fwd2": ("1", "let f(x : 1) : H = fwd self x"),
        "cut": ("1", "let g() : H = close self\nlet f() : 1 = x <- new g(); wait x; close self"),
        "cutann": ("1", "let f() : 1 = x : H <- new close self; wait x; close self"),
        "call": ("1", "let g(y : H) : 1 = wait y; close self\nlet f(x : 1) : 1 = g(x)"),
        "drop": ("1", "let f(x : H) : 1 = drop x; close self"),
        "split": ("1", "let f(x : H) : 1 = <a, b> <- split x; wait a; wait b; close self"),
        "shiftp": ("lin /\\ lin 1", "let f() : H = y <- shift self; close y"),
        "castc": ("lin /\\ lin 1", "let f(x : H) : lin 1 = cast x<self>"),
        "shiftc": ("lin \\/ lin 1", "let f(x : H) : lin 1 = y <- shift x; wait y; close self"),
        "castp": ("lin \\/ lin 1", "let f(a : lin 1) : H = cast self<a>"),
    }
    for name, (body, prog) in acts.items():
        for n in range(0, 6):
            lines, head = chain_defs(n, body)
            out.append(("decl:alias:%s:%d" % (name, n), "declshape:alias", "\n".join(lines) + "\n" + prog.replace("H", head) + "\n"))
    return out


def fam_cycle():
    out = []
    for tail in range(0, 4):
        for cyc in range(1, 4):
            names = ["A%d" % i for i in range(tail + cyc)]
            defs = []
            for i, nm in enumerate(names):
                nxt = names[i + 1] if i + 1 < len(names) else names[tail]
                defs.append("type %s = %s" % (nm, nxt))
            for rot in range(len(defs)):
                d = defs[rot:] + defs[:rot]
                out.append(("decl:cycle:%d:%d:%d" % (tail, cyc, rot), "declshape:cycle", "\n".join(d) + "\nlet f(x : A0) : 1 = wait x; close self\n"))
            # the same with one productive step inside the cycle (contractive: accepted)
            defs2 = list(defs)
            defs2[-1] = "type %s = 1 * %s" % (names[-1], names[tail])
            out.append(("decl:cycle-ok:%d:%d" % (tail, cyc), "declshape:cycle", "\n".join(defs2) + "\nlet f(x : A0, y : A0) : 1 = fwd self x\n"
                        if False else "\n".join(defs2) + "\nlet f(x : A0) : A%d = fwd self x\n" % (tail,)))
    return out


def fam_dupdecl():
    out = []
    main = "prc[m] : 1 = print ok; close self"
    f0 = "let mk() : 1 = close self"
    f1 = "let mk(x : 1) : 1 = wait x; close self"
    f1s = "let mk(x : 1) : +{a : 1} = self.a<x>"
    f0b = "let mk() : 1 = print other; close self"
    call0 = "prc[c0] : 1 = y <- new mk(); wait y; print c0; close self"
    call1 = "prc[c1] : 1 = u : 1 <- new close self; y <- new mk(u); wait y; print c1; close self"
    call1s = "prc[c2] : 1 = u : 1 <- new close self; y <- new mk(u); case y (a<v> => wait v; print c2; close self)"
    k = 0
    for a, b in itertools.permutations([f0, f1, f1s, f0b], 2):
        for calls in ([], [call0], [call1], [call1s], [call0, call1]):
            out.append(("decl:dupfun:%d" % k, "declshape:dupdecl", "\n".join([a, b] + calls + [main]) + "\n"))
            k += 1
    for a, b in itertools.permutations(["type T = 1", "type T = 1 * 1", "type T = +{l : 1}"], 2):
        out.append(("decl:duptype:%d" % k, "declshape:dupdecl", "\n".join([a, b, "let f(x : T) : 1 = drop x; close self", main]) + "\n"))
        k += 1
    for a, b in itertools.permutations(["prc[p] : 1 = close self", "prc[p] : 1 = print two; close self", "prc[q, p] : 1 = close self"], 2):
        out.append(("decl:dupprc:%d" % k, "declshape:dupdecl", "\n".join([a, b, "prc[m] : 1 = drop p; print ok; close self"]) + "\n"))
        k += 1
    out.append(("decl:funtype:%d" % k, "declshape:dupdecl", "type mk = 1\nlet mk() : mk = close self\nprc[m] : mk = y <- new mk(); wait y; close self\n"))
    return out


def fam_order():
    out = []
    decls = ["type T = +{v : 1}", "let hello() : 1 = print hello; close self", "let w(x : 1) : T = self.v<x>",
             "prc[a] : 1 = y <- new hello(); z <- new w(y); case z (v<u> => wait u; print done; close self)"]
    for k, perm in enumerate(itertools.permutations(decls)):
        out.append(("decl:order:%d" % k, "declshape:order", "\n".join(perm) + "\n"))
    decls2 = ["let hello() : 1 = print hello; close self", "exec hello()", "let bye() : 1 = print bye; close self", "exec bye()"]
    for k, perm in enumerate(itertools.permutations(decls2)):
        out.append(("decl:exec:%d" % k, "declshape:order", "\n".join(perm) + "\n"))
    return out


def fam_modes():
    out = []
    for m in MODES + [""]:
        ty = (m + " 1").strip()
        for provs in (["a"], ["a", "b"], ["a", "b", "c"]):
            clients = "\n".join("prc[k%s] : %s = wait %s; print got%s; close self" % (p, (m + " 1").strip() if m else "1", p, p) for p in provs)
            out.append(("decl:multiprov:%s:%d" % (m or "none", len(provs)), "declshape:modes",
                        "prc[%s] : %s = print once; close self\n%s\n" % (", ".join(provs), ty, clients)))
            out.append(("decl:multiprov-named:%s:%d" % (m or "none", len(provs)), "declshape:modes",
                        "type U = %s\nprc[%s] : U = print once; close self\n%s\n" % (ty, ", ".join(provs), clients)))
    # a cut that re-binds its own argument: result mode r under a provider of mode p, argument of mode q
    for p, q, r in itertools.product(MODES, repeat=3):
        out.append(("decl:rebind:%s:%s:%s" % (p, q, r), "declshape:modes",
                    "let conv(x : %s 1) : %s 1 = wait x; close self\nlet g(x : %s 1) : %s 1 = x <- new conv(x); wait x; close self\n" % (q, r, q, p)))
        out.append(("decl:rebind-fresh:%s:%s:%s" % (p, q, r), "declshape:modes",
                    "let conv(x : %s 1) : %s 1 = wait x; close self\nlet g(x : %s 1) : %s 1 = y <- new conv(x); wait y; close self\n" % (q, r, q, p)))
    # the annotation of a cut: written without a mode (= replicable unless a component fixes one) or with each mode, on a cut
    # whose body is a call of a function of each mode / a direct term, under a provider of the function's mode
    for fm in MODES:
        for ann in [""] + MODES:
            a1 = (ann + " 1").strip()
            a2 = (ann + " (1 * 1)").strip() if ann else "1 * 1"
            out.append(("decl:cutann:call:%s:%s" % (fm, ann or "none"), "declshape:modes",
                        "let f() : %s 1 = close self\nprc[a] : %s 1 = x : %s <- new f(); wait x; close self\n" % (fm, fm, a1)))
            out.append(("decl:cutann:direct:%s:%s" % (fm, ann or "none"), "declshape:modes",
                        "prc[a] : %s 1 = x : %s <- new close self; wait x; close self\n" % (fm, a1)))
            out.append(("decl:cutann:callpair:%s:%s" % (fm, ann or "none"), "declshape:modes",
                        "let u() : %s 1 = close self\nlet f() : %s (1 * 1) = a <- new u(); b <- new u(); send self<a, b>\n"
                        "prc[m] : %s 1 = x : %s <- new f(); <p, q> <- recv x; wait p; wait q; close self\n" % (fm, fm, fm, a2)))
    # shift types between every pair of modes at the root of a signature, used and compared
    for a, b in itertools.product(MODES, repeat=2):
        out.append(("decl:upshift:%s:%s" % (a, b), "declshape:modes", "let f(z : %s 1) : %s /\\ %s 1 = y <- shift self; wait z; close y\n" % (b, a, b)))
        out.append(("decl:downshift:%s:%s" % (a, b), "declshape:modes", "let f(z : %s 1) : %s \\/ %s 1 = cast self<z>\n" % (b, a, b)))
        for c in MODES:
            if c != b:
                out.append(("decl:shiftroot:%s:%s:%s" % (a, b, c), "declshape:modes",
                            "let use(s : %s /\\ %s 1) : 1 = drop s; close self\nlet f(s : %s /\\ %s 1) : 1 = use(s)\n" % (a, b, a, c)))
    return out


def fam_depcycle():
    """dependency cycles among top-level processes (F29): length 1..3, entering and leaving a process through its first,
    second or third provider name; plus the acyclic variant of each (the last process closes instead of waiting)"""
    out = []
    k = 0
    for length in (1, 2, 3):
        for nprov in (1, 2, 3):
            for enter in range(nprov):
                for leave in range(nprov):
                    # process i provides p<i>_0..p<i>_{nprov-1}; it waits for the `enter`-th name of process i+1;
                    # the clients of the other names are separate consumer processes
                    for cyclic in (True, False):
                        lines = []
                        consumers = []
                        for i in range(length):
                            provs = ["p%d_%d" % (i, j) for j in range(nprov)]
                            nxt = "p%d_%d" % ((i + 1) % length, enter)
                            last = (i == length - 1)
                            body = "close self" if (last and not cyclic) else "wait %s; print s%d; close self" % (nxt, i)
                            lines.append("prc[%s] : 1 = %s" % (", ".join(provs), body))
                        used = {"p%d_%d" % ((i + 1) % length, enter) for i in range(length) if cyclic or i != length - 1}
                        for i in range(length):
                            for j in range(nprov):
                                nm = "p%d_%d" % (i, j)
                                if nm not in used:
                                    consumers.append("prc[c%d_%d] : 1 = wait %s; print c%d_%d; close self" % (i, j, nm, i, j))
                        if leave != 0:
                            continue      # (kept for symmetry of the loops; the entering position is what matters)
                        out.append(("decl:depcycle:%d" % k, "declshape:depcycle", "\n".join(lines + consumers) + "\n"))
                        k += 1
    return out


def ladder(n):
    lines = []
    for i in range(n):
        lines.append("prc[a%d, b%d] : 1 = wait a%d; wait b%d; close self" % (i, i, i + 1, i + 1))
    lines.append("prc[a%d, b%d] : 1 = close self" % (n, n))
    lines.append("prc[top] : 1 = wait a0; wait b0; print done; close self")
    return "\n".join(lines) + "\n"


def fam_ladder(sizes=(1, 2, 4, 8, 16, 32, 48)):
    out = []
    for n in sizes:
        out.append(("decl:ladder:%d" % n, "declshape:ladder", ladder(n)))
        lines, head = chain_defs(n, "1")
        out.append(("decl:aliaschain:%d" % n, "declshape:ladder", "\n".join(lines) + "\nlet f(x : %s) : 1 = wait x; close self\n" % head))
        fs = ["let f%d() : 1 = x <- new f%d(); wait x; close self" % (i, i + 1) for i in range(n)] + ["let f%d() : 1 = close self" % n]
        out.append(("decl:callchain:%d" % n, "declshape:ladder", "\n".join(fs) + "\nprc[m] : 1 = x <- new f0(); wait x; print done; close self\n"))
    return out


def fam_annlists():
    """SEVERAL annotation types in one program that print alike (String() omits the modes of non-shift nodes) and differ
    in well-formedness: a well-moded type T earlier and an ill-moded look-alike T' later (and the other way round), as
    two parameters, as provider type and parameter, in two functions, as two assumed names, as two process types.  Every
    annotation must be judged on its own, wherever and however often a look-alike occurs."""
    out = []
    shapes = [("tensor", "1 * A"), ("lolli", "A -* 1"), ("plus", "+{l : A}"), ("with", "&{l : A}"), ("name", "A"),
              ("pair", "A * A")]
    for m1 in MODES:
        for m2 in MODES:
            if m1 == m2:
                continue
            for sn, sh in shapes:
                good = sh if sn != "name" else "A"
                bad = "%s (%s)" % (m2, sh) if sn != "name" else "%s A" % m2
                tag = "%s:%s-%s" % (sn, m1, m2)
                ty = "type A = %s 1\n" % m1
                for order, (t1, t2) in (("good-first", (good, bad)), ("bad-first", (bad, good))):
                    out.append(("decl:annlist:params:%s:%s" % (tag, order), "declshape:annlist",
                                ty + "let f(x : %s, y : %s) : %s 1 = drop x; drop y; close self" % (t1, t2, m1)))
                    out.append(("decl:annlist:twofuns:%s:%s" % (tag, order), "declshape:annlist",
                                ty + "let f(x : %s) : rep 1 = drop x; close self\nlet g(y : %s) : rep 1 = drop y; close self" % (t1, t2)))
                    out.append(("decl:annlist:assumed:%s:%s" % (tag, order), "declshape:annlist",
                                ty + "assuming x : %s, y : %s\nprc[p] : rep 1 = drop x; drop y; close self" % (t1, t2)))
                out.append(("decl:annlist:control:%s" % tag, "declshape:annlist",
                            ty + "let f(x : %s, y : %s) : %s 1 = drop x; drop y; close self" % (good, good, m1)))
    return out


def fam_widechoice():
    """choice types of 2..9 alternatives that differ in ONE alternative (the j-th, for every j), met by one call of
    EqualType that compares a type name twice: `big * big` against `T1 * T2` with T1 the expansion of big and T2 the
    expansion with label j replaced (both orders).  Whatever summarises a type - a printed form, a hash, a memo key -
    must not identify them.  The producer selects the replaced label, the consumer has no branch for it: a checker that
    accepts the program makes the run die.  j = 0 is the well-typed control (prints ok)."""
    out = []
    for n in range(2, 10):
        labs = ["l%d" % i for i in range(1, n + 1)]
        big = "+{" + ", ".join("%s : 1" % l for l in labs) + "}"
        kb = "case b ( " + " | ".join("%s<d> => wait d; close self" % l for l in labs) + " )"
        ka = "case a ( " + " | ".join("%s<c> => wait c; %s" % (l, kb) for l in labs) + " )"
        for j in range(0, n + 1):
            labs2 = [("zz" if i == j else l) for i, l in enumerate(labs, 1)]
            t2 = "+{" + ", ".join("%s : 1" % l for l in labs2) + "}"
            good = labs[0] if j != 1 else labs[-1]
            bad = "zz" if j else labs[0]
            for order in ((0, 1) if j else (0,)):
                ta, tb = (big, t2) if order == 0 else (t2, big)
                sa, sb = (good, bad) if order == 0 else (bad, good)
                out.append(("decl:widechoice:%d:%d:%d" % (n, j, order), "declshape:widechoice",
                            "type big = %s\n" % big +
                            "let use(p : big * big) : 1 = <a, b> <- recv p; %s\n" % ka +
                            "let mka() : %s = u : 1 <- new close self; self.%s<u>\n" % (ta, sa) +
                            "let mkb() : %s = v : 1 <- new close self; self.%s<v>\n" % (tb, sb) +
                            "prc[prod] : (%s) * (%s) = x <- new mka(); y <- new mkb(); send self<x, y>\n" % (ta, tb) +
                            "prc[main] : 1 = r <- new use(prod); wait r; print ok; close self\n"))
    return out


def stream():
    seen = set()
    for fam in (fam_alias, fam_cycle, fam_dupdecl, fam_order, fam_modes, fam_depcycle, fam_ladder, fam_annlists, fam_widechoice):
        for i, k, t in fam():
            if t not in seen:
                seen.add(t)
                yield i, k, t


if __name__ == "__main__":
    import collections
    print(collections.Counter(k for _, k, _ in stream()))
