"""AST, modes, types, printer and the model of mode inference used by proggen.

Types are tuples (kind, mode, a, b):
  ('1', m, None, None)            unit
  ('*', m, A, B)  ('-*', m, A, B) send / receive
  ('+', m, ((l, A), ...), None)   internal choice      ('&', m, ((l, A), ...), None) external choice
  ('n', m, name, None)            reference to a definition (m = mode of the definition)
  ('up', To, From, A)             From /\\ To A   (A has mode From, the type has mode To, To >= From)
  ('dn', To, From, A)             From \\/ To A   (A has mode From, the type has mode To, From >= To)
so t[1] is always the mode of the type itself.

Forms are lists (mutable, so that mutants can edit a deep copy in place):
  ['send', to, payload, cont]      ['recv', a, b, frm, P]       ['sel', to, label, cont]
  ['case', frm, [[label, payload, P], ...]]                      ['new', x, tyocc|None, body, P]
  ['call', f, [args]]  ['close', x]  ['fwd', to, frm]            ['split', a, b, frm, P]
  ['wait', x, P]  ['cast', to, cont]  ['shift', y, frm, P]       ['drop', x, P]   ['print', label, P]
A type occurrence is ['ty', T, ann] (ann: print a head mode annotation).
Declarations:
  ['type', name, tyocc]     ['let', name, [[n, tyocc]...], tyocc, body, explicit_provider|None]
  ['prc', [names], tyocc, body]    ['exec', fname]    ['assuming', [[n, tyocc], ...]]
"""
import copy

MODES = ['lin', 'aff', 'mul', 'rep']
MODE_WORDS = {'lin': ['lin', 'l', 'linear'], 'aff': ['aff', 'a', 'affine'],
              'mul': ['mul', 'm', 'multicast'], 'rep': ['rep', 'r', 'replicable']}
ALL_MODE_WORDS = set(w for ws in MODE_WORDS.values() for w in ws)
KEYWORDS = {"send", "recv", "receive", "case", "close", "wait", "cast", "shift", "accept", "acc", "acquire", "acq",
            "detach", "det", "release", "rel", "drop", "split", "push", "new", "snew", "forward", "fwd", "type", "let",
            "in", "end", "sprc", "prc", "self", "assuming", "exec", "print"}
WEAK = {'aff', 'rep'}
CONTR = {'mul', 'rep'}


def mode_ge(a, b):
    """a >= b in rep > {aff, mul} > lin (a can be down-shifted to b; b can be up-shifted to a)"""
    return a == b or a == 'rep' or b == 'lin'


def modes_ge(m):
    return [k for k in MODES if mode_ge(k, m)]


def modes_le(m):
    return [k for k in MODES if mode_ge(m, k)]


# ---------------------------------------------------------------- types

def t1(m):
    return ('1', m, None, None)


def tname(m, n):
    return ('n', m, n, None)


def unfold(t, tenv):
    n = 0
    while t[0] == 'n':
        t = tenv[t[2]]
        n += 1
        if n > 1000:
            raise ValueError("non-contractive")
    return t


def polarity(t, tenv):
    k = unfold(t, tenv)[0]
    return '+' if k in ('1', '*', '+', 'dn') else '-'


def tmode(t):
    return t[1]


def tsize(t):
    k = t[0]
    if k in ('1', 'n'):
        return 1
    if k in ('*', '-*'):
        return 1 + tsize(t[2]) + tsize(t[3])
    if k in ('+', '&'):
        return 1 + sum(tsize(b) for _, b in t[2])
    return 1 + tsize(t[3])


def tnames(t, acc=None):
    """names of definitions mentioned in t"""
    if acc is None:
        acc = set()
    k = t[0]
    if k == 'n':
        acc.add(t[2])
    elif k in ('*', '-*'):
        tnames(t[2], acc)
        tnames(t[3], acc)
    elif k in ('+', '&'):
        for _, b in t[2]:
            tnames(b, acc)
    elif k in ('up', 'dn'):
        tnames(t[3], acc)
    return acc


def tmap(t, f):
    """rebuild t bottom-up applying f to every node (f gets the node with mapped children)"""
    k = t[0]
    if k in ('*', '-*'):
        t = (k, t[1], tmap(t[2], f), tmap(t[3], f))
    elif k in ('+', '&'):
        t = (k, t[1], tuple((l, tmap(b, f)) for l, b in t[2]), None)
    elif k in ('up', 'dn'):
        t = (k, t[1], t[2], tmap(t[3], f))
    return f(t)


def teq(a, b, tenv, seen=None):
    """equi-recursive equality (bisimilarity), modes compared at every node, labels unordered"""
    if seen is None:
        seen = set()
    if a[0] == 'n' or b[0] == 'n':
        key = (a, b)
        if key in seen:
            return True
        if a[0] == 'n' and b[0] == 'n' and a[2] == b[2]:
            return a[1] == b[1]
        seen.add(key)
        if a[0] == 'n':
            if a[2] not in tenv:
                return False
            a = tenv[a[2]]
        if b[0] == 'n':
            if b[2] not in tenv:
                return False
            b = tenv[b[2]]
        return teq(a, b, tenv, seen)
    if a[0] != b[0]:
        return False
    k = a[0]
    if k == '1':
        return a[1] == b[1]
    if k in ('*', '-*'):
        return a[1] == b[1] and teq(a[2], b[2], tenv, seen) and teq(a[3], b[3], tenv, seen)
    if k in ('+', '&'):
        if a[1] != b[1] or len(a[2]) != len(b[2]):
            return False
        db = dict(b[2])
        for l, x in a[2]:
            if l not in db or not teq(x, db[l], tenv, seen):
                return False
        return True
    return a[1] == b[1] and a[2] == b[2] and teq(a[3], b[3], tenv, seen)


# ---------------------------------------------------------------- model of mode inference
# (types/modality.go: inferModality / SetModalityTypeDef / AddMissingModalities).  Used to decide
# whether a head annotation may be omitted: it may iff inference yields the intended mode.

def _infer(t, unset, defs, used):
    """defs: name -> (body, annotated).  returns a mode or None (= unset)"""
    k = t[0]
    if k in ('up', 'dn'):
        return t[1]
    if not unset:
        return t[1]
    if k == '1':
        return None
    if k == 'n':
        nm = t[2]
        if nm in defs and not used.get(nm):
            used[nm] = True
            body, ann = defs[nm]
            return _infer(body, not ann, defs, used)
        return None
    if k in ('*', '-*'):
        l = _infer(t[2], True, defs, dict(used))
        r = _infer(t[3], True, defs, used)
        return l if l is not None else r
    res = None
    for _, b in t[2]:
        m = _infer(b, True, defs, dict(used))
        if res is None and m is not None:
            res = m
    return res


def infer_def_modes(defs):
    """defs: name -> (body, annotated) -> name -> mode the implementation assigns to the definition"""
    out = {}
    for nm, (body, ann) in defs.items():
        m = _infer(body, not ann, defs, {})
        out[nm] = m if m is not None else 'rep'
    return out


def infer_occ_mode(t, defmodes):
    """mode inferred for an UNANNOTATED type occurrence outside definitions (definitions already resolved)"""
    def go(t):
        k = t[0]
        if k in ('up', 'dn'):
            return t[1]
        if k == '1':
            return None
        if k == 'n':
            return defmodes.get(t[2])
        if k in ('*', '-*'):
            l = go(t[2])
            return l if l is not None else go(t[3])
        for _, b in t[2]:
            m = go(b)
            if m is not None:
                return m
        return None
    m = go(t)
    return m if m is not None else 'rep'


# ---------------------------------------------------------------- printing

class Layout:
    """printing choices; all randomness comes from the rng handed in (None = canonical layout)"""

    def __init__(self, rng=None, multiline=None):
        self.rng = rng
        self.multiline = multiline if multiline is not None else (rng.random() < 0.6 if rng else False)

    def coin(self, p):
        return self.rng is not None and self.rng.random() < p

    def mode_word(self, m):
        if self.rng is None or self.rng.random() < 0.8:
            return m
        return self.rng.choice(MODE_WORDS[m])


def show_type_inner(t, lay):
    k = t[0]
    if k == '1':
        return '1'
    if k == 'n':
        return t[2]
    if k in ('*', '-*'):
        l, r = t[2], t[3]
        ls = show_type_inner(l, lay)
        if l[0] in ('*', '-*', 'up', 'dn') or lay.coin(0.05):
            ls = '(' + ls + ')'
        rs = show_type_inner(r, lay)
        if r[0] in ('*', '-*', 'up', 'dn') and lay.coin(0.4):
            rs = '(' + rs + ')'
        return '%s %s %s' % (ls, '*' if k == '*' else '-*', rs)
    if k in ('+', '&'):
        return '%s{%s}' % (k, ', '.join('%s : %s' % (l, show_type_inner(b, lay)) for l, b in t[2]))
    c = t[3]
    cs = show_type_inner(c, lay)
    if c[0] in ('*', '-*') and not lay.coin(0.3):
        cs = '(' + cs + ')'
    elif c[0] in ('up', 'dn') and lay.coin(0.3):
        cs = '(' + cs + ')'
    return '%s %s %s %s' % (lay.mode_word(t[2]), '/\\' if k == 'up' else '\\/', lay.mode_word(t[1]), cs)


def show_tyocc(occ, lay):
    t, ann = occ[1], occ[2]
    s = show_type_inner(t, lay)
    if ann:
        if t[0] in ('*', '-*', 'up', 'dn') and lay.coin(0.5):
            s = '(' + s + ')'
        return lay.mode_word(t[1]) + ' ' + s
    if lay.coin(0.05):
        s = '(' + s + ')'
    return s


def show_form(f, lay, ind=1):
    """one-line or multi-line rendering of a form"""
    nl = ('\n' + '    ' * ind) if lay.multiline else ' '
    k = f[0]
    if k == 'send':
        return 'send %s<%s, %s>' % (f[1], f[2], f[3])
    if k == 'recv':
        return '<%s, %s> <- recv %s;%s%s' % (f[1], f[2], f[3], nl, show_form(f[4], lay, ind))
    if k == 'sel':
        return '%s.%s<%s>' % (f[1], f[2], f[3])
    if k == 'case':
        brs = []
        for l, p, b in f[2]:
            brs.append('%s<%s> => %s' % (l, p, show_form(b, lay, ind + 2)))
        if lay.multiline:
            pad = '\n' + '    ' * ind
            return 'case %s (%s  %s%s)' % (f[1], pad, (pad + '| ').join(brs), pad)
        return 'case %s ( %s )' % (f[1], ' | '.join(brs))
    if k == 'new':
        body = show_form(f[3], lay, ind + 1)
        if lay.coin(0.08):
            body = '(' + body + ')'
        if f[2] is not None:
            return '%s : %s <- new %s;%s%s' % (f[1], show_tyocc(f[2], lay), body, nl, show_form(f[4], lay, ind))
        return '%s <- new %s;%s%s' % (f[1], body, nl, show_form(f[4], lay, ind))
    if k == 'call':
        return '%s(%s)' % (f[1], ', '.join(f[2]))
    if k == 'close':
        return 'close %s' % f[1]
    if k == 'fwd':
        return '%s %s %s' % ('forward' if lay.coin(0.1) else 'fwd', f[1], f[2])
    if k == 'split':
        return '<%s, %s> <- split %s;%s%s' % (f[1], f[2], f[3], nl, show_form(f[4], lay, ind))
    if k == 'wait':
        return 'wait %s;%s%s' % (f[1], nl, show_form(f[2], lay, ind))
    if k == 'cast':
        return 'cast %s<%s>' % (f[1], f[2])
    if k == 'shift':
        return '%s <- shift %s;%s%s' % (f[1], f[2], nl, show_form(f[3], lay, ind))
    if k == 'drop':
        return 'drop %s;%s%s' % (f[1], nl, show_form(f[2], lay, ind))
    if k == 'print':
        s = show_form(f[2], lay, ind)
        if lay.coin(0.04):
            s = '(' + s + ')'
        return 'print %s;%s%s' % (f[1], nl, s)
    raise ValueError(k)


def show_decl(d, lay):
    k = d[0]
    sep = '\n    ' if lay.multiline else ' '
    if k == 'type':
        return 'type %s = %s' % (d[1], show_tyocc(d[2], lay))
    if k == 'let':
        params = ', '.join('%s : %s' % (n, show_tyocc(o, lay)) for n, o in d[2])
        if d[5] is not None:
            head = 'let %s[%s : %s%s] =' % (d[1], d[5], show_tyocc(d[3], lay), (', ' + params) if params else '')
        else:
            head = 'let %s(%s) : %s =' % (d[1], params, show_tyocc(d[3], lay))
        return head + sep + show_form(d[4], lay)
    if k == 'prc':
        return 'prc[%s] : %s =%s%s' % (', '.join(d[1]), show_tyocc(d[2], lay), sep, show_form(d[3], lay))
    if k == 'exec':
        return 'exec %s()' % d[1]
    if k == 'assuming':
        return 'assuming ' + ', '.join('%s : %s' % (n, show_tyocc(o, lay)) for n, o in d[1])
    raise ValueError(k)


def show_program(decls, lay=None):
    lay = lay or Layout()
    out = []
    for d in decls:
        if lay.coin(0.05):
            out.append('// ' + d[0])
        if lay.coin(0.03):
            out.append('/* c * / */')
        out.append(show_decl(d, lay))
    return '\n'.join(out) + '\n'


# ---------------------------------------------------------------- generic traversals

def form_children(f):
    """sub-forms of f as (container, index) pairs so that they can be replaced in place"""
    k = f[0]
    if k in ('recv', 'split'):
        return [(f, 4)]
    if k == 'case':
        return [(b, 2) for b in f[2]]
    if k == 'new':
        return [(f, 3), (f, 4)]
    if k in ('wait', 'drop', 'print'):
        return [(f, 2)]
    if k == 'shift':
        return [(f, 3)]
    return []


def walk_forms(f):
    """all sub-forms, pre-order"""
    yield f
    for c, i in form_children(f):
        for g in walk_forms(c[i]):
            yield g


def count_forms(f):
    return sum(1 for _ in walk_forms(f))


def decl_bodies(decls):
    for d in decls:
        if d[0] == 'let':
            yield d, d[4]
        elif d[0] == 'prc':
            yield d, d[3]


def program_forms(decls):
    return sum(count_forms(b) for _, b in decl_bodies(decls)) + sum(1 for d in decls if d[0] == 'exec')


def prints_in_order(f):
    return [g[1] for g in walk_forms(f) if g[0] == 'print']


def clone(x):
    return copy.deepcopy(x)


class Program:
    def __init__(self, decls, meta, layout_seed):
        self.decls = decls
        self.meta = meta
        self.layout_seed = layout_seed
        self._text = None

    @property
    def text(self):
        if self._text is None:
            import random
            self._text = show_program(self.decls, Layout(random.Random(self.layout_seed)))
        return self._text

    def tenv(self):
        return {d[1]: d[2][1] for d in self.decls if d[0] == 'type'}
