"""Generator for the type-equality / printing suites (C08, C15): seeded environments of type
definitions, well-moded by construction (recursive, mutually recursive, aliases and alias chains,
shifts), plus a pool of query types `Q0, Q1, ...` written as extra definitions, built from base
types by operators whose effect on equality is known:

  equal by construction : copy, alias (and alias chains), one-step unfolding of a name (anywhere),
                          renamed copy of the definition family, branch permutation
  near misses           : one branch label changed, a branch added / dropped, * vs -*, +{} vs &{},
                          left- vs right-nesting of * and -*, a shift moved between operand and
                          whole-type position, the same family at another mode, another source
                          mode in a shift, a unit replaced by a name / a name by a unit

The generator returns, per case, the text and the list of (i, j, operator) pairs that are equal by
construction and of near-miss pairs (expected different, but only the former is a hard law)."""
import random

MODES = ["rep", "mul", "aff", "lin"]
SPELL = {"rep": ["rep", "r", "replicable", "Rep", "R"], "mul": ["mul", "m", "multicast", "MUL"],
         "aff": ["aff", "a", "affine", "Aff"], "lin": ["lin", "l", "linear", "LIN", "Linear"]}
# (from, to): from.CanBeUpshiftedTo(to) / from.CanBeDownshiftedTo(to)
UP = {("rep", "rep"), ("mul", "rep"), ("mul", "mul"), ("aff", "rep"), ("aff", "aff"),
      ("lin", "rep"), ("lin", "mul"), ("lin", "aff"), ("lin", "lin")}
DOWN = {("rep", "rep"), ("rep", "mul"), ("rep", "aff"), ("rep", "lin"), ("mul", "mul"), ("mul", "lin"),
        ("aff", "aff"), ("aff", "lin"), ("lin", "lin")}
LABELS = ["a", "b", "c", "ok", "no", "nil", "cons", "x_1", "l'", "next", "1st", "A"]

# types: ("n", X) ("1",) ("*", a, b) ("-*", a, b) ("+", [(l, t)]) ("&", [(l, t)]) ("up", f, t, a) ("dn", f, t, a)


class Env:
    def __init__(self):
        self.defs = []        # (name, mode, body, annotate)
        self.mode = {}
        self.body = {}

    def add(self, name, mode, body, annotate=True):
        self.defs.append([name, mode, body, annotate])
        self.mode[name] = mode
        self.body[name] = body

    def names_at(self, m):
        return [d[0] for d in self.defs if d[1] == m]


def gen_type(rng, env, mode, depth, names=None):
    """a type all of whose nodes up to the next shift live at `mode`"""
    cands = (names if names is not None else env.names_at(mode))
    r = rng.random()
    if depth <= 0 or r < 0.18:
        if cands and rng.random() < 0.6:
            return ("n", rng.choice(cands))
        return ("1",)
    if r < 0.36:
        return ("*", gen_type(rng, env, mode, depth - 1, names), gen_type(rng, env, mode, depth - 1, names))
    if r < 0.52:
        return ("-*", gen_type(rng, env, mode, depth - 1, names), gen_type(rng, env, mode, depth - 1, names))
    if r < 0.82:
        k = rng.choice([1, 2, 2, 3, 4])
        labs = rng.sample(LABELS, k)
        return (rng.choice("+&"), [(l, gen_type(rng, env, mode, depth - 1, names)) for l in labs])
    # shifts: land at `mode`
    if rng.random() < 0.5:
        srcs = [f for f in MODES if (f, mode) in UP]
        f = rng.choice(srcs)
        return ("up", f, mode, gen_type(rng, env, f, depth - 1, None if names is None else [n for n in names if env.mode.get(n) == f]))
    srcs = [f for f in MODES if (f, mode) in DOWN]
    f = rng.choice(srcs)
    return ("dn", f, mode, gen_type(rng, env, f, depth - 1, None if names is None else [n for n in names if env.mode.get(n) == f]))


def mode_of(env, t, cur):
    if t[0] in ("up", "dn"):
        return t[2]
    return cur


def gen_env(rng, size):
    env = Env()
    nmodes = rng.choice([1, 1, 2, 2, 3])
    modes = rng.sample(MODES, nmodes)
    k = rng.randint(2, size)
    plan = [("T%d" % i, rng.choice(modes)) for i in range(k)]
    for n, m in plan:
        env.mode[n] = m
    for i, (n, m) in enumerate(plan):
        r = rng.random()
        earlier = [p for p, pm in plan[:i] if pm == m]
        if r < 0.15 and earlier:
            body = ("n", rng.choice(earlier))          # alias (acyclic: to an earlier definition)
        else:
            same = [p for p, pm in plan if pm == m]
            body = gen_type(rng, env_view(env, plan), m, rng.randint(1, 3), None)
            # a bare name at the head must point backwards (contractivity)
            if body[0] == "n":
                body = ("*", ("1",), body) if not earlier or rng.random() < 0.5 else ("n", rng.choice(earlier))
            del same
        env.add(n, m, body)
    return env


def env_view(env, plan):
    v = Env()
    v.mode = dict(env.mode)
    v.defs = [[n, m, None, True] for n, m in plan]
    return v


# ---------------------------------------------------------------------------------------------
# operators
# ---------------------------------------------------------------------------------------------

def subst_names(t, ren):
    k = t[0]
    if k == "n":
        return ("n", ren.get(t[1], t[1]))
    if k == "1":
        return t
    if k in ("*", "-*"):
        return (k, subst_names(t[1], ren), subst_names(t[2], ren))
    if k in ("+", "&"):
        return (k, [(l, subst_names(a, ren)) for l, a in t[1]])
    return (k, t[1], t[2], subst_names(t[3], ren))


def names_in(t, acc):
    k = t[0]
    if k == "n":
        acc.add(t[1])
    elif k in ("*", "-*"):
        names_in(t[1], acc)
        names_in(t[2], acc)
    elif k in ("+", "&"):
        for _, a in t[1]:
            names_in(a, acc)
    elif k in ("up", "dn"):
        names_in(t[3], acc)
    return acc


def family(env, t):
    todo, seen = list(names_in(t, set())), set()
    while todo:
        x = todo.pop()
        if x in seen or x not in env.body:
            continue
        seen.add(x)
        todo.extend(names_in(env.body[x], set()))
    return seen


def positions(t, path=()):
    yield path, t
    k = t[0]
    if k in ("*", "-*"):
        yield from positions(t[1], path + (1,))
        yield from positions(t[2], path + (2,))
    elif k in ("+", "&"):
        for i, (_, a) in enumerate(t[1]):
            yield from positions(a, path + (i,))
    elif k in ("up", "dn"):
        yield from positions(t[3], path + (3,))


def replace_at(t, path, f):
    if not path:
        return f(t)
    k, i = t[0], path[0]
    if k in ("*", "-*"):
        return (k, replace_at(t[1], path[1:], f), t[2]) if i == 1 else (k, t[1], replace_at(t[2], path[1:], f))
    if k in ("+", "&"):
        return (k, [(l, replace_at(a, path[1:], f) if j == i else a) for j, (l, a) in enumerate(t[1])])
    return (k, t[1], t[2], replace_at(t[3], path[1:], f))


def op_unfold(rng, env, t, ctr):
    ps = [p for p, s in positions(t) if s[0] == "n" and s[1] in env.body]
    if not ps:
        return None
    p = rng.choice(ps)
    return replace_at(t, p, lambda s: env.body[s[1]])


def op_perm(rng, env, t, ctr):
    ps = [p for p, s in positions(t) if s[0] in "+&" and len(s[1]) >= 2]
    if not ps:
        return None
    p = rng.choice(ps)

    def f(s):
        bs = list(s[1])
        while True:
            rng.shuffle(bs)
            if bs != list(s[1]):
                return (s[0], bs)
    return replace_at(t, p, f)


def op_alias(rng, env, t, ctr, cur):
    """chain of 1..3 aliases ending in t"""
    m = mode_of(env, t, cur)
    n = "Al%d" % next(ctr)
    env.add(n, m, t, annotate=rng.random() < 0.7)
    for _ in range(rng.randint(0, 2)):
        n2 = "Al%d" % next(ctr)
        env.add(n2, m, ("n", n), annotate=rng.random() < 0.5)
        n = n2
    return ("n", n)


def op_rename(rng, env, t, ctr):
    fam = family(env, t)
    if not fam:
        return None
    sfx = "r%d" % next(ctr)
    ren = {x: x + sfx for x in fam}
    order = [d[0] for d in env.defs if d[0] in fam]
    if rng.random() < 0.5:
        order.reverse()
    for x in order:
        env.add(ren[x], env.mode[x], subst_names(env.body[x], ren), annotate=True)
    return subst_names(t, ren)


def remode(env, t, old, new, ren, pending):
    """the same shape with the layer up to the next shifts moved from mode old to mode new;
    None when a shift becomes illegal"""
    k = t[0]
    if k == "n":
        x = t[1]
        if x not in ren:
            ren[x] = x + "m" + new
            pending.append(x)
        return ("n", ren[x])
    if k == "1":
        return t
    if k in ("*", "-*"):
        a, b = remode(env, t[1], old, new, ren, pending), remode(env, t[2], old, new, ren, pending)
        return None if a is None or b is None else (k, a, b)
    if k in ("+", "&"):
        bs = [(l, remode(env, a, old, new, ren, pending)) for l, a in t[1]]
        return None if any(a is None for _, a in bs) else (k, bs)
    ok = UP if k == "up" else DOWN
    return (k, t[1], new, t[3]) if (t[1], new) in ok else None


def op_remode(rng, env, t, ctr, cur):
    if t[0] in ("up", "dn"):
        return None
    others = [m for m in MODES if m != cur]
    new = rng.choice(others)
    ren, pending = {}, []
    r = remode(env, t, cur, new, ren, pending)
    if r is None:
        return None
    tag = "m%d" % next(ctr)
    ren2 = {}
    newdefs = []
    while pending:
        x = pending.pop()
        if x not in env.body or env.mode[x] != cur:
            return None
        b = remode(env, env.body[x], cur, new, ren, pending)
        if b is None:
            return None
        newdefs.append((x, b))
    for x in ren:
        ren2[ren[x]] = ren[x] + tag
    for x, b in newdefs:
        env.add(ren2[ren[x]], new, subst_names(b, ren2), annotate=True)
    return ("remoded", new, subst_names(r, ren2))


def op_label(rng, env, t, ctr):
    ps = [p for p, s in positions(t) if s[0] in "+&"]
    if not ps:
        return None
    p = rng.choice(ps)

    def f(s):
        bs = list(s[1])
        i = rng.randrange(len(bs))
        used = {l for l, _ in bs}
        fresh = [l for l in LABELS + ["zz", "b2"] if l not in used]
        bs[i] = (rng.choice(fresh), bs[i][1])
        return (s[0], bs)
    return replace_at(t, p, f)


def op_branchcount(rng, env, t, ctr):
    ps = [p for p, s in positions(t) if s[0] in "+&"]
    if not ps:
        return None
    p = rng.choice(ps)

    def f(s):
        bs = list(s[1])
        if len(bs) >= 2 and rng.random() < 0.5:
            del bs[rng.randrange(len(bs))]
        else:
            used = {l for l, _ in bs}
            fresh = [l for l in LABELS + ["zz", "b2"] if l not in used]
            bs.insert(rng.randrange(len(bs) + 1), (rng.choice(fresh), ("1",)))
        return (s[0], bs)
    return replace_at(t, p, f)


def op_connective(rng, env, t, ctr):
    swap = {"*": "-*", "-*": "*", "+": "&", "&": "+", "up": "dn", "dn": "up"}
    # a shift can change direction only when it is an identity shift (both directions are well-formed then)
    ps = [p for p, s in positions(t) if swap.get(s[0]) and (s[0] not in ("up", "dn") or s[1] == s[2])]
    if not ps:
        return None
    p = rng.choice(ps)
    return replace_at(t, p, lambda s: (swap[s[0]],) + tuple(s[1:]))


def op_nest(rng, env, t, ctr):
    """(a . b) . c  <->  a . (b . c)   for . in {*, -*}"""
    ps = [p for p, s in positions(t) if s[0] in ("*", "-*") and (s[1][0] in ("*", "-*") or s[2][0] in ("*", "-*"))]
    if not ps:
        return None
    p = rng.choice(ps)

    def f(s):
        if s[1][0] in ("*", "-*") and (s[2][0] not in ("*", "-*") or rng.random() < 0.5):
            return (s[1][0], s[1][1], (s[0], s[1][2], s[2]))
        return (s[2][0], (s[0], s[1], s[2][1]), s[2][2])
    return replace_at(t, p, f)


def op_leaf(rng, env, t, ctr, cur):
    ps = [p for p, s in positions(t) if s[0] in ("1", "n")]
    if not ps:
        return None
    p = rng.choice(ps)

    def f(s):
        if s[0] == "n":
            return ("1",)
        return s
    r = replace_at(t, p, f)
    return None if r == t else r


# ---------------------------------------------------------------------------------------------
# rendering
# ---------------------------------------------------------------------------------------------

def spell(rng, m, fancy):
    return rng.choice(SPELL[m]) if fancy else m


def render(rng, t, fancy, left=False):
    k = t[0]
    if k == "n":
        s = t[1]
    elif k == "1":
        s = "1"
    elif k in ("*", "-*"):
        op = k if k == "*" or not fancy else rng.choice(["-*", "-o"])
        s = render(rng, t[1], fancy, True) + " " + op + " " + render(rng, t[2], fancy)
        if left:
            s = "(" + s + ")"
    elif k in ("+", "&"):
        sep = ", " if not fancy else rng.choice([", ", ",", " , "])
        s = k + "{" + sep.join(l + (" : " if not fancy else rng.choice([" : ", ":", ": "])) + render(rng, a, fancy) for l, a in t[1]) + "}"
    else:
        arrow = "/\\" if k == "up" else "\\/"
        sp = "" if not fancy else rng.choice(["", " "])
        s = spell(rng, t[1], fancy) + sp + arrow + sp + spell(rng, t[2], fancy) + " " + render(rng, t[3], fancy)
        if left:
            s = "(" + s + ")"
    if fancy and rng.random() < 0.08:
        s = "(" + s + ")"
    return s


def render_def(rng, name, mode, body, annotate, fancy):
    ann = ""
    if body[0] not in ("up", "dn") and (annotate or mode != "rep"):
        ann = spell(rng, mode, fancy) + " "
    return "type %s = %s%s" % (name, ann, render(rng, body, fancy))


# ---------------------------------------------------------------------------------------------
# cases
# ---------------------------------------------------------------------------------------------

def counter():
    i = 0
    while True:
        yield i
        i += 1


EQ_OPS = ["copy", "unfold", "perm", "alias", "rename", "unfold", "perm"]
MISS_OPS = ["label", "branchcount", "connective", "nest", "remode", "leaf", "nest"]


def gen_case(rng, pool_max, env_size):
    env = gen_env(rng, env_size)
    ctr = counter()
    pool = []          # (type, mode)
    equal, miss = [], []
    # base queries: names, bodies, fresh types
    bases = []
    for _ in range(rng.randint(2, max(4, pool_max // 3))):
        r = rng.random()
        d = rng.choice(env.defs)
        if r < 0.4:
            bases.append((("n", d[0]), d[1]))
        elif r < 0.6:
            bases.append((d[2], d[1]))
        else:
            m = rng.choice(sorted(set(env.mode.values())))
            t = gen_type(rng, env, m, rng.randint(1, 3))
            bases.append((t, mode_of(env, t, m)))
    for t, m in bases:
        if len(pool) >= pool_max:
            break
        pool.append((t, m))
        root = len(pool) - 1
        frontier = [root]
        for _ in range(rng.randint(1, 5)):
            if len(pool) >= pool_max:
                break
            src = rng.choice(frontier)
            st, sm = pool[src]
            if rng.random() < 0.6:
                op = rng.choice(EQ_OPS)
                if op == "copy":
                    nt = st
                elif op == "unfold":
                    nt = op_unfold(rng, env, st, ctr)
                elif op == "perm":
                    nt = op_perm(rng, env, st, ctr)
                elif op == "alias":
                    nt = op_alias(rng, env, st, ctr, sm)
                else:
                    nt = op_rename(rng, env, st, ctr)
                if nt is None:
                    continue
                pool.append((nt, sm))
                equal.append((src, len(pool) - 1, op))
                frontier.append(len(pool) - 1)
            else:
                op = rng.choice(MISS_OPS)
                nm = sm
                if op == "label":
                    nt = op_label(rng, env, st, ctr)
                elif op == "branchcount":
                    nt = op_branchcount(rng, env, st, ctr)
                elif op == "connective":
                    nt = op_connective(rng, env, st, ctr)
                elif op == "nest":
                    nt = op_nest(rng, env, st, ctr)
                elif op == "leaf":
                    nt = op_leaf(rng, env, st, ctr, sm)
                else:
                    nt = op_remode(rng, env, st, ctr, sm)
                    if nt is not None:
                        _, nm, nt = nt
                if nt is None or nt == st:
                    continue
                pool.append((nt, nm))
                miss.append((src, len(pool) - 1, op))
    # equal-by-construction is transitive within a component: close it
    parent = list(range(len(pool)))

    def find(x):
        while parent[x] != x:
            parent[x] = parent[parent[x]]
            x = parent[x]
        return x
    for i, j, _ in equal:
        parent[find(i)] = find(j)
    classes = [find(i) for i in range(len(pool))]
    fancy = rng.random() < 0.4
    lines = [render_def(rng, n, m, b, a, fancy) for n, m, b, a in env.defs]
    qlines = [render_def(rng, "Q%d" % i, m, t, True, fancy) for i, (t, m) in enumerate(pool)]
    if rng.random() < 0.3:
        alll = lines + qlines
        rng.shuffle(alll)
        text = "\n".join(alll)
    else:
        text = "\n".join(lines + qlines)
    meta = {"n": len(pool), "equal": equal, "miss": miss, "classes": classes,
            "defs": len(env.defs), "fancy": fancy,
            "ops": sorted({o for _, _, o in equal} | {o for _, _, o in miss})}
    return text, meta


HAND = [
    # F1, F2, F10 witnesses and friends (kept from the findings)
    ("hand:f1", "type A = B\ntype B = 1\ntype Q0 = A\ntype Q1 = 1 * 1\ntype Q2 = B\ntype Q3 = 1"),
    ("hand:f2", "type A = +{l : A}\ntype B = +{l : B}\ntype Q0 = A\ntype Q1 = B\ntype Q2 = +{l : A}\ntype Q3 = +{l : +{l : B}}"),
    ("hand:f10", "type Q0 = (1 * 1) * 1\ntype Q1 = 1 * (1 * 1)\ntype Q2 = (1 -* 1) -* 1\ntype Q3 = 1 -* 1 -* 1\ntype Q4 = (1 * 1) -* 1\ntype Q5 = 1 * (1 -* 1)"),
    ("hand:shiftpos", "type L = lin 1 * L\ntype Q0 = (lin /\\ rep L) * 1\ntype Q1 = lin /\\ rep (L * 1)\ntype Q2 = lin /\\ rep L * 1\ntype Q3 = 1 * lin /\\ rep L\ntype Q4 = 1 * (lin /\\ rep L)\ntype Q5 = (rep \\/ lin 1) -* L\ntype Q6 = rep \\/ lin (1 -* 1)"),
    ("hand:mutual", "type Ev = +{z : 1, s : Od}\ntype Od = +{s : Ev}\ntype Ev2 = +{s : Od2, z : 1}\ntype Od2 = +{s : +{z : 1, s : Od2}}\ntype Q0 = Ev\ntype Q1 = Ev2\ntype Q2 = Od\ntype Q3 = Od2\ntype Q4 = +{s : Ev2}\ntype Q5 = +{s : Ev, z : 1}"),
    ("hand:modes", "type A = lin 1 * A\ntype B = aff 1 * B\ntype C = lin 1 * C\ntype Q0 = A\ntype Q1 = B\ntype Q2 = C\ntype Q3 = lin /\\ aff A\ntype Q4 = lin /\\ aff C\ntype Q5 = aff /\\ aff B\ntype Q6 = lin \\/ lin A\ntype Q7 = aff \\/ lin B"),
    ("hand:alias-chain", "type A = 1 -* A\ntype B = A\ntype C = B\ntype D = C\ntype Q0 = D\ntype Q1 = 1 -* D\ntype Q2 = 1 -* 1 -* C\ntype Q3 = A\ntype Q4 = 1 -* 1"),
    ("hand:labels-as-modes", "type lin = 1\ntype Q0 = lin\ntype Q1 = 1\ntype Q2 = lin * lin"),
    ("hand:ident-shapes", "type A' = +{l' : 1, x_1 : A', 1st : 1}\ntype _b = A'\ntype Q0 = _b\ntype Q1 = +{1st : 1, l' : 1, x_1 : _b}"),
    ("hand:dup-label", "type Q0 = +{a : 1, a : 1 * 1}\ntype Q1 = +{a : 1}"),
    ("hand:noncontractive", "type A = B\ntype B = A\ntype Q0 = A\ntype Q1 = B"),
    ("hand:undefined", "type Q0 = Zed\ntype Q1 = 1"),
]


def keyclash():
    """EqualType memoises (name, type) pairs under their PRINTED form, so its coinductive part is sound only while printing is
    injective.  For every pair (t1, t2) of different types that differ only in where the brackets are - a shift, a pair or
    a function in left-operand position - a name X = t1 is compared inside one choice first with t1 (recording the key)
    and then with t2, and the other way round, under + and under &"""
    amb = []
    for op in ("*", "-*"):
        for sh in ("lin /\\ aff", "aff /\\ aff", "lin \\/ lin", "aff \\/ lin", "rep \\/ lin"):
            amb.append(("(%s 1) %s 1" % (sh, op), "%s (1 %s 1)" % (sh, op)))
        for op2 in ("*", "-*"):
            amb.append(("(1 %s 1) %s 1" % (op, op2), "1 %s (1 %s 1)" % (op, op2)))
    out = []
    for k, (t1, t2) in enumerate(amb):
        for cb, ce, tag in (("+{", "}", "plus"), ("&{", "}", "with")):
            out.append(("hand:keyclash-%s-%d" % (tag, k),
                        "type X = %s\ntype Y = %s\ntype Q0 = %sp : X, q : X%s\ntype Q1 = %sp : %s, q : %s%s\ntype Q2 = %sp : %s, q : %s%s\ntype Q3 = %sp : Y, q : Y%s\ntype Q4 = %sp : X, q : Y%s"
                        % (t1, t2, cb, ce, cb, t1, t2, ce, cb, t2, t1, ce, cb, ce, cb, ce)))
    return out


def dualheads():
    """every constructor against its DUAL with everything else equal - tensor / lolli, plus / with, and the identity
    shifts m /\\ m and m \\/ m (the only shifts that are well-formed in both directions) - at the top, behind an alias,
    inside a recursive type, in left-operand position and in a branch; all ordered pairs of the 30 queries per mode"""
    out = []
    for m in MODES:
        def x(c, k):
            return {"ten": "1 * %s" % k, "lol": "1 -* %s" % k, "plu": "+{a : %s}" % k, "wit": "&{a : %s}" % k,
                    "up": "%s /\\ %s %s" % (m, m, k), "dn": "%s \\/ %s %s" % (m, m, k)}[c]
        lines, q = [], 0
        for c in ("ten", "lol", "plu", "wit", "up", "dn"):
            lines.append("type A%s = %s" % (c, x(c, "1")))
            lines.append("type R%s = +{next : %s, stop : 1}" % (c, x(c, "R" + c)))
            for body in (x(c, "1"), "A" + c, "R" + c, "(%s) * 1" % x(c, "1"), "&{p : %s, q : 1}" % x(c, "1")):
                lines.append("type Q%d = %s" % (q, body))
                q += 1
        out.append(("hand:dualheads-" + m, "\n".join(lines)))
    return out


def deep(p, q):
    """two unary recursive types of periods p and q: the comparison visits ~ lcm(p, q) distinct pairs
    at recursion depth ~ 2 * lcm(p, q) (the case that needs quadratic fuel)"""
    def nest(k, x):
        return "&{l : " * k + x + "}" * k
    return "type A = %s\ntype B = %s\ntype Q0 = A\ntype Q1 = B\ntype Q2 = &{l : A}" % (nest(p, "A"), nest(q, "B"))


def stream(seed, n_cases, pool_max, env_size=6):
    """yield (id, kind, text, meta)"""
    for i, t in HAND:
        yield i, "hand", t, None
    # minimised inputs kept from earlier disagreements: corpus/eq/*.grits (queries are the Q<i> definitions)
    import glob
    import os
    from . import common as C
    for p in sorted(glob.glob(os.path.join(C.CORPUS, "eq", "*.grits"))):
        yield "corpus:" + os.path.basename(p), "hand", open(p, "rb").read().decode("latin1"), None
    for i, t in keyclash():
        yield i, "hand", t, None
    for i, t in dualheads():
        yield i, "hand", t, None
    yield "hand:deep-7-8", "hand", deep(7, 8), None
    yield "hand:deep-40-41", "hand", deep(40, 41), None
    rng = random.Random(seed)
    for i in range(n_cases):
        sub = random.Random(rng.getrandbits(64))
        text, meta = gen_case(sub, pool_max, env_size)
        yield "g%d" % i, "gen", text, meta
