"""Run-time shapes for the interpreter properties (C01–C04, C14, C16–C18).

Systematic families of closed, well-typed programs around the places where the interpreter has to tell
CHANNELS from IDENTIFIERS and where a structural rule (DUP after split, DROP) has to reach every
channel a process holds:

  A  k channels created under ONE binder (same run-time identifier) end up in one holder process that is
     then split (2 or 3 copies), dropped, or split and partly dropped;   channel type positive or negative;
     delivered by label, by pair or by forward
  B  a binder re-uses a name that is live or has just been consumed: split / recv / case / cut re-binding
     their own subject, in function bodies (where the subject is a parameter that is substituted at the
     call) and in top-level processes, with and without a later duplication of the process
  C  drop of a channel whose provider has a message of each kind pending (CLS, SEL, SND, CST) with a
     subtree of providers behind it, positive and negative, depth 1..3
  D  caller and callee use the same local identifiers for different channels, and the callee is duplicated
     or dropped while it holds both

Each program prints labels at the points that are reached only when every copy makes progress, so
that a lost substitution, a shared channel or an un-dropped subtree changes the printed multiset or
the set of live processes at quiescence.  The checks compare implementation and model on them like on
any other program; nothing here is an expected value."""

PRE = """type N = &{go : 1}
let unit() : 1 = close self
let leaf() : N = case self (go<c> => close c)
"""


def use(ty, name, tag):
    """statement sequence consuming `name` of type 1 or N"""
    if ty == "1":
        return "wait %s;" % name
    return "r%s : 1 <- new %s.go<self>; wait r%s;" % (tag, name, tag)


def family_a():
    out = []
    for ty, mkleaf in (("1", "unit()"), ("N", "leaf()")):
        for deliver in ("label", "pair", "fwd"):
            if deliver == "label":
                mk = "let mk() : +{val : %s} = c <- new %s; self.val<c>\n" % (ty, mkleaf)
                get = lambda v, w: "case %s (val<%s> => " % (v, w)
                close = ")"
            elif deliver == "pair":
                mk = "let mk() : %s * 1 = c <- new %s; e <- new unit(); send self<c, e>\n" % (ty, mkleaf)
                get = lambda v, w: "<%s, e%s> <- recv %s; wait e%s; " % (w, w, v, w)
                close = ""
            else:
                mk = "let mk() : %s = c <- new %s; fwd self c\n" % (ty, mkleaf)
                get = None
                close = ""
            for k in (2, 3):
                names = ["a", "b", "d"][:k]
                params = ", ".join("%s : %s" % (n, ty) for n in names)
                body = " ".join(use(ty, n, n) for n in names)
                srv = "let srv(%s) : N = case self (go<s> => %s print srv; close s)\n" % (params, body)
                spawn = "".join("%s0 <- new mk(); " % n for n in names)
                if get:
                    opens = "".join(get(n + "0", n) for n in names)
                    closes = close * k
                    args = ", ".join(names)
                else:
                    opens, closes, args = "", "", ", ".join(n + "0" for n in names)
                for act in ("split2", "split3", "drop", "split-drop"):
                    if act == "split2":
                        tail = ("<q1, q2> <- split q; r1 : 1 <- new q1.go<self>; r2 : 1 <- new q2.go<self>; "
                                "wait r1; print one; wait r2; print two; close self")
                    elif act == "split3":
                        tail = ("<q1, q0> <- split q; <q2, q3> <- split q0; r1 : 1 <- new q1.go<self>; r2 : 1 <- new q2.go<self>; "
                                "r3 : 1 <- new q3.go<self>; wait r1; print one; wait r2; print two; wait r3; print three; close self")
                    elif act == "drop":
                        tail = "drop q; print dropped; close self"
                    else:
                        tail = "<q1, q2> <- split q; drop q1; r2 : 1 <- new q2.go<self>; wait r2; print two; close self"
                    text = (PRE + mk + srv + "prc[main] : 1 = " + spawn + opens + "q : N <- new srv(%s); " % args + tail + closes + "\n")
                    out.append(("A:%s:%s:%d:%s" % (ty, deliver, k, act), text))
    return out


def family_b():
    out = []
    # split re-binding its subject, in a function (parameter substituted at the call) and at top level
    for b1, b2 in (("x1", "x"), ("x", "x2"), ("x1", "x2")):
        body = "<%s, %s> <- split x; wait %s; wait %s; print done; close self" % (b1, b2, b1, b2)
        out.append(("B:split:fun:%s%s" % (b1, b2), PRE + "let twice(x : 1) : 1 = %s\nprc[a] : 1 = y <- new unit(); r <- new twice(y); wait r; print fin; close self\n" % body))
        out.append(("B:split:prc:%s%s" % (b1, b2), PRE + "prc[a] : 1 = x <- new unit(); %s\n" % body))
        if (b1, b2) != ("x", "x2"):     # that one re-binds x while it is live: rightly rejected
            out.append(("B:split:nested:%s%s" % (b1, b2), PRE + "let twice(x : 1) : 1 = <%s, %s> <- split x; <x, x3> <- split %s; wait x; wait x3; wait %s; print done; close self\n"
                    "prc[a] : 1 = y <- new unit(); r <- new twice(y); wait r; print fin; close self\n" % (b1, b2, b2, b1)))
    # recv re-binding its subject (payload or continuation)
    for pb, cb in (("u", "c"), ("c", "k"), ("u", "k")):
        body = "<%s, %s> <- recv c; wait %s; wait %s; print got; close self" % (pb, cb, pb, cb)
        out.append(("B:recv:fun:%s%s" % (pb, cb), PRE + "let pr() : 1 * 1 = e <- new unit(); f <- new unit(); send self<e, f>\n"
                    "let rd(c : 1 * 1) : 1 = %s\nprc[a] : 1 = p <- new pr(); r <- new rd(p); wait r; print fin; close self\n" % body))
        out.append(("B:recv:prc:%s%s" % (pb, cb), PRE + "let pr() : 1 * 1 = e <- new unit(); f <- new unit(); send self<e, f>\n"
                    "prc[a] : 1 = c <- new pr(); %s\n" % body))
    # recv self re-binding a live parameter name is rejected statically; a dead one is fine
    out.append(("B:recvself:dead", PRE + "let f(x : 1) : 1 -* 1 = wait x; <x, w> <- recv self; wait x; print served; close w\n"
                "prc[a] : 1 = y <- new unit(); s <- new f(y); t <- new unit(); r : 1 <- new send s<t, self>; wait r; print fin; close self\n"))
    # case re-binding its subject as the payload
    for pb in ("c", "k"):
        body = "case c (val<%s> => wait %s; print left; close self | oth<%s> => wait %s; print right; close self)" % (pb, pb, pb, pb)
        for lab in ("val", "oth"):
            out.append(("B:case:fun:%s:%s" % (lab, pb), PRE + "let ch() : +{val : 1, oth : 1} = e <- new unit(); self.%s<e>\n"
                        "let rd(c : +{val : 1, oth : 1}) : 1 = %s\nprc[a] : 1 = p <- new ch(); r <- new rd(p); wait r; print fin; close self\n" % (lab, body)))
    # cut re-binding its own argument
    out.append(("B:cut:fun", PRE + "let w(a : 1) : 1 = wait a; close self\nlet f(x : 1) : 1 = x <- new w(x); x <- new w(x); wait x; print done; close self\n"
                "prc[a] : 1 = y <- new unit(); r <- new f(y); wait r; print fin; close self\n"))
    out.append(("B:cut:prc", PRE + "let w(a : 1) : 1 = wait a; close self\nprc[a] : 1 = x <- new unit(); x <- new w(x); x <- new w(x); wait x; print done; close self\n"))
    # the same, inside a server that is duplicated afterwards
    for b1, b2 in (("x1", "x"), ("x", "x2")):
        out.append(("B:split:dup:%s%s" % (b1, b2), PRE + "let srv(x : 1) : N = case self (go<s> => <%s, %s> <- split x; wait %s; wait %s; print srv; close s)\n"
                    "prc[a] : 1 = y <- new unit(); q <- new srv(y); <q1, q2> <- split q; r1 : 1 <- new q1.go<self>; r2 : 1 <- new q2.go<self>; "
                    "wait r1; print one; wait r2; print two; close self\n" % (b1, b2, b1, b2)))
    return out


def family_c():
    out = []
    typedefs = {
        "cls": ("1", "let mk() : 1 = close self\n"),
        "sel-pos": ("+{some : 1}", "let mk() : +{some : 1} = k <- new unit(); self.some<k>\n"),
        "sel-neg": ("+{some : N}", "let mk() : +{some : N} = k <- new leaf(); self.some<k>\n"),
        "snd-pos": ("1 * 1", "let mk() : 1 * 1 = k <- new unit(); e <- new unit(); send self<k, e>\n"),
        "snd-neg": ("N * 1", "let mk() : N * 1 = k <- new leaf(); e <- new unit(); send self<k, e>\n"),
        "snd-negc": ("1 * N", "let mk() : 1 * N = k <- new unit(); e <- new leaf(); send self<k, e>\n"),
        "neg-holding": ("N", "let mk() : N = k <- new leaf(); e <- new unit(); case self (go<c> => drop k; wait e; close c)\n"),
        "neg-fun": ("1 -* 1", "let mk() : 1 -* 1 = k <- new leaf(); <u, w> <- recv self; drop k; wait u; close w\n"),
    }
    for name, (ty, mk) in typedefs.items():
        out.append(("C:drop:%s" % name, PRE + mk + "prc[main] : 1 = s <- new mk(); drop s; print dropped; close self\n"))
        out.append(("C:splitdrop:%s" % name, PRE + mk + "prc[main] : 1 = s <- new mk(); <s1, s2> <- split s; drop s1; drop s2; print dropped; close self\n"))
        out.append(("C:holder:%s" % name, PRE + mk + "let hold(p : %s, q : %s) : N = case self (go<c> => drop p; drop q; close c)\n"
                    "prc[main] : 1 = a <- new mk(); b <- new mk(); v <- new hold(a, b); drop v; print dropped; close self\n" % (ty, ty)))
    # chains of selections of depth 1..3 (unary numbers), dropped and split-dropped
    nat = "type nat = +{zero : 1, succ : nat}\nlet zero() : nat = t <- new unit(); self.zero<t>\nlet succ(n : nat) : nat = self.succ<n>\n"
    for depth in (0, 1, 2, 3):
        build = "n0 <- new zero(); " + "".join("n%d <- new succ(n%d); " % (i + 1, i) for i in range(depth))
        out.append(("C:nat:drop:%d" % depth, PRE + nat + "prc[main] : 1 = %sdrop n%d; print dropped; close self\n" % (build, depth)))
        out.append(("C:nat:splitdrop:%d" % depth, PRE + nat + "prc[main] : 1 = %s<m1, m2> <- split n%d; drop m1; drop m2; print dropped; close self\n" % (build, depth)))
    return out


def family_d():
    out = []
    for loc in ("y", "x", "p"):
        for act in ("split", "drop"):
            tail = ("<p1, p2> <- split p; t1 <- new unit(); t2 <- new unit(); r1 : 1 <- new send p1<t1, self>; r2 : 1 <- new send p2<t2, self>; "
                    "wait r1; print one; wait r2; print two; close self") if act == "split" else "drop p; print dropped; close self"
            srv_local = loc if loc != "x" else "x2"
            out.append(("D:%s:%s" % (act, loc), PRE + "let srv(x : 1) : 1 -* 1 = %s <- new unit(); <u, w> <- recv self; wait x; wait %s; wait u; print served; close w\n"
                        "prc[a] : 1 = %s <- new unit(); p <- new srv(%s); %s\n" % (srv_local, srv_local, "y" if loc != "p" else "y", "y" if loc != "p" else "y", tail)))
    # the callee is blocked in a receive when it is duplicated / dropped, and a binder that has NOT executed yet, further down
    # in its body, is spelt like the channel it got from its caller (or like one it received)
    pend = {
        "cut": "{b} <- new unit(); wait x; wait {b}; wait u; print served; close w",
        "split": "<{b}, k> <- split u; wait x; wait {b}; wait k; print served; close w",
        "recv": "q : 1 * 1 <- new send self<x, u>; <{b}, k> <- recv q; wait {b}; wait k; print served; close w",
        "case": "q : +{{l : 1}} <- new self.l<x>; case q (l<{b}> => wait {b}; wait u; print served; close w)",
    }
    for kind, body in pend.items():
        for bname in ("y", "z", "u", "x"):
            for act in ("split", "drop"):
                tail = ("<p1, p2> <- split p; t1 <- new unit(); t2 <- new unit(); r1 : 1 <- new send p1<t1, self>; r2 : 1 <- new send p2<t2, self>; "
                        "wait r1; print one; wait r2; print two; close self") if act == "split" else "drop p; print dropped; close self"
                out.append(("D:pending:%s:%s:%s" % (kind, act, bname), PRE + "let srv(x : 1) : 1 -* 1 = <u, w> <- recv self; %s\n"
                            "prc[a] : 1 = y <- new unit(); p <- new srv(y); %s\n" % (body.format(b=bname), tail)))
    # recursion: each unfolding creates a channel under the same binder, all held together and then duplicated
    out.append(("D:rec:split", PRE + "type L = +{nil : 1, cons : 1 * L}\n"
                "let nil() : L = t <- new unit(); self.nil<t>\nlet cons(t : L) : L = c <- new unit(); p : 1 * L <- new send self<c, t>; self.cons<p>\n"
                "let len(l : L) : 1 = case l (nil<t> => wait t; close self | cons<p> => <c, t> <- recv p; wait c; r <- new len(t); wait r; print item; close self)\n"
                "prc[a] : 1 = l0 <- new nil(); l1 <- new cons(l0); l2 <- new cons(l1); <m1, m2> <- split l2; r1 <- new len(m1); r2 <- new len(m2); wait r1; wait r2; print fin; close self\n"))
    out.append(("D:rec:drop", PRE + "type L = +{nil : 1, cons : 1 * L}\n"
                "let nil() : L = t <- new unit(); self.nil<t>\nlet cons(t : L) : L = c <- new unit(); p : 1 * L <- new send self<c, t>; self.cons<p>\n"
                "prc[a] : 1 = l0 <- new nil(); l1 <- new cons(l0); l2 <- new cons(l1); drop l2; print fin; close self\n"))
    return out


def family_e():
    """a top-level process with several provider names is duplicated BEFORE its first step, so whatever its body is -
    a call with or without explicit self, a cut, a receive - is copied as it stands, with the annotations the
    checker left on the occurrences of its free names (the direction of the forwards created for them is read there)"""
    out = []
    for ty, cbody in (("1", "close self"), ("N", "case self (go<s> => close s)")):
        f = "let f(x : %s) : 1 = %s close self\n" % (ty, use(ty, "x", "x"))
        bodies = {
            "callself": "f(self, c)",
            "call": "f(c)",
            "direct": "%s close self" % use(ty, "c", "c"),
            "cut": "k <- new f(c); wait k; close self",
            "cutself": "k <- new f(self, c); wait k; close self",
            "print": "print pre; f(self, c)",
        }
        for name, body in bodies.items():
            for provs in ("a, b", "a, b, e"):
                waits = "".join("wait %s; " % x.strip() for x in provs.split(","))
                out.append(("E:%s:%s:%d" % (ty, name, len(provs.split(","))), PRE + f + "prc[%s] : 1 = %s\nprc[c] : %s = %s\nprc[d] : 1 = %sprint done; close self\n" % (provs, body, ty, cbody, waits)))
    return out


def family_f():
    """producer/consumer pairs over recursive types written with different periods (lib/vlib/eqstress.py): the accepted ones
    run to the end; the rejected ones would hit a missing branch if the checker let them through"""
    from . import eqstress
    return [("F:" + k.split(":", 1)[1], t) for _, k, t in eqstress.programs() if "omega" in k]


KINDS = {
    # message kind: (type definition, provider body with `print hello` before it acts, consumer body of channel {a})
    "CLS": ("type T = lin 1", "print hello; close self", "wait {a}; print done; close self"),
    "SND": ("type T = lin (1 * 1)", "u : lin 1 <- new close self; v : lin 1 <- new close self; print hello; send self<u, v>",
            "<x, y> <- recv {a}; wait x; wait y; print done; close self"),
    "SEL": ("type T = lin +{l : 1, r : 1}", "u : lin 1 <- new close self; print hello; self.l<u>",
            "case {a} (l<x> => wait x; print done; close self | r<x> => wait x; print other; close self)"),
    "CST": ("type T = lin \\/ lin 1", "u : lin 1 <- new close self; print hello; cast self<u>", "x <- shift {a}; wait x; print done; close self"),
    "RCV": ("type T = lin (1 -* 1)", "<x, y> <- recv self; print hello; wait x; close y",
            "u : lin 1 <- new close self; r : lin 1 <- new send {a}<u, self>; wait r; print done; close self"),
    "BRA": ("type T = lin &{l : 1, r : 1}", "case self (l<y> => print hello; close y | r<y> => print other; close y)",
            "r : lin 1 <- new {a}.l<self>; wait r; print done; close self"),
    "SHF": ("type T = lin /\\ lin 1", "y <- shift self; print hello; close y", "r : lin 1 <- new cast {a}<self>; wait r; print done; close self"),
}


def family_g():
    """every kind of message through a chain of forwards of length 0..3 (top-level forwarders, and forwarders spawned by a
    function), the provider printing before it acts: a relay that mishandles one kind, or a forward request that makes a
    process repeat a step, changes the printed multiset in some mode"""
    out = []
    for kind, (tdef, prov, cons) in KINDS.items():
        for n in (0, 1, 2, 3):
            for how in ("prc", "fun"):
                if n == 0 and how == "fun":
                    continue
                lines = [tdef, "let fw(x : T) : T = fwd self x", "prc[b] : T = " + prov]
                last = "b"
                for i in range(n):
                    nm = "a%d" % i
                    lines.append("prc[%s] : T = %s" % (nm, "fwd self " + last if how == "prc" else "fw(%s)" % last))
                    last = nm
                lines.append("prc[m] : lin 1 = " + cons.replace("{a}", last))
                out.append(("G:%s:%d:%s" % (kind, n, how), "\n".join(lines) + "\n"))
    return out


FIRST = {
    # a first step of each kind, in a function body srv(u : lin 1, c : <type>) that is instantiated twice; the code after the
    # step uses the parameter u (different per instance) and prints
    "drop": ("aff 1", "drop c;", "x{i} : aff 1 <- new close self;"),
    "wait": ("lin 1", "wait c;", "x{i} : lin 1 <- new close self;"),
    "shiftc": ("lin \\/ lin 1", "y <- shift c; wait y;", "z{i} : lin 1 <- new close self; x{i} : lin \\/ lin 1 <- new cast self<z{i}>;"),
    "recvc": ("lin (1 * 1)", "<p, q> <- recv c; wait p; wait q;", "y{i} : lin 1 <- new close self; z{i} : lin 1 <- new close self; x{i} : lin (1 * 1) <- new send self<y{i}, z{i}>;"),
    "casec": ("lin +{l : 1}", "case c (l<p> => wait p; wait u; print served; close self)", "z{i} : lin 1 <- new close self; x{i} : lin +{l : 1} <- new self.l<z{i}>;"),
    "cut": ("lin 1", "k : lin 1 <- new close self; wait k; wait c;", "x{i} : lin 1 <- new close self;"),
    "print": ("lin 1", "print first; wait c;", "x{i} : lin 1 <- new close self;"),
}


def family_h():
    """code instantiated twice - a function called twice, and a function body duplicated after a split - whose first step is of
    each kind and whose continuation mentions a parameter that differs per instance: a copy that shares any part of the body
    with its original makes the second instance run with the first one's channels"""
    out = []
    for kind, (cty, step, mk) in FIRST.items():
        tail = "" if kind == "casec" else " wait u; print served; close self"
        srv = "let srv(u : lin 1, c : %s) : lin 1 = %s%s" % (cty, step, tail)
        body = []
        for i in (1, 2):
            body.append("u%d : lin 1 <- new close self; %s r%d <- new srv(u%d, x%d);" % (i, mk.replace("{i}", str(i)), i, i, i))
        out.append(("H:call2:%s" % kind, srv + "\nprc[m] : lin 1 = " + " ".join(body) + " wait r1; print one; wait r2; print two; close self\n"))
        # shifts on the provider side, instantiated twice by calls
    out.append(("H:call2:shiftp", "let srv(u : lin 1) : lin /\\ lin 1 = y <- shift self; wait u; print served; close y\n"
                "prc[m] : lin 1 = u1 : lin 1 <- new close self; u2 : lin 1 <- new close self; s1 <- new srv(u1); s2 <- new srv(u2); "
                "r1 : lin 1 <- new cast s1<self>; r2 : lin 1 <- new cast s2<self>; wait r1; print one; wait r2; print two; close self\n"))
    out.append(("H:call2:recvp", "let srv(u : lin 1) : lin (1 -* 1) = <p, q> <- recv self; wait u; wait p; print served; close q\n"
                "prc[m] : lin 1 = u1 : lin 1 <- new close self; u2 : lin 1 <- new close self; s1 <- new srv(u1); s2 <- new srv(u2); "
                "t1 : lin 1 <- new close self; t2 : lin 1 <- new close self; r1 : lin 1 <- new send s1<t1, self>; r2 : lin 1 <- new send s2<t2, self>; "
                "wait r1; print one; wait r2; print two; close self\n"))
    # the same first steps in a replicable server that is duplicated by a split while it still holds its argument
    for kind, step in (("drop", "k : 1 <- new close self; drop k;"), ("shiftc", "z : 1 <- new close self; k : rep \\/ rep 1 <- new cast self<z>; y <- shift k; wait y;"),
                       ("cut", "k : 1 <- new close self; wait k;"), ("print", "print first;")):
        out.append(("H:dup:%s" % kind, PRE + "let srv(u : 1) : N = case self (go<s> => %s wait u; print served; close s)\n"
                    "prc[m] : 1 = y <- new unit(); q <- new srv(y); <q1, q2> <- split q; r1 : 1 <- new q1.go<self>; r2 : 1 <- new q2.go<self>; "
                    "wait r1; print one; wait r2; print two; close self\n" % step))
    return out


def family_b2():
    """a receive / case / shift that re-binds its subject at a DIFFERENT type: if a substitution wrongly reaches the re-bound
    occurrences, the continuation talks to the old channel with the new protocol"""
    out = []
    out.append(("B2:recv", "type S = lin +{l : 1}\ntype P = lin (1 * S)\nlet mk() : P = a : lin 1 <- new close self; z : lin 1 <- new close self; b : S <- new self.l<z>; send self<a, b>\n"
                "let rd(c : P) : lin 1 = <u, c> <- recv c; wait u; case c (l<v> => wait v; print got; close self)\n"
                "prc[m] : lin 1 = p <- new mk(); r <- new rd(p); wait r; print fin; close self\n"))
    out.append(("B2:recv-payload", "type S = lin +{l : 1}\ntype P = lin (S * 1)\nlet mk() : P = z : lin 1 <- new close self; a : S <- new self.l<z>; b : lin 1 <- new close self; send self<a, b>\n"
                "let rd(c : P) : lin 1 = <c, k> <- recv c; wait k; case c (l<v> => wait v; print got; close self)\n"
                "prc[m] : lin 1 = p <- new mk(); r <- new rd(p); wait r; print fin; close self\n"))
    out.append(("B2:case", "type P = lin (1 * 1)\ntype S = lin +{l : P}\nlet mk() : S = a : lin 1 <- new close self; b : lin 1 <- new close self; p : P <- new send self<a, b>; self.l<p>\n"
                "let rd(c : S) : lin 1 = case c (l<c> => <u, v> <- recv c; wait u; wait v; print got; close self)\n"
                "prc[m] : lin 1 = p <- new mk(); r <- new rd(p); wait r; print fin; close self\n"))
    out.append(("B2:shift", "type P = lin (1 * 1)\ntype D = lin \\/ lin P\nlet mk() : D = a : lin 1 <- new close self; b : lin 1 <- new close self; p : P <- new send self<a, b>; cast self<p>\n"
                "let rd(c : D) : lin 1 = c <- shift c; <u, v> <- recv c; wait u; wait v; print got; close self\n"
                "prc[m] : lin 1 = p <- new mk(); r <- new rd(p); wait r; print fin; close self\n"))
    # the demo shape: bound, handed to a spawned call that hands it back, re-bound by the receive
    out.append(("B2:handback", "type S = lin +{l : 1}\ntype P = lin (1 * S)\nlet f(x : lin 1) : P = z : lin 1 <- new close self; b : S <- new self.l<z>; send self<x, b>\n"
                "let g(x : lin 1) : lin 1 = y <- new f(x); <k, x> <- recv y; case x (l<v> => wait v; wait k; print ok; close self)\n"
                "prc[m] : lin 1 = a : lin 1 <- new close self; r <- new g(a); wait r; print fin; close self\n"))
    out.append(("B2:handback-prc", "type S = lin +{l : 1}\ntype P = lin (1 * S)\nlet f(x : lin 1) : P = z : lin 1 <- new close self; b : S <- new self.l<z>; send self<x, b>\n"
                "prc[m] : lin 1 = x : lin 1 <- new close self; y <- new f(x); <k, x> <- recv y; case x (l<v> => wait v; wait k; print ok; close self)\n"))
    out.append(("B2:handback-payload", "type S = lin +{l : 1}\ntype P = lin (S * 1)\nlet f(x : lin 1) : P = z : lin 1 <- new close self; b : S <- new self.l<z>; send self<b, x>\n"
                "prc[m] : lin 1 = x : lin 1 <- new close self; y <- new f(x); <x, k> <- recv y; case x (l<v> => wait v; wait k; print ok; close self)\n"))
    out.append(("B2:handback-case", "type S = lin +{l : 1}\ntype C = lin +{c : S}\nlet f(x : lin 1) : C = wait x; z : lin 1 <- new close self; b : S <- new self.l<z>; self.c<b>\n"
                "prc[m] : lin 1 = x : lin 1 <- new close self; y <- new f(x); case y (c<x> => case x (l<v> => wait v; print ok; close self))\n"))
    return out


def storms(big=True):
    """the large instances of family I, run on the implementation only (their expected multiset comes from one model run)"""
    out = []
    for n, k in (((48, 25),) if big else ((6, 4),)):
        lines = ["prc[p%d] : 1 = %sclose self" % (i, "print tick; " * k) for i in range(n)]
        lines.append("prc[m] : 1 = " + "".join("wait p%d; " % i for i in range(n)) + "print done; close self")
        out.append(("storm:print:%d:%d" % (n, k), "\n".join(lines) + "\n"))
    for n, k in (((8, 120),) if big else ((4, 5),)):
        nat = "type nat = +{z : 1, s : nat}\nlet zero() : nat = t : 1 <- new close self; self.z<t>\nlet succ(x : nat) : nat = self.s<x>\n"
        da = "let drainA(x : nat) : 1 = case x (z<t> => wait t; close self | s<y> => print a; drainA(y))\n"
        db = "let drainB(x : nat) : 1 = case x (z<t> => wait t; close self | s<y> => print b; drainB(y))\n"
        lines = []
        for i in range(n):
            build = "n0 <- new zero(); " + "".join("n%d <- new succ(n%d); " % (j + 1, j) for j in range(k))
            lines.append("prc[q%d] : 1 = %sr <- new drain%s(n%d); wait r; close self" % (i, build, "A" if i % 2 == 0 else "B", k))
        lines.append("prc[m] : 1 = " + "".join("wait q%d; " % i for i in range(n)) + "print done; close self")
        out.append(("storm:call:%d:%d" % (n, k), nat + da + db + "\n".join(lines) + "\n"))
    return out


def family_i():
    """many processes printing at the same instant (no communication orders their prints) and many processes calling
    DIFFERENT functions of the same arity at the same instant: whatever the interpreter shares between process goroutines
    without synchronisation - an output buffer, a cache in the global environment - shows as lost, duplicated or swapped
    labels on a multi-core run"""
    out = []
    for n, k in ((6, 4), (14, 8)):
        lines = ["prc[p%d] : 1 = %sclose self" % (i, "print tick; " * k) for i in range(n)]
        lines.append("prc[m] : 1 = " + "".join("wait p%d; " % i for i in range(n)) + "print done; close self")
        out.append(("I:printstorm:%d:%d" % (n, k), "\n".join(lines) + "\n"))
    for n, k in ((4, 5), (6, 12)):
        nat = "type nat = +{z : 1, s : nat}\nlet zero() : nat = t : 1 <- new close self; self.z<t>\nlet succ(x : nat) : nat = self.s<x>\n"
        da = "let drainA(x : nat) : 1 = case x (z<t> => wait t; close self | s<y> => print a; drainA(y))\n"
        db = "let drainB(x : nat) : 1 = case x (z<t> => wait t; close self | s<y> => print b; drainB(y))\n"
        lines = []
        for i in range(n):
            build = "n0 <- new zero(); " + "".join("n%d <- new succ(n%d); " % (j + 1, j) for j in range(k))
            lines.append("prc[q%d] : 1 = %sr <- new drain%s(n%d); wait r; close self" % (i, build, "A" if i % 2 == 0 else "B", k))
        lines.append("prc[m] : 1 = " + "".join("wait q%d; " % i for i in range(n)) + "print done; close self")
        out.append(("I:callstorm:%d:%d" % (n, k), nat + da + db + "\n".join(lines) + "\n"))
    return out


def programs():
    seen, out = set(), []
    for fam in (family_a, family_b, family_b2, family_c, family_d, family_e, family_f, family_g, family_h, family_i):
        for i, t in fam():
            if t not in seen:
                seen.add(t)
                out.append(("shape:" + i, t))
    return out


def renaming_groups():
    """alpha-variants among the shapes: programs of families B and D whose identifiers differ only in their last
    component are consistent renamings of one another (some re-use a name that is dead or shadowed, one does not).
    Returned as (group id, base text, [variant text, ...]); print labels are the same in all of them."""
    groups = {}
    for i, t in programs():
        parts = i.split(":")
        if parts[2] == "pending" and parts[-1] in ("u", "x"):      # some of these re-bind a live name: not alpha-variants
            continue
        if parts[1] in ("B", "D") and len(parts) >= 4 and parts[1:3] not in (["B", "cut"], ["D", "rec"]):
            groups.setdefault(":".join(parts[:-1]), []).append(t)
    return [(g, ts[-1], ts[:-1]) for g, ts in sorted(groups.items()) if len(ts) > 1]


if __name__ == "__main__":
    for i, t in programs():
        print("//", i)
        print(t)
