(* Cli.v — cmd/cli.go:42-201: flag resolution and the parse -> typecheck -> run sequencing of the
   `grits` command, composed with the pipeline model.  The model starts from the parsed flag values
   (the `flag` package is outside the model; the correspondence drives the real binary with real
   command lines).  Benchmark and web-server flags are not modelled (they never reach this code). *)
From stdpp Require Import gmap.
Require Import Grits.Base Grits.ModeDefs Grits.Modes Grits.STypes Grits.Forms Grits.Expand Grits.Tc Grits.TcTop Grits.Runtime.

Record flags : Type := {
  fl_typecheck : bool;      (* --typecheck (default true) *)
  fl_notypecheck : bool;    (* --notypecheck *)
  fl_execute : bool;        (* --execute (default true) *)
  fl_noexecute : bool;      (* --noexecute *)
  fl_sync : bool;           (* --sync: NON-polarized synchronous *)
  fl_async : bool           (* --async (default true) *)
}.
Definition typecheck_on (f : flags) : bool := negb (fl_notypecheck f) && fl_typecheck f.
Definition execute_on (f : flags) : bool := negb (fl_noexecute f) && fl_execute f.
Definition run_mode (f : flags) : option exec_mode :=
  if fl_sync f then Some NP else if fl_async f then Some Async else None.

Record cli_out : Type := {
  co_exit : nat;                 (* process exit status *)
  co_diags : nat;                (* diagnostics printed through log.Fatal *)
  co_ran : bool;                 (* InitializeProcesses was reached *)
  co_labels : list string;       (* the `> label` lines *)
  co_trace : bool                (* the process died with a Go panic trace *)
}.

Definition fail1 : cli_out := {| co_exit := 1; co_diags := 1; co_ran := false; co_labels := []; co_trace := false |}.
Definition done0 (ran : bool) (ls : list string) : cli_out :=
  {| co_exit := 0; co_diags := 0; co_ran := ran; co_labels := ls; co_trace := false |}.
Definition crash2 (ls : list string) : cli_out :=
  {| co_exit := 2; co_diags := 0; co_ran := true; co_labels := ls; co_trace := true |}.

(* An UNCHECKED run (RuntimeEnvironment.Typechecked = false): the interpreter does not read polarities from type
   annotations (there are none) but from the explicit polarity a name carries (`+x` / `-x`), Name.Polarity(false, _);
   a name without one has an unknown polarity and a forward on it stops the run.  The model's interpreter reads the
   polarity of a forward from `nty`; the unchecked mode is modelled by giving every name that has an explicit polarity
   and no type a type of that polarity (nothing else reads `nty` at run time). *)
Definition expl_name (n : name) : name :=
  match nty n, pol n with
  | None, Some Pos => set_nty n (Some (TUnit Lin))
  | None, Some Neg => set_nty n (Some (TLolli (TUnit Lin) (TUnit Lin) Lin))
  | _, _ => n
  end.
Fixpoint expl_form (f : form) : form :=
  match f with
  | FSend a b c => FSend (expl_name a) (expl_name b) (expl_name c)
  | FRecv a b c k => FRecv (expl_name a) (expl_name b) (expl_name c) (expl_form k)
  | FSel a l c => FSel (expl_name a) l (expl_name c)
  | FCase a bs => FCase (expl_name a) (expl_brs bs)
  | FNew x b k => FNew (expl_name x) (expl_form b) (expl_form k)
  | FClose c => FClose (expl_name c)
  | FWait c k => FWait (expl_name c) (expl_form k)
  | FFwd a b d => FFwd (expl_name a) (expl_name b) d
  | FSplit x y c k => FSplit (expl_name x) (expl_name y) (expl_name c) (expl_form k)
  | FCall g args t => FCall g (map expl_name args) t
  | FCast a c => FCast (expl_name a) (expl_name c)
  | FShift x c k => FShift (expl_name x) (expl_name c) (expl_form k)
  | FDrop c k => FDrop (expl_name c) (expl_form k)
  | FPrint l k => FPrint l (expl_form k)
  end
with expl_brs (b : branches) : branches :=
  match b with
  | BrNil => BrNil
  | BrCons l pay k r => BrCons l (expl_name pay) (expl_form k) (expl_brs r)
  end.
Definition expl_program (p : program) : program :=
  {| p_procs := map (fun q => {| pr_body := expl_form (pr_body q); pr_providers := pr_providers q; pr_type := pr_type q |}) (p_procs p);
     p_assumed := p_assumed p;
     p_funs := map (fun g => {| fn_name := fn_name g; fn_params := fn_params g; fn_body := expl_form (fn_body g);
                                fn_type := fn_type g; fn_explicit := fn_explicit g |}) (p_funs p);
     p_types := p_types p |}.

(* the run, under a schedule oracle; a run-time error is a Go panic: trace, exit status 2 *)
Definition cli_run (pick : nat -> nat -> nat) (fuel : nat) (md : exec_mode) (p : program) : cli_out :=
  match exec_run fuel pick md (p_types p) (p_funs p) (init_config p) with
  | RQuiescent c => done0 true (labels c)
  | RError c _ _ => crash2 (labels c)
  | ROutOfFuel c => done0 true (labels c)      (* non-terminating program: the CLI keeps running; not a CLI outcome *)
  end.

(* file = None: the file cannot be opened *)
Definition cli (pick : nat -> nat -> nat) (fuel : nat) (f : flags) (file : option string) : cli_out :=
  match file with
  | None => fail1
  | Some s =>
    match parse_string s with
    | POk p =>
      let go (p' : program) :=
        if execute_on f then
          match run_mode f with
          | Some md => cli_run pick fuel md p'
          | None => done0 false []              (* "Choose either --sync or --async" *)
          end
        else done0 false [] in
      if typecheck_on f then
        match typecheck p with
        | Accept p' => go p'
        | Reject | RejectInternal _ => fail1
        | Diverge _ => fail1                     (* unreachable (C09); a hang is not an exit status *)
        end
      else go (expl_program p)
    | PErr _ => fail1
    | PPanic _ => {| co_exit := 2; co_diags := 0; co_ran := false; co_labels := []; co_trace := true |}
    | PHang _ => fail1                           (* unreachable (C11) *)
    end
  end.

(* what the property talks about *)
Definition parse_ok (file : option string) : bool :=
  match file with Some s => match parse_string s with POk _ => true | _ => false end | None => false end.
Definition tc_ok (file : option string) : bool :=
  match file with
  | Some s => match parse_string s with POk p => match typecheck p with Accept _ => true | _ => false end | _ => false end
  | None => false
  end.
Definition parse_panics (file : option string) : bool :=
  match file with Some s => match parse_string s with PPanic _ => true | _ => false end | None => false end.
