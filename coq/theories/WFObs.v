(* WFObs.v — the observables of the `wf` and `wfann` correspondence suites, composed from the
   model exactly as harness/typeswf.go composes them from the real code:
     wf    : text -> ParseString -> SanityChecksTypeDefinitions on the parsed definitions
             -> (when accepted) Unfold of every defined name
     wfann : text -> ParseString -> for every annotation type of the program (function provider
             type and parameter types, assumed names, process types, in declaration order)
             AddMissingModalities then SanityChecksType on that one type. *)
Require Import Grits.Base Grits.ModeDefs Grits.Modes Grits.STypes Grits.Forms Grits.Infer
               Grits.Expand Grits.Dump Grits.WF Grits.Unfold.

Definition tab : string := String (ascii_of_nat 9) EmptyString.

Fixpoint join_with (sep : string) (l : list string) : string :=
  match l with [] => "" | [x] => x | x :: r => x ^^ sep ^^ join_with sep r end.

Definition err_class (e : wf_err) : string :=
  match e with
  | EDupDef => "dup-def" | EUndefined => "undefined" | EDupLabel => "dup-label"
  | ENoMode => "no-mode" | EUnknownMode => "unknown-mode" | EModeMismatch => "mode-mismatch"
  | ERefModeMismatch => "ref-mode-mismatch" | EIllegalShift => "illegal-shift"
  | ENotContractive => "not-contractive"
  | EDefModeMismatch => "def-mode-mismatch"
  end.

Definition dump_tdef (d : tdef) : string :=
  "type " ^^ td_name d ^^ " " ^^ dump_mode (td_mode d) ^^ " " ^^ dump_type (td_body d).

(* Unfold of every defined name, in definition order; None = some call hangs *)
Fixpoint unfold_all (D : tenv) (l : tenv) : outcome (list string) :=
  match l with
  | [] => Ok []
  | d :: r =>
    do u <- unfold (unfold_fuel D) D (TName (td_name d) (td_mode d));
    do rest <- unfold_all D r;
    Ok ((td_name d ^^ "=" ^^ dump_otype u) :: rest)
  end.

(* the model prints the error class after REJECT (":class"); the suite projects it away before
   comparing and uses it for the coverage statistics only *)
Definition wf_obs_env (D : tenv) : string :=
  let defs := join_with " ;; " (map dump_tdef D) in
  match sanity_typedefs D with
  | Hang _ => "HANG"
  | Panic _ => "PANIC"
  | Ok (Some e) => "REJECT:" ^^ err_class e ^^ tab ^^ defs
  | Ok None =>
    match unfold_all D D with
    | Hang _ => "HANG"
    | Panic _ => "PANIC"
    | Ok us => "OK" ^^ tab ^^ defs ^^ tab ^^ join_with " ;; " us
    end
  end.

Definition wf_obs (text : string) : string :=
  match parse_string text with
  | PErr _ => "PARSE-ERR"
  | PPanic _ => "PANIC"
  | PHang _ => "HANG"
  | POk p => wf_obs_env (p_types p)
  end.

(* annotation types *)
Definition ann_types (p : program) : list sty :=
  let of_opt (o : option sty) := match o with Some t => [t] | None => [] end in
  flat_map (fun f => of_opt (fn_type f) ++ flat_map (fun n => of_opt (nty n)) (fn_params f)) (p_funs p) ++
  flat_map (fun n => of_opt (nty n)) (p_assumed p) ++
  flat_map (fun pr => of_opt (pr_type pr)) (p_procs p).

Definition ann_obs1 (D : tenv) (t : sty) : outcome string :=
  do t' <- add_missing D t;
  Ok (match sanity_types D [t'] with
      | None => "OK " ^^ dump_type t'
      | Some e => "REJECT:" ^^ err_class e ^^ " " ^^ dump_type t'
      end).

Fixpoint ann_obs_all (D : tenv) (ts : list sty) : outcome (list string) :=
  match ts with
  | [] => Ok []
  | t :: r => do a <- ann_obs1 D t; do rest <- ann_obs_all D r; Ok (a :: rest)
  end.

Definition wfann_obs (text : string) : string :=
  match parse_string text with
  | PErr _ => "PARSE-ERR"
  | PPanic _ => "PANIC"
  | PHang _ => "HANG"
  | POk p =>
    match ann_obs_all (p_types p) (ann_types p) with
    | Hang _ => "HANG"
    | Panic _ => "PANIC"
    | Ok l => "ANN" ^^ tab ^^ join_with " ;; " l
    end
  end.
