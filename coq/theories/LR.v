(* LR.v — model of the goyacc driver (parser/parser.y.go: gritslex1, gritsParserImpl.Parse) run over
   the tables extracted from the current parser.y.go (gen/LRTables.v), generic in the semantic
   values.  The error-recovery loop is modelled as "abort": no state of the tables has a shift on
   the `error` token (checked by computation on the regenerated tables, proofs/LRCert.v), so the
   loop pops the whole stack and returns 1. *)
Require Import Grits.Base Grits.Tokens Grits.gen.LRTables.
Local Open Scope Z_scope.

Definition nthZ (l : list Z) (i : Z) : Z :=
  if i <? 0 then 0 else nth (Z.to_nat i) l 0.
Definition lenZ (l : list Z) : Z := Z.of_nat (length l).

(* gritslex1: translation of the lexer's token code into the parser's internal numbering *)
Fixpoint tok3_find (l : list Z) (c : Z) : Z :=
  match l with
  | a :: b :: rest => if a =? c then b else tok3_find rest c
  | _ => 0
  end.
Definition lex1 (c : Z) : Z :=
  let t :=
    if c <=? 0 then nthZ tTok1 0
    else if c <? lenZ tTok1 then nthZ tTok1 c
    else if (tPrivate <=? c) && (c <? tPrivate + lenZ tTok2) then nthZ tTok2 (c - tPrivate)
    else tok3_find tTok3 c in
  if t =? 0 then nthZ tTok2 1 else t.

Inductive act : Type := AShift (t : Z) | AReduce (p : Z) | AErr | AAcc.

Fixpoint exca_find (l : list Z) (st : Z) : option (list Z) :=
  match l with
  | a :: b :: rest => if (a =? -1) && (b =? st) then Some rest else exca_find rest st
  | _ => None
  end.
Fixpoint exca_scan (l : list Z) (tok : Z) : Z :=
  match l with
  | a :: b :: rest => if (a <? 0) || (a =? tok) then b else exca_scan rest tok
  | _ => 0
  end.

Definition action (st tok : Z) : act :=
  let n := nthZ tPact st in
  let shift :=
      if n <=? tFlag then None else
        let n2 := n + tok in
        if (n2 <? 0) || (tLast <=? n2) then None else
          let a := nthZ tAct n2 in
          if nthZ tChk a =? tok then Some a else None in
  match shift with
  | Some a => AShift a
  | None =>
    let d := nthZ tDef st in
    let d' := if d =? -2 then
                match exca_find tExca st with
                | Some rest => exca_scan rest tok
                | None => 0
                end
              else d in
    if (d =? -2) && (d' <? 0) then AAcc
    else if d' =? 0 then AErr else AReduce d'
  end.

Definition goto (s0 p : Z) : Z :=
  let n := nthZ tR1 p in
  let g := nthZ tPgo n in
  let j := g + s0 + 1 in
  if tLast <=? j then nthZ tAct g
  else let st := nthZ tAct j in
       if nthZ tChk st =? - n then st else nthZ tAct g.

Definition rlen (p : Z) : nat := Z.to_nat (nthZ tR2 p).

Section Driver.
Variable V : Type.
Variable vdummy : V.
Variable tok_val : tk * string -> V.
Variable reduce_action : Z -> list V -> option V.

Inductive lr_res : Type :=
| LRAccept (v : V)
| LRSyntaxError
| LRActionError (p : Z)     (* a semantic action met a value of the wrong shape: Go would panic *)
| LROutOfFuel.

Inductive lr_step : Type :=
| StAccept (v : V) | StReject | StBadAction (p : Z)
| StCont (stk : list (Z * V)) (inp : list (tk * string)).

Definition lookahead (inp : list (tk * string)) : Z :=
  match inp with
  | [] => lex1 0
  | (k, _) :: _ => lex1 (tok_code k)
  end.

Definition step (stk : list (Z * V)) (inp : list (tk * string)) : lr_step :=
  match stk with
  | [] => StReject
  | (st, v) :: _ =>
    match action st (lookahead inp) with
    | AShift t => match inp with
                  | [] => StReject
                  | tv :: inp' => StCont ((t, tok_val tv) :: stk) inp'
                  end
    | AReduce p =>
      let k := rlen p in
      let vals := rev (map snd (firstn k stk)) in
      match skipn k stk with
      | [] => StReject
      | (s0, v0) :: below =>
        match reduce_action p vals with
        | Some nv => StCont ((goto s0 p, nv) :: (s0, v0) :: below) inp
        | None => StBadAction p
        end
      end
    | AErr => StReject
    | AAcc => StAccept v
    end
  end.

Fixpoint run (fuel : nat) (stk : list (Z * V)) (inp : list (tk * string)) : lr_res :=
  match fuel with
  | O => LROutOfFuel
  | S f => match step stk inp with
           | StAccept v => LRAccept v
           | StReject => LRSyntaxError
           | StBadAction p => LRActionError p
           | StCont s i => run f s i
           end
  end.

Definition parse_tokens (fuel : nat) (inp : list (tk * string)) : lr_res :=
  run fuel [(0, vdummy)] inp.
End Driver.

Arguments LRAccept {V} v.
Arguments LRSyntaxError {V}.
Arguments LRActionError {V} p.
Arguments LROutOfFuel {V}.
