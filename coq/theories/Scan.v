(* Scan.v — byte-level model of parser/scanner.go (+ token.go character classes).
   Input: a Coq string = list of bytes.  Abstractions (DESIGN.md section 4):
   - Go decodes UTF-8 runes; every rune >= 0x80 (and U+FFFD for invalid bytes) takes the same path
     as any other non-ASCII rune: ILLEGAL outside comments, skipped inside.  The model sees each
     byte >= 0x80 as one such character; the token stream up to the first code-0 token is the same.
   - Position bookkeeping (pos.Char / pos.Lines) is not modelled: `unread` is only ever called
     right after a successful or failed read of a second character, when pos.Char >= 1 or Lines is
     non-empty, so its index expression cannot panic.
   The keyword table is generated from the code (gen/ScanTables.v). *)
Require Import Grits.Base Grits.Tokens Grits.gen.ScanTables.

Definition code (c : ascii) : nat := nat_of_ascii c.
Definition is_ws (c : ascii) : bool :=
  let n := code c in (n =? 32)%nat || (n =? 9)%nat || (n =? 10)%nat || (n =? 11)%nat || (n =? 13)%nat.
Definition is_alnum (c : ascii) : bool :=
  let n := code c in
  ((97 <=? n)%nat && (n <=? 122)%nat) || ((65 <=? n)%nat && (n <=? 90)%nat) || ((48 <=? n)%nat && (n <=? 57)%nat).
Definition is_lab (c : ascii) : bool := is_alnum c || (code c =? 95)%nat || (code c =? 39)%nat.
Definition is_special (c : ascii) : bool :=
  let n := code c in
  (n =? 61)%nat || (n =? 60)%nat || (n =? 45)%nat || (n =? 49)%nat || (n =? 47)%nat || (n =? 92)%nat.

Definition single_char (c : ascii) : option tk :=
  match code c with
  | 62 => Some RANGLE | 40 => Some LPAREN | 41 => Some RPAREN | 91 => Some LSBRACK | 93 => Some RSBRACK
  | 123 => Some LCBRACK | 125 => Some RCBRACK | 46 => Some DOT | 59 => Some SEQUENCE | 58 => Some COLON
  | 124 => Some PIPE | 44 => Some COMMA | 43 => Some PLUS | 42 => Some TIMES | 38 => Some AMPERSAND
  | 37 => Some PERCENTAGE
  | _ => None
  end.

Fixpoint skip_ws (s : string) : string :=
  match s with
  | String c r => if is_ws c then skip_ws r else s
  | EmptyString => s
  end.
Fixpoint skip_eol (s : string) : string :=
  match s with
  | String c r => if (code c =? 10)%nat then r else skip_eol r
  | EmptyString => s
  end.
(* skipToEndOfComment (as repaired): ends after the first "*/", or at the end of the input *)
Fixpoint skip_comment (prev_star : bool) (s : string) : string :=
  match s with
  | String c r =>
    if prev_star && (code c =? 47)%nat then r
    else skip_comment (code c =? 42)%nat r
  | EmptyString => s
  end.
(* scanLabel: the maximal run of label characters *)
Fixpoint take_label (s : string) : string * string :=
  match s with
  | String c r => if is_lab c then let '(l, rest) := take_label r in (String c l, rest) else (EmptyString, s)
  | EmptyString => (EmptyString, s)
  end.

Definition keyword (w : string) : tk :=
  match alookup w keyword_tbl with Some k => k | None => LABEL end.

Definition peek (s : string) : option ascii := match s with String c _ => Some c | EmptyString => None end.
Definition is_char (n : nat) (o : option ascii) : bool :=
  match o with Some c => (code c =? n)%nat | None => false end.

Inductive scan_res : Type :=
| Tok (k : tk) (lexeme : string) (rest : string)
| Skip (rest : string).     (* a comment was consumed: scan again *)

(* one call of Scan up to (not including) its recursive call after a comment *)
Definition scan1 (s0 : string) : scan_res :=
  let s := match s0 with String c r => if is_ws c then skip_ws r else s0 | EmptyString => s0 end in
  match s with
  | EmptyString => Tok T_EOF "" EmptyString
  | String c r =>
    match single_char c with
    | Some k => Tok k (String c "") r
    | None =>
      if (code c =? 47)%nat && is_char 47 (peek r) then Skip (skip_eol (match r with String _ r' => r' | _ => r end))
      else if (code c =? 47)%nat && is_char 42 (peek r) then Skip (skip_comment false (match r with String _ r' => r' | _ => r end))
      else if is_special c then
        match code c with
        | 61 => if is_char 62 (peek r) then Tok RIGHT_ARROW "=>" (match r with String _ r' => r' | _ => r end) else Tok EQUALS "=" r
        | 60 => if is_char 45 (peek r) then Tok LEFT_ARROW "<-" (match r with String _ r' => r' | _ => r end) else Tok LANGLE "<" r
        | 45 => if is_char 42 (peek r) then Tok LOLLI "-*" (match r with String _ r' => r' | _ => r end)
                else if is_char 111 (peek r) then Tok LOLLI "-o" (match r with String _ r' => r' | _ => r end)
                else Tok MINUS "-" r
        | 49 => match peek r with
                | Some c2 => if is_lab c2 then let '(l, rest) := take_label r in Tok (keyword (String c l)) (String c l) rest
                             else Tok UNIT "1" r
                | None => Tok UNIT "1" r
                end
        | 92 => if is_char 47 (peek r) then Tok DOWN_ARROW "\/" (match r with String _ r' => r' | _ => r end)
                else Tok T_ILLEGAL (String c "") (match r with String _ r' => r' | _ => r end)
        | _ (* 47 *) => if is_char 92 (peek r) then Tok UP_ARROW "\/" (match r with String _ r' => r' | _ => r end)
                else Tok T_ILLEGAL (String c "") (match r with String _ r' => r' | _ => r end)
        end
      else if is_lab c then let '(l, rest) := take_label r in Tok (keyword (String c l)) (String c l) rest
      else Tok T_ILLEGAL (String c "") r
    end
  end.

(* the token stream the parser consumes: up to and including the first code-0 token.
   fuel: every iteration consumes at least one byte or stops, so length s + 1 suffices
   (proofs/ScanProofs.v: scan_fuel_enough). *)
Inductive scan_out : Type :=
| Tokens (l : list (tk * string))
| ScanHang.                       (* fuel exhausted: unreachable with the fuel below *)

Fixpoint scan_all_f (fuel : nat) (s : string) : scan_out :=
  match fuel with
  | O => ScanHang
  | S f =>
    match scan1 s with
    | Skip rest => scan_all_f f rest
    | Tok k lx rest =>
      match k with
      | T_EOF | T_ILLEGAL => Tokens [(k, lx)]
      | _ => match scan_all_f f rest with
             | Tokens l => Tokens ((k, lx) :: l)
             | ScanHang => ScanHang
             end
      end
    end
  end.

Definition scan_all (s : string) : scan_out := scan_all_f (S (String.length s)) s.
