(* STypes.v — session types (types/types.go): eight constructors with a mode in every node;
   "initial" types produced by the parser and their conversion (toSessionType). *)
Require Import Grits.Base Grits.ModeDefs Grits.Modes.

Inductive sty : Type :=
| TName (x : string) (m : mode)
| TUnit (m : mode)
| TTensor (a b : sty) (m : mode)      (* A * B  : SendType *)
| TLolli (a b : sty) (m : mode)       (* A -* B : ReceiveType *)
| TPlus (bs : brs) (m : mode)         (* +{..}  : SelectLabelType *)
| TWith (bs : brs) (m : mode)         (* &{..}  : BranchCaseType *)
| TUp (f t : mode) (a : sty)          (* f /\ t A *)
| TDown (f t : mode) (a : sty)        (* f \/ t A *)
with brs : Type :=
| BNil
| BCons (l : string) (a : sty) (rest : brs).

Scheme sty_ind2 := Induction for sty Sort Prop
with brs_ind2 := Induction for brs Sort Prop.
Combined Scheme sty_brs_ind from sty_ind2, brs_ind2.

Fixpoint brs_len (b : brs) : nat := match b with BNil => 0 | BCons _ _ r => S (brs_len r) end.
Fixpoint brs_labels (b : brs) : list string := match b with BNil => [] | BCons l _ r => l :: brs_labels r end.
(* LookupBranchByLabel / FetchSelectBranch: first branch with the label *)
Fixpoint find_br (l : string) (b : brs) : option sty :=
  match b with BNil => None | BCons l' a r => if String.eqb l l' then Some a else find_br l r end.
Fixpoint brs_app (a b : brs) : brs := match a with BNil => b | BCons l t r => BCons l t (brs_app r b) end.

(* SessionType.Modality() *)
Definition mode_of (t : sty) : mode :=
  match t with
  | TName _ m | TUnit m | TTensor _ _ m | TLolli _ _ m | TPlus _ m | TWith _ m => m
  | TUp _ t _ | TDown _ t _ => t
  end.

Inductive polarity : Type := Pos | Neg | UnknownPol.
Definition pol_eqb (a b : polarity) : bool :=
  match a, b with Pos, Pos | Neg, Neg | UnknownPol, UnknownPol => true | _, _ => false end.

(* SessionType.Polarity(): panics on a name (types/polarity.go) *)
Definition polarity_of (t : sty) : outcome polarity :=
  match t with
  | TName _ _ => Panic "unfold type before checking for polarity"
  | TUnit _ | TTensor _ _ _ | TPlus _ _ | TDown _ _ _ => Ok Pos
  | TLolli _ _ _ | TWith _ _ | TUp _ _ _ => Ok Neg
  end.

(* type definitions: type Name = body, with the mode SetModalityTypeDef assigns *)
Record tdef : Type := { td_name : string; td_body : sty; td_mode : mode }.
Definition tenv := list tdef.
(* ProduceLabelledSessionTypeEnvironment builds a Go map: a later definition of the same name
   overwrites an earlier one *)
Fixpoint tlookup (D : tenv) (x : string) : option tdef :=
  match D with
  | [] => None
  | d :: r => match tlookup r x with Some d' => Some d' | None => if String.eqb x (td_name d) then Some d else None end
  end.

(* ---------- initial types (parser) ---------- *)
Inductive ity : Type :=
| IName (x : string) | IUnit
| ITensor (a b : ity) | ILolli (a b : ity)
| IPlus (bs : list (string * ity)) | IWith (bs : list (string * ity))
| IUp (f t : mode) (a : ity) | IDown (f t : mode) (a : ity).

(* toSessionType: the incoming mode is pushed down to the next shift; a shift ignores it and
   restarts with its own source mode *)
Fixpoint to_sty (m : mode) (t : ity) : sty :=
  match t with
  | IName x => TName x m
  | IUnit => TUnit m
  | ITensor a b => TTensor (to_sty m a) (to_sty m b) m
  | ILolli a b => TLolli (to_sty m a) (to_sty m b) m
  | IPlus bs => TPlus ((fix go (l : list (string * ity)) : brs :=
                          match l with [] => BNil | (lb, a) :: r => BCons lb (to_sty m a) (go r) end) bs) m
  | IWith bs => TWith ((fix go (l : list (string * ity)) : brs :=
                          match l with [] => BNil | (lb, a) :: r => BCons lb (to_sty m a) (go r) end) bs) m
  | IUp f t a => TUp f t (to_sty f a)
  | IDown f t a => TDown f t (to_sty f a)
  end.

(* session_type : session_type_init | modality session_type_init *)
Definition convert (head : option string) (t : ity) : sty :=
  match head with
  | None => to_sty Unset t
  | Some s => to_sty (mode_of_string s) t
  end.
