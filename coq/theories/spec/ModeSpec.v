(* spec/ModeSpec.v — the declarative mode assignment of property C16.

   "An unannotated type is replicable unless a component (a shift or a named type) fixes another
    mode; an annotation governs its whole type up to the next shift; the continuation of a shift
    takes the shift's source mode; a reference to a named type carries that definition's mode."

   Types are converted types in which an omitted mode is `Unset` (toSessionType pushes a head
   annotation down to the next shift, so "annotated" = the node carries a mode other than Unset).

   Fixes D t m : some component of the first region of t (the part above the next shifts) fixes
   the mode m: an annotated node, the target of a shift, or — through a reference without a mode of
   its own — a component of the referenced definition's body. *)
Require Import Grits.Base Grits.ModeDefs Grits.Modes Grits.STypes Grits.Infer.

Inductive Fixes (D : tenv) : sty -> mode -> Prop :=
| Fx_NameAnn x m : m <> Unset -> Fixes D (TName x m) m
| Fx_NameRef x d m : tlookup D x = Some d -> Fixes D (td_body d) m -> Fixes D (TName x Unset) m
| Fx_Unit m : m <> Unset -> Fixes D (TUnit m) m
| Fx_TensorAnn a b m : m <> Unset -> Fixes D (TTensor a b m) m
| Fx_TensorL a b m : Fixes D a m -> Fixes D (TTensor a b Unset) m
| Fx_TensorR a b m : Fixes D b m -> Fixes D (TTensor a b Unset) m
| Fx_LolliAnn a b m : m <> Unset -> Fixes D (TLolli a b m) m
| Fx_LolliL a b m : Fixes D a m -> Fixes D (TLolli a b Unset) m
| Fx_LolliR a b m : Fixes D b m -> Fixes D (TLolli a b Unset) m
| Fx_PlusAnn bs m : m <> Unset -> Fixes D (TPlus bs m) m
| Fx_PlusBr bs m : FixesBrs D bs m -> Fixes D (TPlus bs Unset) m
| Fx_WithAnn bs m : m <> Unset -> Fixes D (TWith bs m) m
| Fx_WithBr bs m : FixesBrs D bs m -> Fixes D (TWith bs Unset) m
| Fx_Up f t a : t <> Unset -> Fixes D (TUp f t a) t
| Fx_Down f t a : t <> Unset -> Fixes D (TDown f t a) t
with FixesBrs (D : tenv) : brs -> mode -> Prop :=
| FxB_Here l a r m : Fixes D a m -> FixesBrs D (BCons l a r) m
| FxB_There l a r m : FixesBrs D r m -> FixesBrs D (BCons l a r) m.

Scheme Fixes_ind2 := Induction for Fixes Sort Prop
with FixesBrs_ind2 := Induction for FixesBrs Sort Prop.
Combined Scheme Fixes_mut from Fixes_ind2, FixesBrs_ind2.

(* the mode of a type over D: what a component fixes, replicable when nothing does *)
Definition HasMode (D : tenv) (t : sty) (m : mode) : Prop :=
  Fixes D t m \/ (m = Rep /\ forall k, ~ Fixes D t k).

(* every node carries a mode *)
Fixpoint no_unset (t : sty) : Prop :=
  match t with
  | TName _ m | TUnit m => m <> Unset
  | TTensor a b m | TLolli a b m => m <> Unset /\ no_unset a /\ no_unset b
  | TPlus bs m | TWith bs m => m <> Unset /\ no_unset_brs bs
  | TUp f t a | TDown f t a => f <> Unset /\ t <> Unset /\ no_unset a
  end
with no_unset_brs (b : brs) : Prop :=
  match b with BNil => True | BCons _ a r => no_unset a /\ no_unset_brs r end.

(* the two modes written in a shift are always given by the user (the grammar has no shift without
   them, and StringToMode never yields Unset) *)
Fixpoint shifts_set (t : sty) : Prop :=
  match t with
  | TName _ _ | TUnit _ => True
  | TTensor a b _ | TLolli a b _ => shifts_set a /\ shifts_set b
  | TPlus bs _ | TWith bs _ => shifts_set_brs bs
  | TUp f t a | TDown f t a => f <> Unset /\ t <> Unset /\ shifts_set a
  end
with shifts_set_brs (b : brs) : Prop :=
  match b with BNil => True | BCons _ a r => shifts_set a /\ shifts_set_brs r end.

(* ---- source-level environments, for the statement of annotation stability ----
   a definition of the source: its name, its head annotation (Unset = none written; the parser
   yields `mode_of_string word` otherwise, which is never Unset) and its initial type *)
Definition src_def : Type := (string * mode * ity)%type.
Definition conv1 (s : src_def) : tdef :=
  let '(x, h, t) := s in {| td_name := x; td_body := to_sty h t; td_mode := Unset |}.
Definition conv (S : list src_def) : tenv := map conv1 S.

(* write, at the head of every definition that has no annotation, the mode recorded for it in R *)
Definition annotate1 (R : tenv) (s : src_def) : src_def :=
  let '(x, h, t) := s in
  (x, (if is_unset h then match tlookup R x with Some d => td_mode d | None => h end else h), t).
Definition annotate (R : tenv) (S : list src_def) : list src_def := map (annotate1 R) S.
