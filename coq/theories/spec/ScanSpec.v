(* ScanSpec.v — what it means for the scanner to "consume" the text (C12).  Not an algorithm: the
   relation between a token and the bytes it was made from, and the shape of the bytes that are
   skipped (trivia).  The scanner model is instrumented in proofs/ScanCover.v to return, with every
   token or comment, the span of bytes that one call of Scan consumed. *)
Require Import Grits.Base Grits.Tokens Grits.gen.ScanTables Grits.Scan.

Fixpoint all_ws (s : string) : bool :=
  match s with EmptyString => true | String c r => is_ws c && all_ws r end.
Fixpoint all_lab (s : string) : bool :=
  match s with EmptyString => true | String c r => is_lab c && all_lab r end.
Fixpoint no_nl (s : string) : bool :=
  match s with EmptyString => true | String c r => negb (code c =? 10)%nat && no_nl r end.

(* body of a block comment, read after the opening "/*" (prev_star = false initially):
   closes_at_end: the FIRST "*/" of the body is its last two bytes;  never_closes: there is none *)
Fixpoint closes_at_end (prev_star : bool) (s : string) : bool :=
  match s with
  | EmptyString => false
  | String c r => if prev_star && (code c =? 47)%nat then (match r with EmptyString => true | _ => false end)
                  else closes_at_end (code c =? 42)%nat r
  end.
Fixpoint never_closes (prev_star : bool) (s : string) : bool :=
  match s with
  | EmptyString => true
  | String c r => if prev_star && (code c =? 47)%nat then false else never_closes (code c =? 42)%nat r
  end.

(* a comment span, followed by `rest` in the input *)
Definition line_comment (span rest : string) : Prop :=
  exists body, no_nl body = true /\
    (span = "//" ^^ body ^^ String (ascii_of_nat 10) "" \/ (span = "//" ^^ body /\ rest = "")).
Definition block_comment (span rest : string) : Prop :=
  exists body, span = "/*" ^^ body /\
    (closes_at_end false body = true \/ (never_closes false body = true /\ rest = "")).

(* the multi-character and special one-character tokens with a fixed spelling *)
Definition fixed_spellings : list (tk * string) :=
  [(RIGHT_ARROW, "=>"); (EQUALS, "="); (LEFT_ARROW, "<-"); (LANGLE, "<"); (LOLLI, "-*"); (LOLLI, "-o");
   (MINUS, "-"); (UNIT, "1"); (DOWN_ARROW, "\/")].

(* spells k lexeme span: the bytes `span` are a spelling of token kind k, reported with `lexeme` *)
Inductive spells : tk -> string -> string -> Prop :=
| SpEof : spells T_EOF "" ""
| SpSingle c k : single_char c = Some k -> spells k (String c "") (String c "")
| SpFixed k w : In (k, w) fixed_spellings -> spells k w w
| SpUp : spells UP_ARROW "\/" "/\"         (* scanner.go reports the lexeme of /\ as \/ *)
| SpWord w : w <> "" -> all_lab w = true -> spells (keyword w) w w
| SpIllegal1 c : spells T_ILLEGAL (String c "") (String c "")
| SpIllegal2 c d : (code c = 92 \/ code c = 47)%nat -> spells T_ILLEGAL (String c "") (String c (String d "")).

(* what one call of Scan consumed: an optional whitespace run, then a token or a comment *)
Inductive item : Type :=
| ITrivia (span : string)
| IToken (k : tk) (lexeme : string) (span : string).

Definition item_span (i : item) : string := match i with ITrivia sp => sp | IToken _ _ sp => sp end.

(* well-formedness of an item followed by `rest` in the input *)
Definition item_ok (i : item) (rest : string) : Prop :=
  match i with
  | ITrivia sp => exists ws body, sp = ws ^^ body /\ all_ws ws = true /\ (line_comment body rest \/ block_comment body rest)
  | IToken k lx sp => exists ws body, sp = ws ^^ body /\ all_ws ws = true /\ spells k lx body /\ (k = T_EOF -> rest = "")
  end.

Fixpoint items_tokens (l : list item) : list (tk * string) :=
  match l with
  | [] => []
  | ITrivia _ :: r => items_tokens r
  | IToken k lx _ :: r => (k, lx) :: items_tokens r
  end.

(* items laid end to end, followed by `tail`, with every item well-formed w.r.t. what follows it *)
Fixpoint items_cover (l : list item) (tail : string) : string :=
  match l with [] => tail | i :: r => item_span i ^^ items_cover r tail end.
Fixpoint items_ok (l : list item) (tail : string) : Prop :=
  match l with [] => True | i :: r => item_ok i (items_cover r tail) /\ items_ok r tail end.
