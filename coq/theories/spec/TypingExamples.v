(* spec/TypingExamples.v — sanity examples for spec/Typing.v: small programs (parsed from their text
   by the front-end model) derived BY HAND in the declarative system, i.e. without going through
   the checker model.  Type agreement is instantiated with the answer of the equality algorithm. *)
Require Import Grits.Base Grits.ModeDefs Grits.Modes Grits.STypes Grits.Forms Grits.Subst Grits.Infer
               Grits.TcDeps Grits.Expand Grits.Tc Grits.spec.Typing.


Definition teq_ex (D : tenv) (s t : sty) : Prop := equal_type D s t = Ok true.

Definition get (r : parse_result program) : program :=
  match r with POk p => p | _ => {| p_procs := []; p_assumed := []; p_funs := []; p_types := [] |} end.

Ltac hd := match goal with |- head _ _ _ =>
  repeat first [ apply head_here; reflexivity | eapply head_step; [reflexivity|] ] end.
Ltac side := first [ exact I | hd
  | match goal with |- _ = _ => vm_compute; reflexivity end
  | match goal with |- has _ _ _ => split; vm_compute; reflexivity end
  | match goal with |- fresh _ _ => vm_compute; reflexivity end
  | match goal with |- teq_ex _ _ _ => vm_compute; reflexivity end
  | match goal with |- pol_ok _ _ => exact I end ].

(* ---- examples/hello.grits *)
Definition hello_src : string := "type A = lin 1
let hello() : A =
    a : A <- new close self;
    wait a;
    print hello;
    close self
exec hello()".
Definition hello : program := Eval vm_compute in get (parse_string hello_src).

(* the elaborated program: annotations with their modes *)
Definition hello_e : program := Eval vm_compute in
  {| p_procs := map (fun p => {| pr_body := pr_body p; pr_providers := pr_providers p; pr_type := Some (TName "A" Lin) |}) (p_procs hello);
     p_assumed := [];
     p_funs := map (fun f => {| fn_name := fn_name f; fn_params := []; fn_body := fn_body f; fn_type := Some (TName "A" Lin);
                                fn_explicit := fn_explicit f |}) (p_funs hello);
     p_types := p_types hello |}.

Definition hello_sg : sigma := [{| fs_name := "hello"; fs_params := []; fs_type := Some (TUnit Lin) |}].

Example hello_body_typed :
  Typed teq_ex (p_types hello) hello_sg [] None (TName "A" Lin)
    (match p_funs hello with f :: _ => fn_body f | [] => FClose self_name end).
Proof.
  cbn.
  eapply T_CutAx with (gl := []) (gr := []) (xt1 := TName "A" Lin) (h := TUnit Lin); try side.
  - intros; discriminate.
  - constructor.
  - intros x t [].
  - eapply T_OneR with (m := Lin); side.
  - eapply T_OneL with (m := Lin) (tc := TUnit Lin); try side.
    apply T_Print. eapply T_OneR with (m := Lin); side.
Qed.

Example hello_ok : ProgOK teq_ex hello.
Proof.
  exists hello_e. split.
  - split; [reflexivity|]. split; [|split].
    + repeat constructor. exists (TName "A" Unset), (TName "A" Lin), []. repeat split; try reflexivity. constructor.
    + repeat constructor. exists (TName "A" Unset), (TName "A" Lin). repeat split; reflexivity.
    + constructor.
  - constructor; cbn; try (repeat constructor; fail); try tauto;
      try (intros q n [<-|[]] [<-|[]] [S E]; discriminate E).
    1,3: (constructor; [cbn; tauto|constructor]).
    exists hello_sg. split; [|split].
    + repeat constructor. exists (TName "A" Lin), (TUnit Lin). repeat split; try reflexivity. hd.
    + repeat constructor. exists (TName "A" Lin). repeat split; try reflexivity.
      * intros p tp [].
      * exact hello_body_typed.
    + repeat constructor. exists (TName "A" Lin). repeat split; try reflexivity.
      * cbn. lia.
      * cbn. eapply T_Call with (sg := {| fs_name := "hello"; fs_params := []; fs_type := Some (TUnit Lin) |}); try side.
        all: cbn; constructor.
Qed.

(* ---- tensor L, unit L, identity; two processes, one using the other *)
Definition pair_src : string := "type B = lin 1 * 1
let f(x : B) : lin 1 = <y, z> <- recv x; wait y; fwd self z
prc[p] : lin 1 = close self
prc[q] : lin 1 = wait p; close self".
Definition pair : program := Eval vm_compute in get (parse_string pair_src).

Example pair_f_typed :
  Typed teq_ex (p_types pair) [] [("x", Some (TName "B" Lin))] None (TUnit Lin)
    (match p_funs pair with f :: _ => fn_body f | [] => FClose self_name end).
Proof.
  cbn.
  eapply T_TensorL with (tf := TName "B" Lin) (l := TUnit Lin) (r := TUnit Lin) (m := Lin) (hl := TUnit Lin) (hr := TUnit Lin);
    try side.
  cbn. eapply T_OneL with (tc := TUnit Lin) (m := Lin); try side.
  cbn. eapply T_Id with (tf := TUnit Lin) (hf := TUnit Lin) (hA := TUnit Lin) (p := Pos); side.
Qed.

(* `wait p; close self` in the context p : lin 1 *)
Example pair_q_typed :
  Typed teq_ex (p_types pair) [] [("p", Some (TUnit Lin))] None (TUnit Lin)
    (FWait (plain_name "p") (FClose self_name)).
Proof.
  eapply T_OneL with (tc := TUnit Lin) (m := Lin); try side.
  cbn. eapply T_OneR with (m := Lin); side.
Qed.

(* a linear channel cannot be left behind: `close self` is not derivable with p in the context *)
Example leftover_not_typed :
  ~ Typed teq_ex (p_types pair) [] [("p", Some (TUnit Lin))] None (TUnit Lin) (FClose self_name).
Proof. intros H. inversion H. Qed.

(* nor used twice *)
Example twice_not_typed :
  ~ Typed teq_ex (p_types pair) [] [("p", Some (TUnit Lin))] None (TUnit Lin)
      (FWait (plain_name "p") (FWait (plain_name "p") (FClose self_name))).
Proof.
  intros H. inversion H; subst.
  match goal with T : Typed _ _ _ _ _ _ (FWait _ _) |- _ => inversion T; subst end.
  match goal with Hc : has (without _ _) _ _ |- _ => destruct Hc as [_ L]; cbn in L; discriminate L end.
Qed.
