(* SaxInit2.v — SPECIFICATION (addition to spec/Sax.v, which is unchanged): the SAX initial configuration of a
   program whose declarations have ONE OR TWO provider names.

   `prc[a] : T = P` is proc(a, P) (as in Sax.sax_init).  `prc[a,b] : T = P` declares the CONTRACTION of P: the
   two clients a and b each get their own copy of P.  In the rules of Sax.v that is proc(c, P) next to a pending
   split(a, b, c) for a fresh c, whose only possible step is s_copy:
       split(a,b,c), proc(c,P)  ↦  proc(a, P[ns1/fns]), proc(b, P[ns2/fns]), split(ns1_i, ns2_i, fns_i)
   (fns the free names of P — after the closing cuts these are top-level channels —, one split per free name).
   `sax_init2` is the configuration AFTER that forced step (so no auxiliary channel c is needed): the two
   copies and one pending split per free name.  If P is itself a forward `fwd self x` the declaration is
   literally `<a,b> <- split x` and the object is the pending split(a, b, x).
   The fresh names of the copies of process i are [i; 2 + 2j] and [i; 2 + 2j + 1] for the j-th free name (the
   top-level channels of process i are [i; 0] and [i; 1]: Sax.top_names); the choice is irrelevant as long as
   they are pairwise distinct and distinct from every top-level channel.
   Declarations with more than two names (an n-ary split) are outside: they contribute no object. *)
From stdpp Require Import list strings.
Require Import Grits.Base Grits.ModeDefs Grits.Modes Grits.STypes Grits.Forms Grits.Subst Grits.Expand Grits.spec.Sax.

Definition copy_names (i : nat) (off : nat) (fns : list name) : list name :=
  imap (fun j fn => mkName (ident fn) false (pol fn) (nty fn) (Some [i; (2 + 2 * j + off)%nat])) fns.

Definition decl_objs (i : nat) (nprov : nat) (P : form) : list sobj :=
  match nprov with
  | 1%nat => [obj [i; 0%nat] P]
  | 2%nat =>
    match P with
    | FFwd _ from d =>
      (* d = true is not source syntax *)
      if d then [] else match chan from with Some b => [SSplit [i; 0%nat] [i; 1%nat] b] | None => [] end
    | _ =>
      let fns := free_names P in
      let ns1 := copy_names i 0 fns in
      let ns2 := copy_names i 1 fns in
      obj [i; 0%nat] (subst_list fns ns1 P) :: obj [i; 1%nat] (subst_list fns ns2 P) :: splits_of ns1 ns2 fns
    end
  | _ => []
  end.

Definition sax_init2 (p : program) : sconfig :=
  concat (imap (fun i pr => decl_objs i (length (pr_providers pr)) (close_body p (pr_body pr))) (p_procs p)).

(* on programs with one provider name per declaration it is Sax.sax_init *)
Lemma sax_init2_single p :
  forallb (fun pr => match pr_providers pr with [_] => true | _ => false end) (p_procs p) = true ->
  sax_init2 p = sax_init p.
Proof.
  intros H. unfold sax_init2, sax_init. f_equal.
  assert (forall (l : list procdef) (bf : form -> form),
    forallb (fun pr => match pr_providers pr with [_] => true | _ => false end) l = true ->
    forall k, imap (fun i pr => decl_objs (k + i) (length (pr_providers pr)) (bf (pr_body pr))) l =
              imap (fun i pr => match pr_providers pr with [_] => [obj [(k + i)%nat; 0%nat] (bf (pr_body pr))] | _ => [] end) l) as Haux.
  { induction l as [|pr l IH]; intros bf Hl k; cbn; [done|]. cbn in Hl. apply andb_true_iff in Hl as [H1 H2]. f_equal.
    - destruct (pr_providers pr) as [|x [|y r]]; try discriminate. done.
    - etransitivity; [|etransitivity; [apply (IH bf H2 (S k))|]]; apply imap_ext; intros i y _; cbn;
        by replace (k + S i)%nat with (S (k + i)) by lia. }
  exact (Haux (p_procs p) (close_body p) H 0%nat).
Qed.
