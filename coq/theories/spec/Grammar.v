(* Grammar.v — derivations in the grammar recovered from the LR tables (C12).
   Symbols are integers: token numbers > 0 (goyacc's internal numbering: 1 = $end, 2 = error,
   3 = $unk, 4.. = the %token list), nonterminals < 0 (minus goyacc's nonterminal number).
   A grammar is given by lhs : production -> nonterminal and rhs : production -> symbols. *)
Require Import Grits.Base.
Local Open Scope Z_scope.

Section Grammar.
Variable lhs : Z -> Z.
Variable rhs : Z -> list Z.

Inductive Der : Z -> list Z -> Prop :=
| Der_tok a : 0 < a -> Der a [a]
| Der_prod p ws : 0 < p -> DerSeq (rhs p) ws -> Der (lhs p) ws
with DerSeq : list Z -> list Z -> Prop :=
| DS_nil : DerSeq [] []
| DS_cons X Xs w ws : Der X w -> DerSeq Xs ws -> DerSeq (X :: Xs) (w ++ ws).

Lemma DerSeq_app Xs Ys ws vs : DerSeq Xs ws -> DerSeq Ys vs -> DerSeq (Xs ++ Ys) (ws ++ vs).
Proof.
  induction 1; intros H2; cbn; [exact H2|].
  rewrite <- app_assoc. constructor; auto.
Qed.
End Grammar.
