(* spec/Indep.v — C06 for a program.

   p  = the program as parsed;  p' = the accepted program as returned by the checker.  The sequents
   of a definition are computed (spec/Sequents.v) from the body AS WRITTEN (p) and the declared
   types AS COMPLETED with modes by the checker (p': parameters, result types, process types,
   assumed names).

   Mode independence: in every sequent  Gamma |- Q :: (c : A_m)  of the derivation of every function
   definition, every x : B_k in Gamma satisfies  down k m.  For a top-level process declaration the
   ROOT sequent is not covered (known finding K1: the implementation does not check it, see
   C06_refuted_prc_root): all its sequents are independent IF the root is, and the roots of the
   processes it spawns (bodies of cuts) are independent unconditionally.
   Shift legality: every cast / shift in every sequent moves between a legal pair of modes. *)
Require Import Grits.Base Grits.ModeDefs Grits.Modes Grits.STypes Grits.Forms Grits.Subst Grits.Infer
               Grits.TcDeps Grits.Tc Grits.TcTop Grits.spec.Linear Grits.spec.Sequents.

(* the mode recorded for a type definition is the mode of its body (established by the parser's
   SetModalityTypeDef; checked on every parsed program by the executable oracle) *)
Definition env_moded_b (D : tenv) : bool :=
  forallb (fun d => mode_same (mode_of (td_body d)) (td_mode d)) D.

Definition prog_sigma (D : tenv) (p' : program) : sigma :=
  map (fun f => {| fs_name := fn_name f; fs_params := fn_params f; fs_type := unf D (fn_type f) |}) (p_funs p').

Definition with_body (pd : procdef) (b : form) : procdef :=
  {| pr_body := b; pr_providers := pr_providers pd; pr_type := pr_type pd |}.

Definition fun_sequents (p p' : program) (f f' : fundef) : list sequent :=
  sequents (p_types p) (prog_sigma (p_types p) p') (make_ctx (fn_params f')) None (fn_type f') (fn_body f).

Definition proc_ctx (p' : program) (pd pd' : procdef) : ctx :=
  make_ctx (free_name_types (with_body pd' (pr_body pd)) (p_procs p') (p_assumed p')).
Definition proc_sequents (p p' : program) (pd pd' : procdef) : list sequent :=
  sequents (p_types p) (prog_sigma (p_types p) p') (proc_ctx p' pd pd') None (pr_type pd') (pr_body pd).
Definition proc_root (p' : program) (pd pd' : procdef) : sequent :=
  mkSeq false (proc_ctx p' pd pd') None (pr_type pd') (pr_body pd).

Definition IndepProgram (p p' : program) : Prop :=
  let D := p_types p in
  length (p_funs p') = length (p_funs p) /\ length (p_procs p') = length (p_procs p) /\
  (forall f f', In (f, f') (combine (p_funs p) (p_funs p')) ->
     Forall (fun s => independent s /\ shift_legal D s) (fun_sequents p p' f f')) /\
  (forall pd pd', In (pd, pd') (combine (p_procs p) (p_procs p')) ->
     Forall (fun s => (sq_spawned s = true -> independent s) /\ shift_legal D s) (proc_sequents p p' pd pd') /\
     (independent (proc_root p' pd pd') -> Forall independent (proc_sequents p p' pd pd'))).

(* the mode side conditions of C05 (drop needs weakening, split needs contraction), on the same
   sequents *)
Definition DropSplitProgram (p p' : program) : Prop :=
  (forall f f', In (f, f') (combine (p_funs p) (p_funs p')) -> Forall drop_split_legal (fun_sequents p p' f f')) /\
  (forall pd pd', In (pd, pd') (combine (p_procs p) (p_procs p')) -> Forall drop_split_legal (proc_sequents p p' pd pd')).
