(* spec/WFSpec.v — what a well-formed environment of type definitions IS (property C10), stated
   declaratively: no algorithm, no fuel, no order of checks.

   WellFormed D :=
     the names of D are pairwise distinct
   ∧ in every body: every referenced name is defined, every choice has pairwise distinct labels
   ∧ no cycle of definitions through bare names (contractive)
   ∧ in every body: every mode is one of the four, all nodes between two shifts carry one mode,
     a reference carries the mode recorded for its definition, an up-shift `f /\ t A` has
     `up f t`, a down-shift `f \/ t A` has `down f t`, the continuation of a shift lives at the
     shift's source mode
   ∧ the mode recorded for a definition is the mode of its body (without this clause "a reference
     carries its definition's mode" would say nothing about what the reference unfolds to).

   The specification speaks about converted types (a mode in every node).  A head annotation of
   the SOURCE placed directly on a shift does not survive conversion (finding F15); the
   source-level clause "an annotation equals the mode of the node it annotates" is `HeadOK`
   below, over initial types. *)
Require Import Grits.Base Grits.ModeDefs Grits.Modes Grits.STypes.
Require Import Coq.Relations.Relation_Operators.

Definition names (D : tenv) : list string := map td_name D.

(* ---- names defined, labels distinct ---- *)
Inductive LabelsOK (D : tenv) : sty -> Prop :=
| LO_Name x m : In x (names D) -> LabelsOK D (TName x m)
| LO_Unit m : LabelsOK D (TUnit m)
| LO_Tensor a b m : LabelsOK D a -> LabelsOK D b -> LabelsOK D (TTensor a b m)
| LO_Lolli a b m : LabelsOK D a -> LabelsOK D b -> LabelsOK D (TLolli a b m)
| LO_Plus bs m : NoDup (brs_labels bs) -> BrsLabelsOK D bs -> LabelsOK D (TPlus bs m)
| LO_With bs m : NoDup (brs_labels bs) -> BrsLabelsOK D bs -> LabelsOK D (TWith bs m)
| LO_Up f t a : LabelsOK D a -> LabelsOK D (TUp f t a)
| LO_Down f t a : LabelsOK D a -> LabelsOK D (TDown f t a)
with BrsLabelsOK (D : tenv) : brs -> Prop :=
| BLO_Nil : BrsLabelsOK D BNil
| BLO_Cons l a r : LabelsOK D a -> BrsLabelsOK D r -> BrsLabelsOK D (BCons l a r).

Scheme LabelsOK_ind2 := Induction for LabelsOK Sort Prop
with BrsLabelsOK_ind2 := Induction for BrsLabelsOK Sort Prop.
Combined Scheme LabelsOK_mut from LabelsOK_ind2, BrsLabelsOK_ind2.

(* ---- modes ---- *)
(* ModesOK D m t : t is consistently moded and its first region (down to the next shifts) has
   mode m *)
Inductive ModesOK (D : tenv) : mode -> sty -> Prop :=
| MO_Name x m d : proper m = true -> In d D -> td_name d = x -> td_mode d = m -> ModesOK D m (TName x m)
| MO_Unit m : proper m = true -> ModesOK D m (TUnit m)
| MO_Tensor a b m : proper m = true -> ModesOK D m a -> ModesOK D m b -> ModesOK D m (TTensor a b m)
| MO_Lolli a b m : proper m = true -> ModesOK D m a -> ModesOK D m b -> ModesOK D m (TLolli a b m)
| MO_Plus bs m : proper m = true -> BrsModesOK D m bs -> ModesOK D m (TPlus bs m)
| MO_With bs m : proper m = true -> BrsModesOK D m bs -> ModesOK D m (TWith bs m)
| MO_Up f t a : proper f = true -> proper t = true -> up f t = true -> ModesOK D f a -> ModesOK D t (TUp f t a)
| MO_Down f t a : proper f = true -> proper t = true -> down f t = true -> ModesOK D f a -> ModesOK D t (TDown f t a)
with BrsModesOK (D : tenv) : mode -> brs -> Prop :=
| BMO_Nil m : BrsModesOK D m BNil
| BMO_Cons m l a r : ModesOK D m a -> BrsModesOK D m r -> BrsModesOK D m (BCons l a r).

Scheme ModesOK_ind2 := Induction for ModesOK Sort Prop
with BrsModesOK_ind2 := Induction for BrsModesOK Sort Prop.
Combined Scheme ModesOK_mut from ModesOK_ind2, BrsModesOK_ind2.

(* ---- contractivity ---- *)
(* x is an alias of y: the body of the definition of x is the bare name y *)
Inductive alias_step (D : tenv) : string -> string -> Prop :=
| AliasStep d y m : In d D -> td_body d = TName y m -> alias_step D (td_name d) y.

Definition Contractive (D : tenv) : Prop :=
  forall x, ~ clos_trans string (alias_step D) x x.

(* ---- the property's notion ---- *)
Record WellFormed (D : tenv) : Prop := {
  wf_names : NoDup (names D);
  wf_labels : forall d, In d D -> LabelsOK D (td_body d);
  wf_contractive : Contractive D;
  wf_modes : forall d, In d D -> ModesOK D (mode_of (td_body d)) (td_body d);
  wf_defmode : forall d, In d D -> td_mode d = mode_of (td_body d)
}.


(* a type used as an annotation (let / prc / assuming / typed cut) over D *)
Definition WellFormedType (D : tenv) (t : sty) : Prop :=
  LabelsOK D t /\ ModesOK D (mode_of t) t.

(* ---- source level: the head annotation ---- *)
(* `m T` in the source: the annotation must be a mode word and equal the mode of the node it
   annotates; for a shift that node's mode is the shift's target *)
Definition HeadOK (head : option string) (t : ity) : Prop :=
  match head with
  | None => True
  | Some s =>
    proper (mode_of_string s) = true /\
    match t with
    | IUp _ to _ | IDown _ to _ => mode_of_string s = to
    | _ => True
    end
  end.
