(* spec/TypeReader.v — a small reference reader for the type sub-language: a tokenizer and a
   precedence-climbing parser.  `*` and `-*` are right associative with the same precedence; a
   shift `f /\ t A` extends as far to the right as possible; the current mode is pushed down to the
   next shift, which restarts at its source mode and keeps its own written target mode (this is
   what session_type_init / toSessionType do).  It is a SPECIFICATION device: C15 states that it
   inverts String(); that it agrees with the LALR parser on printed types is validated by the
   round trip through the real parser on every run (lib/vlib/props/C15.py). *)
Require Import Grits.Base Grits.ModeDefs Grits.Modes Grits.STypes Grits.Scan.

Inductive ttok : Type :=
| KLab (s : string) | KUnit | KPlus | KAmp | KLC | KRC | KLP | KRP
| KTimes | KLolli | KUp | KDown | KColon | KComma | KBad.

(* a maximal run of label characters: the unit when it is "1", a label otherwise *)
Definition flush (acc : string) : list ttok :=
  if String.eqb acc "" then [] else if String.eqb acc "1" then [KUnit] else [KLab acc].

Definition single (c : ascii) : option ttok :=
  match code c with
  | 43 => Some KPlus | 38 => Some KAmp | 123 => Some KLC | 125 => Some KRC | 40 => Some KLP | 41 => Some KRP
  | 42 => Some KTimes | 58 => Some KColon | 44 => Some KComma
  | _ => None
  end.

Fixpoint lex_go (acc : string) (s : string) : list ttok :=
  match s with
  | EmptyString => flush acc
  | String c r =>
    if is_lab c then lex_go (acc ^^ String c "") r
    else flush acc ++
         (if is_ws c then lex_go "" r
          else match single c with
               | Some k => k :: lex_go "" r
               | None =>
                 match r with
                 | String c2 r2 =>
                   if ((code c =? 45) && (code c2 =? 42))%nat then KLolli :: lex_go "" r2        (* -* *)
                   else if ((code c =? 47) && (code c2 =? 92))%nat then KUp :: lex_go "" r2      (* /\ *)
                   else if ((code c =? 92) && (code c2 =? 47))%nat then KDown :: lex_go "" r2    (* \/ *)
                   else [KBad]
                 | EmptyString => [KBad]
                 end
               end)
  end.
Definition lex_ty (s : string) : list ttok := lex_go "" s.

(* modality UP_ARROW modality / modality DOWN_ARROW modality at the head of the input *)
Definition shift_hd (ts : list ttok) : option (bool * string * string * list ttok) :=
  match ts with
  | KLab f :: KUp :: KLab t :: r => Some (true, f, t, r)
  | KLab f :: KDown :: KLab t :: r => Some (false, f, t, r)
  | _ => None
  end.

Fixpoint rd (n : nat) (m : mode) (ts : list ttok) : option (sty * list ttok) :=
  match n with
  | O => None
  | S n' =>
    match shift_hd ts with
    | Some (up, f, t, r) =>
      let f' := mode_of_string f in
      match rd n' f' r with
      | Some (a, r') => Some (if up then TUp f' (mode_of_string t) a else TDown f' (mode_of_string t) a, r')
      | None => None
      end
    | None =>
      match rd_atom n' m ts with
      | Some (a, KTimes :: r) =>
        match rd n' m r with Some (b, r') => Some (TTensor a b m, r') | None => None end
      | Some (a, KLolli :: r) =>
        match rd n' m r with Some (b, r') => Some (TLolli a b m, r') | None => None end
      | Some (a, r) => Some (a, r)
      | None => None
      end
    end
  end
with rd_atom (n : nat) (m : mode) (ts : list ttok) : option (sty * list ttok) :=
  match n with
  | O => None
  | S n' =>
    match ts with
    | KLab x :: r => Some (TName x m, r)
    | KUnit :: r => Some (TUnit m, r)
    | KPlus :: KLC :: r =>
      match rd_brs n' m r with Some (bs, KRC :: r') => Some (TPlus bs m, r') | _ => None end
    | KAmp :: KLC :: r =>
      match rd_brs n' m r with Some (bs, KRC :: r') => Some (TWith bs m, r') | _ => None end
    | KLP :: r =>
      match rd n' m r with Some (a, KRP :: r') => Some (a, r') | _ => None end
    | _ => None
    end
  end
with rd_brs (n : nat) (m : mode) (ts : list ttok) : option (brs * list ttok) :=
  match n with
  | O => None
  | S n' =>
    match ts with
    | KLab l :: KColon :: r =>
      match rd n' m r with
      | Some (a, KComma :: r') =>
        match rd_brs n' m r' with Some (bs, r'') => Some (BCons l a bs, r'') | None => None end
      | Some (a, r') => Some (BCons l a BNil, r')
      | None => None
      end
    | _ => None
    end
  end.

(* read a whole type under head mode m *)
Definition rd_type (m : mode) (ts : list ttok) : option sty :=
  match rd (3 * length ts + 3) m ts with
  | Some (a, []) => Some a
  | _ => None
  end.
