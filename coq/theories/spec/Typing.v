(* spec/Typing.v — the adjoint semi-axiomatic session type system, restricted to Grits' documented
   syntax, as an Inductive judgement (property C07).  This file is a SPECIFICATION: it contains no
   algorithmic state (no memo, no fuel, no threading of an error) — contexts are the same finite maps
   as in the model (Tc.ctx with Base.alookup / aremove / aset) so that the link theorems
   (proofs/TypingSound.v, proofs/TypingComplete.v) need no reasoning up to permutation.

     D ; Sg ; G  |-[shadow]  P :: (self : A)            is      Typed D Sg G shadow A P

   D      the type definitions (equi-recursive names)
   Sg     the signatures of the declared functions
   G      the channels the process is a client of, with their types
   shadow the name that stands for the provided channel besides `self` (None: only `self`)
   A      the type of the provided channel

   Type agreement is the PARAMETER `teq` (instantiated with bisimilarity of spec/TypEq.v);
   unfolding is the relation `head D t h`: t unfolds through defined names to the non-name h.

   Where the judgement is NOT the textbook calculus ("Grits' documented syntax"), the restriction is
   a visible premise of the rule:
   (1) the body of a cut is an axiom form (send, select, close, forward, cast) or a call; a non-call
       body needs a type annotation on the new name (T_CutAx: nty x = Some xt);
   (2) the new name of a cut may re-use a name of the context only if the body consumes that name
       (premise `ctx_has G x = name_in_names x (free_names body)`);
   (3) every other binder is fresh for the current context (also the payload name of a `case self`
       branch), is not a name of the provider (cut name, payload of a client-side case branch, the
       two results of a split, the binders of a client-side receive / shift), and the two binders
       of a receive / split differ;
   (4) the provider is referred to as `self` or by the name bound for it (`is_provider n shadow`):
       the explicit provider of a declaration, or the continuation name of a provider-side
       receive / shift / case branch;
   (5) contexts are empty at axioms, also for weakenable names (dropping is explicit: T_Drop);
   (6) an explicit polarity annotation on a name agrees with the polarity of its unfolded type
       (`pol_ok`);
   (7) a call passes `self` explicitly as first argument or not at all (T_Call / T_CallSelf).
   Names are compared with Subst.name_equal (Name.Equal); on names of a parsed program (no channel
   attached) that is equality of identifiers (lemma name_equal_static below). *)
Require Import Grits.Base Grits.ModeDefs Grits.Modes Grits.STypes Grits.Forms Grits.Subst Grits.Infer
               Grits.TcDeps Grits.Tc.

(* ------------------------------------------------------------------------------------------ *)
(* unfolding, as a relation *)
Inductive head (D : tenv) : sty -> sty -> Prop :=
| head_here h : is_name h = false -> head D h h
| head_step x m d h : tlookup D x = Some d -> head D (td_body d) h -> head D (TName x m) h.

(* (6): an explicit polarity on a name agrees with the polarity of the (unfolded) type h *)
Definition pol_ok (n : name) (h : sty) : Prop :=
  match pol n with Some p => polarity_of h = Ok p | None => True end.

(* the channel x : t is in the context *)
Definition has (g : ctx) (n : name) (t : sty) : Prop :=
  is_self n = false /\ alookup (ident n) g = Some (Some t).
(* the binder x is fresh for the context *)
Definition fresh (g : ctx) (n : name) : Prop := ctx_has g (ident n) = false.
(* the context without the channel *)
Definition without (g : ctx) (n : name) : ctx := aremove (ident n) g.
(* the context extended with (or, at a cut that re-uses its name, overwritten at) x : t *)
Definition bind (g : ctx) (n : name) (t : sty) : ctx := aset (ident n) (Some t) g.

Definition br_labels : branches -> list string :=
  fix go (b : branches) : list string := match b with BrNil => [] | BrCons l _ _ r => l :: go r end.

(* the name as the provider name of a continuation: the checker records the type in the name; only
   the identifier matters for is_provider *)
Definition as_provider (n : name) (t : sty) : option name := Some (set_nty n (Some t)).

Section Judgement.
Variable teq : tenv -> sty -> sty -> Prop.
Variable D : tenv.
Variable Sg : sigma.

(* exact context split at a cut: the spawned process gets exactly the named channels (with their
   unfolded types), in the order named; `self` among the names is skipped *)
Inductive split_ctx : ctx -> list name -> ctx -> ctx -> ctx -> Prop :=
| split_nil g acc : split_ctx g [] acc acc g
| split_self g n r acc gl gr :
    is_self n = true -> split_ctx g r acc gl gr -> split_ctx g (n :: r) acc gl gr
| split_take g n r acc gl gr t h :
    has g n t -> head D t h ->
    split_ctx (without g n) r (bind acc n h) gl gr ->
    split_ctx g (n :: r) acc gl gr.

(* Gamma >= m: every channel of the context may be depended upon by a process at mode m *)
Definition ctx_ge (g : ctx) (m : mode) : Prop :=
  forall x t, In (x, Some t) g -> down (mode_of t) m = true.

(* the arguments of a call against the parameters of the signature: each argument is consumed and
   its type agrees with the declared one *)
Inductive TypedArgs : ctx -> list name -> list name -> ctx -> Prop :=
| args_nil g : TypedArgs g [] [] g
| args_cons g a ar p pr g' ta tp ha :
    has g a ta -> nty p = Some tp -> teq D ta tp ->
    head D ta ha -> pol_ok a ha ->
    TypedArgs (without g a) ar pr g' ->
    TypedArgs g (a :: ar) (p :: pr) g'.

Inductive Typed : ctx -> option name -> sty -> form -> Prop :=
(* ---- tensor ------------------------------------------------------------------------------ *)
(* (x)R   send self<y,z> *)
| T_TensorR g sh A to pay cont el er m tp tc hp hc :
    is_provider to sh = true ->
    head D A (TTensor el er m) ->
    has g pay tp -> has (without g pay) cont tc ->
    without (without g pay) cont = [] ->
    head D tp hp -> head D tc hc ->
    teq D el hp -> teq D er hc ->
    pol_ok to (TTensor el er m) -> pol_ok pay hp -> pol_ok cont hc ->
    Typed g sh A (FSend to pay cont)
(* (x)L   <y,z> <- recv x; P *)
| T_TensorL g sh A pay cont from k tf l r m hl hr :
    is_provider from sh = false -> is_provider pay sh = false -> is_provider cont sh = false ->
    has g from tf -> head D tf (TTensor l r m) ->
    head D l hl -> head D r hr ->
    fresh (without g from) pay -> fresh (without g from) cont -> name_equal pay cont = false ->
    pol_ok from (TTensor l r m) -> pol_ok pay hl -> pol_ok cont hr ->
    Typed (bind (bind (without g from) pay hl) cont hr) sh A k ->
    Typed g sh A (FRecv pay cont from k)
(* ---- lolli ------------------------------------------------------------------------------- *)
(* -oR   <y,z> <- recv self; P      z is the new name of the provider *)
| T_LolliR g sh A pay cont from k l r m hl hr :
    is_provider from sh = true ->
    head D A (TLolli l r m) ->
    head D l hl -> head D r hr ->
    fresh g pay -> fresh g cont -> name_equal pay cont = false ->
    pol_ok from (TLolli l r m) -> pol_ok pay hl -> pol_ok cont hr ->
    Typed (bind g pay hl) (as_provider cont hr) hr k ->
    Typed g sh A (FRecv pay cont from k)
(* -oL   send x<y,self> *)
| T_LolliL g sh A to pay cont tt el er m tp hel her hp hA :
    is_provider to sh = false -> is_provider cont sh = true ->
    has g to tt -> head D tt (TLolli el er m) ->
    has (without g to) pay tp ->
    without (without g to) pay = [] ->
    head D el hel -> head D er her -> head D tp hp -> head D A hA ->
    teq D hel hp -> teq D her hA ->
    pol_ok to (TLolli el er m) -> pol_ok pay hp -> pol_ok cont hA ->
    Typed g sh A (FSend to pay cont)
(* ---- plus -------------------------------------------------------------------------------- *)
(* (+)R   self.l<y> *)
| T_PlusR g sh A to l cont bs m ct tc hct :
    is_provider to sh = true ->
    head D A (TPlus bs m) -> find_br l bs = Some ct ->
    has g cont tc -> without g cont = [] ->
    teq D ct tc -> head D ct hct ->
    pol_ok to (TPlus bs m) -> pol_ok cont hct ->
    Typed g sh A (FSel to l cont)
(* (+)L   case x ( l<y> => P ... )    exactly the labels of the type, each once *)
| T_PlusL g sh A from brs tf bs m :
    is_provider from sh = false ->
    has g from tf -> head D tf (TPlus bs m) ->
    NoDup (br_labels brs) -> incl (brs_labels bs) (br_labels brs) ->
    TypedBrsL (without g from) sh A bs brs ->
    pol_ok from (TPlus bs m) ->
    Typed g sh A (FCase from brs)
(* ---- with -------------------------------------------------------------------------------- *)
(* &R   case self ( l<y> => P ... )   y is the new name of the provider *)
| T_WithR g sh A from brs bs m :
    is_provider from sh = true ->
    head D A (TWith bs m) ->
    NoDup (br_labels brs) -> incl (brs_labels bs) (br_labels brs) ->
    TypedBrsR g bs brs ->
    pol_ok from (TWith bs m) ->
    Typed g sh A (FCase from brs)
(* &L   x.l<self> *)
| T_WithL g sh A to l cont tt bs m ct hct :
    is_provider to sh = false -> is_provider cont sh = true ->
    has g to tt -> head D tt (TWith bs m) -> find_br l bs = Some ct ->
    without g to = [] ->
    teq D ct A -> head D ct hct ->
    pol_ok to (TWith bs m) -> pol_ok cont hct ->
    Typed g sh A (FSel to l cont)
(* ---- unit -------------------------------------------------------------------------------- *)
(* 1R   close self *)
| T_OneR sh A c m :
    is_provider c sh = true ->
    head D A (TUnit m) -> pol_ok c (TUnit m) ->
    Typed [] sh A (FClose c)
(* 1L   wait x; P *)
| T_OneL g sh A c k tc m :
    is_provider c sh = false ->
    has g c tc -> head D tc (TUnit m) -> pol_ok c (TUnit m) ->
    Typed (without g c) sh A k ->
    Typed g sh A (FWait c k)
(* ---- downshift --------------------------------------------------------------------------- *)
(* \/R   cast self<y> *)
| T_DownR g sh A to cont fm tm a ha tc hc :
    is_provider to sh = true ->
    head D A (TDown fm tm a) -> down fm tm = true ->
    head D a ha ->
    has g cont tc -> without g cont = [] -> head D tc hc ->
    mode_eqb fm (mode_of hc) = true -> teq D ha hc ->
    pol_ok to (TDown fm tm a) -> pol_ok cont hc ->
    Typed g sh A (FCast to cont)
(* \/L   y <- shift x; P *)
| T_DownL g sh A x from k tf fm tm a ha :
    is_provider from sh = false -> is_provider x sh = false ->
    has g from tf -> head D tf (TDown fm tm a) -> down fm tm = true ->
    head D a ha ->
    fresh (without g from) x ->
    pol_ok from (TDown fm tm a) -> pol_ok x ha ->
    Typed (bind (without g from) x ha) sh A k ->
    Typed g sh A (FShift x from k)
(* ---- upshift ----------------------------------------------------------------------------- *)
(* /\R   y <- shift self; P      y is the new name of the provider *)
| T_UpR g sh A x from k fm tm a ha :
    is_provider from sh = true ->
    head D A (TUp fm tm a) -> up fm tm = true ->
    head D a ha ->
    fresh g x ->
    pol_ok from (TUp fm tm a) -> pol_ok x ha ->
    Typed g (as_provider x ha) ha k ->
    Typed g sh A (FShift x from k)
(* /\L   cast x<self> *)
| T_UpL g sh A to cont tt fm tm a ha hA :
    is_provider to sh = false -> is_provider cont sh = true ->
    has g to tt -> head D tt (TUp fm tm a) -> up fm tm = true ->
    without g to = [] ->
    head D a ha -> head D A hA ->
    mode_eqb fm (mode_of hA) = true -> teq D ha hA ->
    pol_ok to (TUp fm tm a) -> pol_ok cont hA ->
    Typed g sh A (FCast to cont)
(* ---- identity ---------------------------------------------------------------------------- *)
(* id   fwd self x     equal types and equal polarity *)
| T_Id g sh A to from d tf hf hA p :
    is_provider from sh = false -> is_provider to sh = true ->
    has g from tf -> without g from = [] ->
    head D tf hf -> head D A hA ->
    teq D A hf ->
    polarity_of hf = Ok p -> polarity_of hA = Ok p ->
    pol_ok to hA -> pol_ok from hf ->
    Typed g sh A (FFwd to from d)
(* ---- cut --------------------------------------------------------------------------------- *)
(* cut with a call as body:   x <- new f(ys); P
   G1 = exactly the arguments, G1 >= m (mode of f's type) >= n (mode of A) *)
| T_CutCall g sh A x fn args o k gl gr sg ft hft :
    is_provider x sh = false ->                                                 (* (4) *)
    ctx_has g (ident x) = name_in_names x (free_names (FCall fn args o)) ->     (* (2) *)
    split_ctx g args [] gl gr ->
    sig_lookup Sg fn = Some sg -> fs_type sg = Some ft -> head D ft hft ->
    (* an (optional) annotation on the new name agrees with the type the function provides *)
    (forall xt, nty x = Some xt ->
       exists xt1, add_missing D xt = Ok xt1 /\ check_wf D xt1 = true /\ teq D xt1 hft) ->
    ctx_ge gl (mode_of hft) -> down (mode_of hft) (mode_of A) = true ->
    Typed gl (Some x) hft (FCall fn args o) ->
    pol_ok x hft ->
    Typed (bind gr x hft) sh A k ->
    Typed g sh A (FNew x (FCall fn args o) k)
(* cut with a typed axiom as body:   x : B <- new (axiom); P *)
| T_CutAx g sh A x body k gl gr xt xt1 h :
    is_provider x sh = false ->                                                  (* (4) *)
    has_continuation body = false -> (forall fn args o, body <> FCall fn args o) ->  (* (1) *)
    ctx_has g (ident x) = name_in_names x (free_names body) ->                   (* (2) *)
    split_ctx g (free_names body) [] gl gr ->
    nty x = Some xt -> add_missing D xt = Ok xt1 -> check_wf D xt1 = true ->     (* (1) *)
    head D xt1 h ->
    ctx_ge gl (mode_of h) -> down (mode_of h) (mode_of A) = true ->
    Typed gl (as_provider x h) h body ->
    pol_ok x h ->
    Typed (bind gr x h) sh A k ->
    Typed g sh A (FNew x body k)
(* ---- call -------------------------------------------------------------------------------- *)
(* f(ys)          (7): without self *)
| T_Call g sh A fn args o sg ft :
    sig_lookup Sg fn = Some sg -> length args = length (fs_params sg) ->
    fs_type sg = Some ft -> teq D A ft ->
    TypedArgs g args (fs_params sg) [] ->
    Typed g sh A (FCall fn args o)
(* f(self, ys)    (7): self explicitly first *)
| T_CallSelf g sh A fn a0 args o sg ft :
    sig_lookup Sg fn = Some sg -> length args = length (fs_params sg) ->
    is_provider a0 sh = true ->
    fs_type sg = Some ft -> teq D A ft ->
    TypedArgs g args (fs_params sg) [] ->
    Typed g sh A (FCall fn (a0 :: args) o)
(* ---- structural rules -------------------------------------------------------------------- *)
(* drop x; P      the mode of x admits weakening *)
| T_Drop g sh A c k tc hc :
    is_provider c sh = false ->
    has g c tc -> weak (mode_of tc) = true ->
    head D tc hc -> pol_ok c hc ->
    Typed (without g c) sh A k ->
    Typed g sh A (FDrop c k)
(* <y,z> <- split x; P      the mode of x admits contraction *)
| T_Split g sh A x y from k tf hf :
    is_provider from sh = false -> is_provider x sh = false -> is_provider y sh = false ->
    has g from tf -> head D tf hf ->
    fresh (without g from) x -> fresh (without g from) y -> name_equal x y = false ->
    contr (mode_of hf) = true ->
    pol_ok from hf -> pol_ok x hf -> pol_ok y hf ->
    Typed (bind (bind (without g from) x hf) y hf) sh A k ->
    Typed g sh A (FSplit x y from k)
(* print l; P *)
| T_Print g sh A l k :
    Typed g sh A k ->
    Typed g sh A (FPrint l k)

(* branches of `case self (...)`: each in the whole context, the payload name is the provider *)
with TypedBrsR : ctx -> brs -> branches -> Prop :=
| brsR_nil g bs : TypedBrsR g bs BrNil
| brsR_cons g bs l pay k r bt hbt :
    find_br l bs = Some bt -> head D bt hbt -> pol_ok pay hbt ->
    fresh g pay ->
    Typed g (as_provider pay hbt) bt k ->
    TypedBrsR g bs r ->
    TypedBrsR g bs (BrCons l pay k r)

(* branches of `case x (...)`: each in the whole context extended with the fresh payload name *)
with TypedBrsL : ctx -> option name -> sty -> brs -> branches -> Prop :=
| brsL_nil g sh A bs : TypedBrsL g sh A bs BrNil
| brsL_cons g sh A bs l pay k r bt hbt :
    find_br l bs = Some bt -> head D bt hbt -> pol_ok pay hbt ->
    is_provider pay sh = false -> fresh g pay ->
    Typed (bind g pay bt) sh A k ->
    TypedBrsL g sh A bs r ->
    TypedBrsL g sh A bs (BrCons l pay k r).

Scheme Typed_ind3 := Minimality for Typed Sort Prop
with TypedBrsR_ind3 := Minimality for TypedBrsR Sort Prop
with TypedBrsL_ind3 := Minimality for TypedBrsL Sort Prop.
Combined Scheme Typed_mutind from Typed_ind3, TypedBrsR_ind3, TypedBrsL_ind3.

End Judgement.

(* ------------------------------------------------------------------------------------------ *)
(* Programs.  Annotations may omit modes; `elab_*` relates a declaration to the same declaration
   with the modes of its annotations completed (Infer.add_missing = AddMissingModalities); every
   condition below is stated on the elaborated declarations. *)
Definition elab_name (D : tenv) (n n' : name) : Prop :=
  exists t t', nty n = Some t /\ add_missing D t = Ok t' /\ n' = set_nty n (Some t').
Definition elab_fun (D : tenv) (f f' : fundef) : Prop :=
  exists t t' ps', fn_type f = Some t /\ add_missing D t = Ok t' /\
    Forall2 (elab_name D) (fn_params f) ps' /\
    f' = {| fn_name := fn_name f; fn_params := ps'; fn_body := fn_body f; fn_type := Some t';
            fn_explicit := fn_explicit f |}.
Definition elab_proc (D : tenv) (p p' : procdef) : Prop :=
  exists t t', pr_type p = Some t /\ add_missing D t = Ok t' /\
    p' = {| pr_body := pr_body p; pr_providers := pr_providers p; pr_type := Some t' |}.
Definition elab_program (p pe : program) : Prop :=
  p_types pe = p_types p /\
  Forall2 (elab_fun (p_types p)) (p_funs p) (p_funs pe) /\
  Forall2 (elab_proc (p_types p)) (p_procs p) (p_procs pe) /\
  Forall2 (elab_name (p_types p)) (p_assumed p) (p_assumed pe).

(* a name carries a well-formed type *)
Definition typed_name_ok (D : tenv) (n : name) : Prop := exists t, nty n = Some t /\ check_wf D t = true.

(* signature of a function: the provider type is kept unfolded *)
Definition sig_of (D : tenv) (f : fundef) (s : fsig) : Prop :=
  fs_name s = fn_name f /\ fs_params s = fn_params f /\
  exists t h, fn_type f = Some t /\ head D t h /\ fs_type s = Some h.

(* the context of names: each parameter with its declared type (identifiers are unique) *)
Definition ctx_of_names (ns : list name) : ctx := fold_left (fun g n => aset (ident n) (nty n) g) ns [].

(* the free names of a process body other than its own provider names *)
Definition proc_uses (p : procdef) : list name :=
  filter (fun n => negb (str_mem (ident n) (map ident (pr_providers p)))) (free_names (pr_body p)).
Definition all_providers (ps : list procdef) : list string := flat_map (fun p => map ident (pr_providers p)) ps.
(* the type of a top-level name: an assumed name wins over (but is required to differ from) a
   provider; a provider has the type of its process *)
Definition top_names (ps : list procdef) (assumed : list name) : list (string * name) :=
  let provs := flat_map (fun p => map (fun n => (ident n, set_nty n (pr_type p))) (pr_providers p)) ps in
  fold_left (fun m a => aset (ident a) a m) assumed (fold_left (fun m kv => aset (fst kv) (snd kv) m) provs []).
Definition proc_ctx (ps : list procdef) (assumed : list name) (p : procdef) : ctx :=
  ctx_of_names (flat_map (fun fn => match alookup (ident fn) (top_names ps assumed) with Some n => [n] | None => [] end)
                         (proc_uses p)).

(* The processes do not use each other cyclically (a cycle of top-level processes waiting for each
   other deadlocks).  Process i depends on process j when a free name of i's body is a provider name
   of j.  Stated with the iteration the checker runs (repeatedly mark the processes all of whose
   dependencies are marked; acyclic iff everything gets marked): deps_acyclic.  Its declarative
   reading is ProcsGrounded below: the "uses" relation among the process declarations is well founded
   — every process is Grounded, i.e. all the processes it uses are (inductively) Grounded.  The
   equivalence deps_acyclic ps = true <-> ProcsGrounded ps (for distinct provider names) is
   proofs/Acyclic.v (procs_grounded_iff). *)
Definition provider_index (ps : list procdef) (x : string) : option nat :=
  (fix go (l : list procdef) (i : nat) (acc : option nat) : option nat :=
     match l with
     | [] => acc
     | q :: r => go r (S i) (if str_mem x (map ident (pr_providers q)) then Some i else acc)
     end) ps 0 None.
Definition proc_deps (ps : list procdef) (p : procdef) : list nat :=
  flat_map (fun fn => match provider_index ps (ident fn) with Some j => [j] | None => [] end) (proc_uses p).
Definition nat_mem (i : nat) (l : list nat) : bool := existsb (Nat.eqb i) l.
Fixpoint mark_rounds (fuel : nat) (deps : list (list nat)) (done : list nat) : list nat :=
  match fuel with
  | O => done
  | S f =>
    mark_rounds f deps (done ++ filter (fun i => negb (nat_mem i done) && forallb (fun j => nat_mem j done) (nth i deps []))
                                      (seq 0 (length deps)))
  end.
Definition deps_acyclic (ps : list procdef) : bool :=
  (length (mark_rounds (length ps) (map (proc_deps ps) ps) []) =? length ps)%nat.

Inductive Grounded (ps : list procdef) : procdef -> Prop :=
| grounded p :
    (forall fn q, In fn (proc_uses p) -> In q ps -> In (ident fn) (map ident (pr_providers q)) -> Grounded ps q) ->
    Grounded ps p.
Definition ProcsGrounded (ps : list procdef) : Prop := forall p, In p ps -> Grounded ps p.

(* no provider name of a top-level process is the bare keyword self *)
Definition providers_named (ps : list procdef) : Prop :=
  forall p n, In p ps -> In n (pr_providers p) -> ~ (is_self n = true /\ ident n = "").

Section Program.
Variable teq : tenv -> sty -> sty -> Prop.

Record FunOK (D : tenv) (Sg : sigma) (f : fundef) : Prop := {
  fo_params_unique : NoDup (map ident (fn_params f));
  fo_params_typed : Forall (typed_name_ok D) (fn_params f);
  fo_type : exists t, fn_type f = Some t /\ check_wf D t = true /\
            (* independence: every parameter may be depended upon at the mode of the provider *)
            (forall p tp, In p (fn_params f) -> nty p = Some tp -> down (mode_of tp) (mode_of t) = true) /\
            Typed teq D Sg (ctx_of_names (fn_params f)) None t (fn_body f)
}.

Record ProcOK (D : tenv) (Sg : sigma) (all : list procdef) (assumed : list name) (p : procdef) : Prop := {
  po_type : exists t, pr_type p = Some t /\ check_wf D t = true /\
            (* several provider names = a split of the process: needs contraction *)
            ((1 < length (pr_providers p))%nat -> contr (mode_of t) = true) /\
            Typed teq D Sg (proc_ctx all assumed p) None t (pr_body p)
}.

(* conditions on a program whose annotations carry their modes *)
Record ProgOKe (pe : program) : Prop := {
  pk_types : sanity_typedefs (p_types pe) = Ok true;
  pk_fun_names : NoDup (map fn_name (p_funs pe));
  pk_sigma : exists Sg, Forall2 (sig_of (p_types pe)) (p_funs pe) Sg /\
             Forall (FunOK (p_types pe) Sg) (p_funs pe) /\
             Forall (ProcOK (p_types pe) Sg (p_procs pe) (p_assumed pe)) (p_procs pe);
  pk_assumed_unique : NoDup (map ident (p_assumed pe));
  pk_assumed_typed : Forall (typed_name_ok (p_types pe)) (p_assumed pe);
  pk_providers_unique : NoDup (all_providers (p_procs pe));
  pk_assumed_not_provided : forall x, In x (all_providers (p_procs pe)) -> ~ In x (map ident (p_assumed pe));
  (* every free name of a process is an assumed name or a provider of another process, and is
     used once overall; every assumed name is used *)
  pk_uses_once : NoDup (flat_map (fun p => map ident (proc_uses p)) (p_procs pe));
  pk_uses_defined : forall x, In x (flat_map (fun p => map ident (proc_uses p)) (p_procs pe)) ->
                    In x (map ident (p_assumed pe)) \/ In x (all_providers (p_procs pe));
  pk_assumed_used : forall x, In x (map ident (p_assumed pe)) ->
                    In x (flat_map (fun p => map ident (proc_uses p)) (p_procs pe));
  (* the processes do not use each other cyclically *)
  pk_acyclic : deps_acyclic (p_procs pe) = true;
  (* the bare keyword `self` is not the name of a top-level process (the processes made for `exec`
     are self-marked but carry a generated identifier) *)
  pk_providers_named : providers_named (p_procs pe)
}.

Definition ProgOK (p : program) : Prop := exists pe, elab_program p pe /\ ProgOKe pe.
End Program.

(* ------------------------------------------------------------------------------------------ *)
(* on names of a parsed program (no channel attached) Name.Equal is equality of identifiers *)
Lemma name_equal_static a b : chan a = None -> chan b = None -> name_equal a b = String.eqb (ident a) (ident b).
Proof.
  intros Ha Hb. unfold name_equal, initialized. rewrite Ha, Hb. cbn. now rewrite andb_true_r.
Qed.
