(* spec/Rename.v — renaming of programs (property C14).  A renaming is a tuple of maps on strings,
   one per class of names the property talks about:
     rc : channel identifiers (the `ident` of a name: bound variables, parameters, process names;
          "" is the identifier of `self`)
     rf : function names        rt : type names
     rl : choice labels (of +{..} / &{..} types, of select and of case branches)
     rp : print labels (`print l; P`) — they are only output, so no condition is needed on rp; the
          four-map renaming of the property statement is the instance rp := rl
   Programs are renamed AFTER `parse_string` (AST level): keywords never occur in the AST, and the
   reserved provider names `execN` that Expand generates are ordinary identifiers there (a renaming
   of the source text corresponds to an AST renaming that fixes them).
   No proofs of properties here. *)
Require Import Grits.Base Grits.ModeDefs Grits.STypes Grits.Forms.

Record renaming : Type := Ren {
  rc : string -> string;
  rf : string -> string;
  rt : string -> string;
  rl : string -> string;
  rp : string -> string
}.

Definition ren4 (c f t l : string -> string) : renaming := Ren c f t l l.
Definition ren_id : renaming := Ren (fun x => x) (fun x => x) (fun x => x) (fun x => x) (fun x => x).
Definition ren_labels (l : string -> string) : renaming := Ren (fun x => x) (fun x => x) (fun x => x) l l.

(* (top-level fixpoints with the renaming as a parameter of the fix: `cbn` refolds them) *)
Fixpoint rn_sty (r : renaming) (t : sty) : sty :=
  match t with
  | TName x m => TName (rt r x) m
  | TUnit m => TUnit m
  | TTensor a b m => TTensor (rn_sty r a) (rn_sty r b) m
  | TLolli a b m => TLolli (rn_sty r a) (rn_sty r b) m
  | TPlus bs m => TPlus (rn_brs r bs) m
  | TWith bs m => TWith (rn_brs r bs) m
  | TUp f t a => TUp f t (rn_sty r a)
  | TDown f t a => TDown f t (rn_sty r a)
  end
with rn_brs (r : renaming) (b : brs) : brs :=
  match b with
  | BNil => BNil
  | BCons l a rest => BCons (rl r l) (rn_sty r a) (rn_brs r rest)
  end.

Definition rn_osty (r : renaming) (t : option sty) : option sty := option_map (rn_sty r) t.

Definition rn_tdef (r : renaming) (d : tdef) : tdef :=
  {| td_name := rt r (td_name d); td_body := rn_sty r (td_body d); td_mode := td_mode d |}.
Definition rn_tenv (r : renaming) (D : tenv) : tenv := map (rn_tdef r) D.

Definition rn_name (r : renaming) (n : name) : name :=
  mkName (rc r (ident n)) (is_self n) (pol n) (rn_osty r (nty n)) (chan n).

Fixpoint rn_form (r : renaming) (f : form) : form :=
  match f with
  | FSend a b c => FSend (rn_name r a) (rn_name r b) (rn_name r c)
  | FRecv p c fr k => FRecv (rn_name r p) (rn_name r c) (rn_name r fr) (rn_form r k)
  | FSel a l c => FSel (rn_name r a) (rl r l) (rn_name r c)
  | FCase fr bs => FCase (rn_name r fr) (rn_branches r bs)
  | FNew x b k => FNew (rn_name r x) (rn_form r b) (rn_form r k)
  | FClose c => FClose (rn_name r c)
  | FWait c k => FWait (rn_name r c) (rn_form r k)
  | FFwd a b d => FFwd (rn_name r a) (rn_name r b) d
  | FSplit x y fr k => FSplit (rn_name r x) (rn_name r y) (rn_name r fr) (rn_form r k)
  | FCall fn args pt => FCall (rf r fn) (map (rn_name r) args) (rn_osty r pt)
  | FCast a c => FCast (rn_name r a) (rn_name r c)
  | FShift x fr k => FShift (rn_name r x) (rn_name r fr) (rn_form r k)
  | FDrop c k => FDrop (rn_name r c) (rn_form r k)
  | FPrint l k => FPrint (rp r l) (rn_form r k)
  end
with rn_branches (r : renaming) (b : branches) : branches :=
  match b with
  | BrNil => BrNil
  | BrCons l p k rest => BrCons (rl r l) (rn_name r p) (rn_form r k) (rn_branches r rest)
  end.

Definition rn_fundef (r : renaming) (f : fundef) : fundef :=
  {| fn_name := rf r (fn_name f); fn_params := map (rn_name r) (fn_params f); fn_body := rn_form r (fn_body f);
     fn_type := rn_osty r (fn_type f); fn_explicit := option_map (rn_name r) (fn_explicit f) |}.
Definition rn_procdef (r : renaming) (p : procdef) : procdef :=
  {| pr_body := rn_form r (pr_body p); pr_providers := map (rn_name r) (pr_providers p); pr_type := rn_osty r (pr_type p) |}.
Definition rn_program (r : renaming) (p : program) : program :=
  {| p_procs := map (rn_procdef r) (p_procs p); p_assumed := map (rn_name r) (p_assumed p);
     p_funs := map (rn_fundef r) (p_funs p); p_types := rn_tenv r (p_types p) |}.

Definition rn_labels (l : string -> string) : program -> program := rn_program (ren_labels l).

(* ---------------------------------------------------------------- the names occurring in a program *)
Record atoms : Type := At { a_chan : list string; a_fun : list string; a_type : list string; a_label : list string }.
Definition at_nil : atoms := At [] [] [] [].
Definition at_app (a b : atoms) : atoms :=
  At (a_chan a ++ a_chan b) (a_fun a ++ a_fun b) (a_type a ++ a_type b) (a_label a ++ a_label b).
Definition at_concat (l : list atoms) : atoms := fold_right at_app at_nil l.

Fixpoint sty_atoms (t : sty) : atoms :=
  match t with
  | TName x _ => At [] [] [x] []
  | TUnit _ => at_nil
  | TTensor a b _ | TLolli a b _ => at_app (sty_atoms a) (sty_atoms b)
  | TPlus bs _ | TWith bs _ => brs_atoms bs
  | TUp _ _ a | TDown _ _ a => sty_atoms a
  end
with brs_atoms (b : brs) : atoms :=
  match b with
  | BNil => at_nil
  | BCons l a rest => at_app (At [] [] [] [l]) (at_app (sty_atoms a) (brs_atoms rest))
  end.
Definition osty_atoms (t : option sty) : atoms := match t with Some t => sty_atoms t | None => at_nil end.
Definition name_atoms (n : name) : atoms := at_app (At [ident n] [] [] []) (osty_atoms (nty n)).
Definition names_atoms (ns : list name) : atoms := at_concat (map name_atoms ns).

Fixpoint form_atoms (f : form) : atoms :=
  match f with
  | FSend a b c => names_atoms [a; b; c]
  | FRecv p c fr k => at_app (names_atoms [p; c; fr]) (form_atoms k)
  | FSel a l c => at_app (At [] [] [] [l]) (names_atoms [a; c])
  | FCase fr bs => at_app (name_atoms fr) (branches_atoms bs)
  | FNew x b k => at_app (name_atoms x) (at_app (form_atoms b) (form_atoms k))
  | FClose c => name_atoms c
  | FWait c k | FDrop c k => at_app (name_atoms c) (form_atoms k)
  | FFwd a b _ | FCast a b => names_atoms [a; b]
  | FSplit x y fr k => at_app (names_atoms [x; y; fr]) (form_atoms k)
  | FCall fn args pt => at_app (At [] [fn] [] []) (at_app (names_atoms args) (osty_atoms pt))
  | FShift x fr k => at_app (names_atoms [x; fr]) (form_atoms k)
  | FPrint _ k => form_atoms k
  end
with branches_atoms (b : branches) : atoms :=
  match b with
  | BrNil => at_nil
  | BrCons l p k rest => at_app (At [] [] [] [l]) (at_app (name_atoms p) (at_app (form_atoms k) (branches_atoms rest)))
  end.

Definition tdef_atoms (d : tdef) : atoms := at_app (At [] [] [td_name d] []) (sty_atoms (td_body d)).
Definition fundef_atoms (f : fundef) : atoms :=
  at_app (At [] [fn_name f] [] [])
    (at_app (names_atoms (fn_params f))
       (at_app (form_atoms (fn_body f))
          (at_app (osty_atoms (fn_type f)) (match fn_explicit f with Some n => name_atoms n | None => at_nil end)))).
Definition procdef_atoms (p : procdef) : atoms :=
  at_app (form_atoms (pr_body p)) (at_app (names_atoms (pr_providers p)) (osty_atoms (pr_type p))).
Definition program_atoms (p : program) : atoms :=
  at_app (at_concat (map procdef_atoms (p_procs p)))
    (at_app (names_atoms (p_assumed p))
       (at_app (at_concat (map fundef_atoms (p_funs p))) (at_concat (map tdef_atoms (p_types p))))).

(* ---------------------------------------------------------------- admissible renamings *)
Definition inj_on (l : list string) (f : string -> string) : Prop :=
  forall x y, In x l -> In y l -> f x = f y -> x = y.
Definition injective (f : string -> string) : Prop := forall x y, f x = f y -> x = y.

(* injective on the names of each class that occur in the program; `self` (identifier "") is kept and
   nothing else becomes `self`.  (Capture is excluded by injectivity on ALL channel identifiers of the
   program; the weaker "capture-avoiding" condition is discussed in proofs/RenameRun.v.) *)
Definition admissible (r : renaming) (p : program) : Prop :=
  let a := program_atoms p in
  inj_on ("" :: a_chan a) (rc r) /\ rc r "" = "" /\
  inj_on (a_fun a) (rf r) /\ inj_on (a_type a) (rt r) /\ inj_on (a_label a) (rl r).

(* the same, for maps that are injective everywhere (what the equivariance proofs use; an admissible
   renaming agrees on the program with a globally injective one: proofs/RenameExt.v) *)
Definition ginjective (r : renaming) : Prop :=
  injective (rc r) /\ rc r "" = "" /\ injective (rf r) /\ injective (rt r) /\ injective (rl r).
