(* spec/Sequents.v — the typing judgements (sequents) that arise in the derivation of a body.

   A sequent is  Gamma |- Q :: (c : A)  : a context (names with their types), the name bound for
   the provider (if any), the provider's type, and the term.  `sequents` lists, for a root sequent,
   every sequent of its derivation according to the rules of the adjoint semi-axiomatic calculus in
   Grits' syntax, type-directed (no checking: when the type at hand does not have the shape the rule
   needs, the rule has no premise):

     ⊸R  <x,y> <- recv self; P     Γ ⊢ :: A ⊸ B          premise  Γ, x:A ⊢ P :: (y : B)
     ⊗L  <x,y> <- recv w; P        Γ, w:A ⊗ B ⊢ :: C     premise  Γ, x:A, y:B ⊢ P :: C
     &R  case self (l<y> => P_l)   Γ ⊢ :: &{l : A_l}     premises Γ ⊢ P_l :: (y : A_l)
     ⊕L  case w (l<y> => P_l)      Γ, w:⊕{l : A_l} ⊢ :: C  premises Γ, y:A_l ⊢ P_l :: C
     cut x <- new (Q); P           Γ1, Γ2 ⊢ :: C         premises Γ1 ⊢ Q :: (x : A)  [a spawned process]
                                                                  Γ2, x:A ⊢ P :: C
         Γ1 = the entries of the free names of Q; A = the declared result type of the called
         function, or the (mode-completed) annotation on x
     1L  wait w; P                 premise Γ ⊢ P :: C
     ↑R  x <- shift self; P        Γ ⊢ :: ↑A              premise Γ ⊢ P :: (x : A)
     ↓L  x <- shift w; P           Γ, w:↓A ⊢ :: C         premise Γ, x:A ⊢ P :: C
     split, drop, print            structural
   Types are kept unfolded the way the checker keeps them (a component type that is a name is
   replaced by its definition when it enters the context).

   The operations on contexts (association lists, `split_gamma`), the signature table and type
   unfolding are taken from the model files: they are data-structure operations, not checks. *)
Require Import Grits.Base Grits.ModeDefs Grits.Modes Grits.STypes Grits.Forms Grits.Subst Grits.Infer
               Grits.TcDeps Grits.Tc Grits.spec.Linear.

Record sequent : Type := mkSeq {
  sq_spawned : bool;          (* the root of a spawned process (body of a cut) *)
  sq_ctx : ctx;
  sq_sh : option string;
  sq_ty : option sty;
  sq_form : form
}.

Section Seq.
Variable D : tenv.
Variable Sg : sigma.

(* the structure of a type: unfold a name *)
Definition unf (t : option sty) : option sty :=
  match t with
  | Some t0 => match unfold D t0 with Ok r => r | _ => None end
  | None => None
  end.

(* the type of the channel offered by the body of a cut *)
Definition cut_type (y : name) (body : form) : option sty :=
  match body with
  | FCall fn _ _ => match sig_lookup Sg fn with Some sg => unf (fs_type sg) | None => None end
  | _ => match nty y with
         | Some xt => match add_missing D xt with Ok xt1 => unf (Some xt1) | _ => None end
         | None => None
         end
  end.
Definition cut_cont_type (body : form) (bt : option sty) : option sty :=
  match body with FCall _ _ _ => bt | _ => unf bt end.

Fixpoint subseq (g : ctx) (sh : option string) (pty : option sty) (f : form) : list sequent :=
  match f with
  | FRecv pay cont fr k =>
    if prov_ref sh fr then
      match unf pty with
      | Some (TLolli l r _) =>
        let g1 := aset (ident pay) (unf (Some l)) g in
        let nr := unf (Some r) in
        mkSeq false g1 (Some (ident cont)) nr k :: subseq g1 (Some (ident cont)) nr k
      | _ => []
      end
    else
      match alookup (ident fr) g with
      | Some ct =>
        match unf ct with
        | Some (TTensor l r _) =>
          let g2 := aset (ident cont) (unf (Some r)) (aset (ident pay) (unf (Some l)) (aremove (ident fr) g)) in
          mkSeq false g2 sh pty k :: subseq g2 sh pty k
        | _ => []
        end
      | None => []
      end
  | FCase fr bs =>
    if prov_ref sh fr then
      match unf pty with
      | Some (TWith tbs _) => subseq_bp g tbs bs
      | _ => []
      end
    else
      match alookup (ident fr) g with
      | Some ct =>
        match unf ct with
        | Some (TPlus tbs _) => subseq_bc (aremove (ident fr) g) sh pty tbs bs
        | _ => []
        end
      | None => []
      end
  | FNew y body k =>
    match split_gamma D g (free_names body) [] with
    | TOk (gl, gr0) =>
      let bt := cut_type y body in
      let gk := aset (ident y) (cut_cont_type body bt) gr0 in
      mkSeq true gl (Some (ident y)) bt body :: mkSeq false gk sh pty k :: subseq gk sh pty k
    | _ => []
    end
  | FWait c k | FDrop c k =>
    match alookup (ident c) g with
    | Some _ => let g1 := aremove (ident c) g in mkSeq false g1 sh pty k :: subseq g1 sh pty k
    | None => []
    end
  | FSplit x y fr k =>
    match alookup (ident fr) g with
    | Some ft =>
      let g2 := aset (ident y) (unf ft) (aset (ident x) (unf ft) (aremove (ident fr) g)) in
      mkSeq false g2 sh pty k :: subseq g2 sh pty k
    | None => []
    end
  | FShift y fr k =>
    if prov_ref sh fr then
      match unf pty with
      | Some (TUp _ _ a) =>
        let ec := unf (Some a) in
        mkSeq false g (Some (ident y)) ec k :: subseq g (Some (ident y)) ec k
      | _ => []
      end
    else
      match alookup (ident fr) g with
      | Some ct =>
        match unf ct with
        | Some (TDown _ _ a) =>
          let g2 := aset (ident y) (unf (Some a)) (aremove (ident fr) g) in
          mkSeq false g2 sh pty k :: subseq g2 sh pty k
        | _ => []
        end
      | None => []
      end
  | FPrint _ k => mkSeq false g sh pty k :: subseq g sh pty k
  | FSend _ _ _ | FSel _ _ _ | FClose _ | FFwd _ _ _ | FCall _ _ _ | FCast _ _ => []
  end
with subseq_bp (g : ctx) (tbs : brs) (b : branches) : list sequent :=
  match b with
  | BrNil => []
  | BrCons l pay k r =>
    match find_br l tbs with
    | Some bt => mkSeq false g (Some (ident pay)) (Some bt) k :: subseq g (Some (ident pay)) (Some bt) k
    | None => []
    end ++ subseq_bp g tbs r
  end
with subseq_bc (g : ctx) (sh : option string) (pty : option sty) (tbs : brs) (b : branches) : list sequent :=
  match b with
  | BrNil => []
  | BrCons l pay k r =>
    match find_br l tbs with
    | Some bt =>
      let g1 := aset (ident pay) (Some bt) g in
      mkSeq false g1 sh pty k :: subseq g1 sh pty k
    | None => []
    end ++ subseq_bc g sh pty tbs r
  end.

(* every sequent of the derivation rooted at  g |- f :: pty *)
Definition sequents (g : ctx) (sh : option string) (pty : option sty) (f : form) : list sequent :=
  mkSeq false g sh pty f :: subseq g sh pty f.

(* ---------- the two statements of C06 about one sequent ---------- *)
(* independence: every channel of the context has a mode that can be down-shifted to the mode of
   the provider *)
Definition independent (s : sequent) : Prop :=
  exists t, sq_ty s = Some t /\
  forall x tx, alookup x (sq_ctx s) = Some tx -> exists t', tx = Some t' /\ down (mode_of t') (mode_of t) = true.

(* the shift type consumed or offered by a cast / shift has a legal pair of modes *)
Definition shift_legal (s : sequent) : Prop :=
  match sq_form s with
  | FCast to _ =>
    if prov_ref (sq_sh s) to then
      match unf (sq_ty s) with Some (TDown fm tm _) => down fm tm = true | _ => True end
    else
      match alookup (ident to) (sq_ctx s) with
      | Some ct => match unf ct with Some (TUp fm tm _) => up fm tm = true | _ => True end
      | None => True
      end
  | FShift _ fr _ =>
    if prov_ref (sq_sh s) fr then
      match unf (sq_ty s) with Some (TUp fm tm _) => up fm tm = true | _ => True end
    else
      match alookup (ident fr) (sq_ctx s) with
      | Some ct => match unf ct with Some (TDown fm tm _) => down fm tm = true | _ => True end
      | None => True
      end
  | _ => True
  end.

(* ---------- the mode side conditions of C05 about one sequent ---------- *)
Definition drop_split_legal (s : sequent) : Prop :=
  match sq_form s with
  | FDrop c _ =>
    exists t, alookup (ident c) (sq_ctx s) = Some (Some t) /\ weak (mode_of t) = true
  | FSplit _ _ fr _ =>
    exists t, alookup (ident fr) (sq_ctx s) = Some (Some t) /\ contr (mode_of t) = true
  | _ => True
  end.
End Seq.
