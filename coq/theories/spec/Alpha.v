(* spec/Alpha.v — alpha-equivalence of process terms and programs (C14): consistent, capture-avoiding
   renaming of BOUND channel names (binders of receive / case / cut / split / shift, parameters and
   the explicit provider name of a function).  Free names of a process body (the top-level process
   names) are not renamed.  This is the relation the part of C14 that is NOT proved for the
   interpreter model is stated with (`RenameRun.run_alpha_invariant`); the proved part covers the
   sub-relation "image under ONE map that is injective on all identifiers of the program". *)
Require Import Grits.Base Grits.ModeDefs Grits.STypes Grits.Forms.

(* a stack of pairs of binder identifiers, innermost first *)
Definition benv := list (string * string).
Fixpoint var_rel (e : benv) (x y : string) : Prop :=
  match e with
  | [] => x = y
  | (a, b) :: e' => (x = a /\ y = b) \/ (x <> a /\ y <> b /\ var_rel e' x y)
  end.
(* occurrences: everything but the identifier is the same *)
Definition name_rel (e : benv) (n m : name) : Prop :=
  is_self n = is_self m /\ pol n = pol m /\ nty n = nty m /\ chan n = chan m /\
  (if is_self n then ident n = ident m else var_rel e (ident n) (ident m)).
(* binders: a pair of fresh variables with the same annotations *)
Definition binder_rel (n m : name) : Prop :=
  is_self n = is_self m /\ pol n = pol m /\ nty n = nty m /\ chan n = chan m.
Definition bind (n m : name) (e : benv) : benv := (ident n, ident m) :: e.

Fixpoint alpha (e : benv) (f g : form) {struct f} : Prop :=
  match f, g with
  | FSend a b c, FSend a' b' c' => name_rel e a a' /\ name_rel e b b' /\ name_rel e c c'
  | FRecv p c fr k, FRecv p' c' fr' k' =>
    binder_rel p p' /\ binder_rel c c' /\ name_rel e fr fr' /\ alpha (bind c c' (bind p p' e)) k k'
  | FSel a l c, FSel a' l' c' => l = l' /\ name_rel e a a' /\ name_rel e c c'
  | FCase fr bs, FCase fr' bs' => name_rel e fr fr' /\ alpha_brs e bs bs'
  | FNew x b k, FNew x' b' k' => binder_rel x x' /\ alpha e b b' /\ alpha (bind x x' e) k k'
  | FClose c, FClose c' => name_rel e c c'
  | FWait c k, FWait c' k' => name_rel e c c' /\ alpha e k k'
  | FFwd a b d, FFwd a' b' d' => d = d' /\ name_rel e a a' /\ name_rel e b b'
  | FSplit x y fr k, FSplit x' y' fr' k' =>
    binder_rel x x' /\ binder_rel y y' /\ name_rel e fr fr' /\ alpha (bind y y' (bind x x' e)) k k'
  | FCall fn args pt, FCall fn' args' pt' => fn = fn' /\ pt = pt' /\ Forall2 (name_rel e) args args'
  | FCast a c, FCast a' c' => name_rel e a a' /\ name_rel e c c'
  | FShift x fr k, FShift x' fr' k' => binder_rel x x' /\ name_rel e fr fr' /\ alpha (bind x x' e) k k'
  | FDrop c k, FDrop c' k' => name_rel e c c' /\ alpha e k k'
  | FPrint l k, FPrint l' k' => l = l' /\ alpha e k k'
  | _, _ => False
  end
with alpha_brs (e : benv) (b c : branches) {struct b} : Prop :=
  match b, c with
  | BrNil, BrNil => True
  | BrCons l p k r, BrCons l' p' k' r' => l = l' /\ binder_rel p p' /\ alpha (bind p p' e) k k' /\ alpha_brs e r r'
  | _, _ => False
  end.

Definition alpha_fun (f g : fundef) : Prop :=
  fn_name f = fn_name g /\ fn_type f = fn_type g /\
  Forall2 binder_rel (fn_params f) (fn_params g) /\
  (match fn_explicit f, fn_explicit g with
   | Some a, Some b => binder_rel a b
   | None, None => True
   | _, _ => False
   end) /\
  alpha (rev (combine (map ident (fn_params f)) (map ident (fn_params g))) ++
         match fn_explicit f, fn_explicit g with Some a, Some b => [(ident a, ident b)] | _, _ => [] end)
        (fn_body f) (fn_body g).
Definition alpha_proc (p q : procdef) : Prop :=
  pr_providers p = pr_providers q /\ pr_type p = pr_type q /\ alpha [] (pr_body p) (pr_body q).
Definition alpha_program (p q : program) : Prop :=
  Forall2 alpha_proc (p_procs p) (p_procs q) /\ p_assumed p = p_assumed q /\
  Forall2 alpha_fun (p_funs p) (p_funs q) /\ p_types p = p_types q.
