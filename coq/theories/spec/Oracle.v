(* spec/Oracle.v — boolean (extractable) versions of the statements of C05 and C06, used by the
   checks as executable oracles on programs that the IMPLEMENTATION accepts.  proofs/OracleProofs.v
   relates them to the Prop-level statements. *)
Require Import Grits.Base Grits.ModeDefs Grits.Modes Grits.STypes Grits.Forms Grits.Subst Grits.Infer
               Grits.TcDeps Grits.Tc Grits.TcTop Grits.spec.Linear Grits.spec.Sequents Grits.spec.Indep.

(* ---------- C05 ---------- *)
Definition all_eq (c : nat) (l : list nat) : bool := forallb (Nat.eqb c) l.
Definition fresh_b (live : list string) (n : name) : bool := negb (str_mem (ident n) live).
Definition differ_b (a b : name) : bool := negb (String.eqb (ident a) (ident b)).

Fixpoint bound_once_b (sh : option string) (f : form) : bool :=
  match f with
  | FRecv p c fr k =>
    if prov_ref sh fr then all_eq 1 (uses (Some (ident c)) (ident p) k) && bound_once_b (Some (ident c)) k
    else all_eq 1 (uses sh (ident p) k) && all_eq 1 (uses sh (ident c) k) && bound_once_b sh k
  | FCase fr bs => if prov_ref sh fr then bound_once_bp_b bs else bound_once_bc_b sh bs
  | FNew y b k => bound_once_b None b && all_eq 1 (uses sh (ident y) k) && bound_once_b sh k
  | FWait _ k | FDrop _ k | FPrint _ k => bound_once_b sh k
  | FSplit a b _ k => all_eq 1 (uses sh (ident a) k) && all_eq 1 (uses sh (ident b) k) && bound_once_b sh k
  | FShift y fr k =>
    if prov_ref sh fr then bound_once_b (Some (ident y)) k
    else all_eq 1 (uses sh (ident y) k) && bound_once_b sh k
  | FSend _ _ _ | FSel _ _ _ | FClose _ | FFwd _ _ _ | FCall _ _ _ | FCast _ _ => true
  end
with bound_once_bp_b (b : branches) : bool :=
  match b with
  | BrNil => true
  | BrCons _ p k r => bound_once_b (Some (ident p)) k && bound_once_bp_b r
  end
with bound_once_bc_b (sh : option string) (b : branches) : bool :=
  match b with
  | BrNil => true
  | BrCons _ p k r => all_eq 1 (uses sh (ident p) k) && bound_once_b sh k && bound_once_bc_b sh r
  end.

Fixpoint binders_fresh_b (live : list string) (sh : option string) (f : form) : bool :=
  match f with
  | FRecv p c fr k =>
    if prov_ref sh fr then
      fresh_b live p && fresh_b live c && differ_b p c && binders_fresh_b (ident p :: live) (Some (ident c)) k
    else
      let live' := remove (ident fr) live in
      fresh_b live' p && fresh_b live' c && differ_b p c && negb (prov_ref sh p) && negb (prov_ref sh c) &&
      binders_fresh_b (ident c :: ident p :: live') sh k
  | FCase fr bs =>
    if prov_ref sh fr then binders_fresh_bp_b live bs
    else binders_fresh_bc_b (remove (ident fr) live) sh bs
  | FNew y b k =>
    let rest := filter (fun z => negb (used_in None b z)) live in
    negb (prov_ref sh y) && fresh_b rest y &&
    binders_fresh_b (filter (used_in None b) live) None b &&
    binders_fresh_b (ident y :: rest) sh k
  | FWait c k | FDrop c k => binders_fresh_b (remove (ident c) live) sh k
  | FPrint _ k => binders_fresh_b live sh k
  | FSplit a b fr k =>
    let live' := remove (ident fr) live in
    fresh_b live' a && fresh_b live' b && differ_b a b && negb (prov_ref sh a) && negb (prov_ref sh b) &&
    binders_fresh_b (ident b :: ident a :: live') sh k
  | FShift y fr k =>
    if prov_ref sh fr then fresh_b live y && binders_fresh_b live (Some (ident y)) k
    else
      let live' := remove (ident fr) live in
      fresh_b live' y && negb (prov_ref sh y) && binders_fresh_b (ident y :: live') sh k
  | FSend _ _ _ | FSel _ _ _ | FClose _ | FFwd _ _ _ | FCall _ _ _ | FCast _ _ => true
  end
with binders_fresh_bp_b (live : list string) (b : branches) : bool :=
  match b with
  | BrNil => true
  | BrCons _ p k r => fresh_b live p && binders_fresh_b live (Some (ident p)) k && binders_fresh_bp_b live r
  end
with binders_fresh_bc_b (live : list string) (sh : option string) (b : branches) : bool :=
  match b with
  | BrNil => true
  | BrCons _ p k r =>
    fresh_b live p && negb (prov_ref sh p) && binders_fresh_b (ident p :: live) sh k && binders_fresh_bc_b live sh r
  end.

(* every identifier that occurs in a term (a name that does not occur is never used) *)
Fixpoint mentioned (f : form) : list string :=
  match f with
  | FSend a b c => [ident a; ident b; ident c]
  | FRecv p c fr k => ident p :: ident c :: ident fr :: mentioned k
  | FSel a _ c => [ident a; ident c]
  | FCase fr bs => ident fr :: mentioned_brs bs
  | FNew y b k => ident y :: mentioned b ++ mentioned k
  | FClose c => [ident c]
  | FWait c k | FDrop c k => ident c :: mentioned k
  | FFwd a b _ => [ident a; ident b]
  | FSplit a b fr k => ident a :: ident b :: ident fr :: mentioned k
  | FCall _ args _ => map ident args
  | FCast a c => [ident a; ident c]
  | FShift y fr k => ident y :: ident fr :: mentioned k
  | FPrint _ k => mentioned k
  end
with mentioned_brs (b : branches) : list string :=
  match b with BrNil => [] | BrCons _ p k r => ident p :: mentioned k ++ mentioned_brs r end.

Definition linear_names_b (names : list string) (sh : option string) (f : form) : bool :=
  forallb (fun x => all_eq 1 (uses sh x f)) names &&
  forallb (fun x => str_mem x names || all_eq 0 (uses sh x f)) (mentioned f) &&
  bound_once_b sh f && binders_fresh_b names sh f.

Definition contractable_b (D : tenv) (t : option sty) : bool :=
  match t with
  | Some t0 => match add_missing D t0 with Ok t1 => contr (mode_of t1) | _ => false end
  | None => false
  end.

Definition linear_program_b (p : program) : bool :=
  forallb (fun fd => linear_names_b (fun_scope fd) None (fn_body fd)) (p_funs p) &&
  forallb (fun pd => linear_names_b (proc_scope p pd) None (pr_body pd)) (p_procs p) &&
  forallb (fun pd => negb (Nat.ltb 1 (length (pr_providers pd))) || contractable_b (p_types p) (pr_type pd)) (p_procs p).

(* ---------- C06 (and the drop/split modes of C05) ---------- *)
Definition independent_b (s : sequent) : bool :=
  match sq_ty s with
  | Some t =>
    forallb (fun k => match alookup k (sq_ctx s) with
                      | Some (Some t') => down (mode_of t') (mode_of t)
                      | Some None => false
                      | None => true
                      end) (map fst (sq_ctx s))
  | None => false
  end.

Definition shift_legal_b (D : tenv) (s : sequent) : bool :=
  match sq_form s with
  | FCast to _ =>
    if prov_ref (sq_sh s) to then
      match unf D (sq_ty s) with Some (TDown fm tm _) => down fm tm | _ => true end
    else
      match alookup (ident to) (sq_ctx s) with
      | Some ct => match unf D ct with Some (TUp fm tm _) => up fm tm | _ => true end
      | None => true
      end
  | FShift _ fr _ =>
    if prov_ref (sq_sh s) fr then
      match unf D (sq_ty s) with Some (TUp fm tm _) => up fm tm | _ => true end
    else
      match alookup (ident fr) (sq_ctx s) with
      | Some ct => match unf D ct with Some (TDown fm tm _) => down fm tm | _ => true end
      | None => true
      end
  | _ => true
  end.

Definition drop_split_legal_b (s : sequent) : bool :=
  match sq_form s with
  | FDrop c _ =>
    match alookup (ident c) (sq_ctx s) with Some (Some t) => weak (mode_of t) | _ => false end
  | FSplit _ _ fr _ =>
    match alookup (ident fr) (sq_ctx s) with Some (Some t) => contr (mode_of t) | _ => false end
  | _ => true
  end.

(* the declared types completed with modes, as the preliminary checks of the checker do it
   (AddMissingModalities), without any check *)
Definition am (D : tenv) (t : option sty) : option sty :=
  match t with
  | Some t0 => match add_missing D t0 with Ok t1 => Some t1 | _ => None end
  | None => None
  end.
Definition prepare (p : program) : program :=
  let D := p_types p in
  {| p_procs := map (fun pd => {| pr_body := pr_body pd; pr_providers := pr_providers pd; pr_type := am D (pr_type pd) |}) (p_procs p);
     p_assumed := map (fun n => set_nty n (am D (nty n))) (p_assumed p);
     p_funs := map (fun f => {| fn_name := fn_name f; fn_params := map (fun n => set_nty n (am D (nty n))) (fn_params f);
                                fn_body := fn_body f; fn_type := am D (fn_type f); fn_explicit := fn_explicit f |}) (p_funs p);
     p_types := D |}.

(* the accepted program returned by the checker model when it accepts (the object the theorems speak
   about); otherwise (the implementation accepted something the model rejects) the declared types
   completed independently *)
Definition completed (p : program) : program :=
  match typecheck p with Accept q => q | _ => prepare p end.

Inductive indep_verdict : Type :=
| IndepOk
| IndepK1 (n : nat)          (* only roots of top-level processes fail: n of them *)
| IndepViolates (what : string).

Definition indep_program_v (p : program) : indep_verdict :=
  let p' := completed p in
  let D := p_types p in
  let bad_fun :=
    existsb (fun ff => negb (forallb (fun s => independent_b s && shift_legal_b D s) (fun_sequents p p' (fst ff) (snd ff))))
            (combine (p_funs p) (p_funs p')) in
  let procs := combine (p_procs p) (p_procs p') in
  let bad_spawn :=
    existsb (fun qq => negb (forallb (fun s => (negb (sq_spawned s) || independent_b s) && shift_legal_b D s)
                                     (proc_sequents p p' (fst qq) (snd qq)))) procs in
  let bad_inner :=
    existsb (fun qq => independent_b (proc_root p' (fst qq) (snd qq)) &&
                       negb (forallb independent_b (proc_sequents p p' (fst qq) (snd qq)))) procs in
  let k1 := length (filter (fun qq => negb (independent_b (proc_root p' (fst qq) (snd qq)))) procs) in
  if bad_fun then IndepViolates "function"
  else if bad_spawn then IndepViolates "spawned-process-or-shift"
  else if bad_inner then IndepViolates "process-with-independent-root"
  else match k1 with O => IndepOk | S _ => IndepK1 k1 end.

Definition drop_split_program_b (p : program) : bool :=
  let p' := completed p in
  forallb (fun ff => forallb drop_split_legal_b (fun_sequents p p' (fst ff) (snd ff))) (combine (p_funs p) (p_funs p')) &&
  forallb (fun qq => forallb drop_split_legal_b (proc_sequents p p' (fst qq) (snd qq))) (combine (p_procs p) (p_procs p')).
