(* spec/FormReader.v — a reference reader for process terms as Form.String() prints them: a
   tokenizer (words are classified with the scanner's keyword table) and a recursive-descent
   parser.  Every continuation is in tail position and the body of `new` is bracketed, so one token
   of look-ahead after a leading name suffices.  A specification device for the term half of C15;
   its agreement with the LALR parser on printed terms is validated by the round trip through the
   real parser on every run (probe `formrt`). *)
Require Import Grits.Base Grits.ModeDefs Grits.STypes Grits.Forms Grits.Tokens Grits.Scan.

Inductive ftok : Type :=
| FLab (s : string) | FSelf
| FSendK | FRecvK | FCaseK | FNewK | FCloseK | FWaitK | FFwdK | FSplitK | FCastK | FShiftK | FDropK | FPrintK
| FLt | FGt | FComma | FDot | FLP | FRP | FSemi | FArrow | FDArrow | FPipe | FBad.

Definition word_tok (w : string) : ftok :=
  if String.eqb w "1" then FBad else
  match keyword w with
  | LABEL => FLab w | SELF => FSelf
  | SEND => FSendK | RECEIVE => FRecvK | CASE => FCaseK | NEW => FNewK | CLOSE => FCloseK | WAIT => FWaitK
  | FORWARD => FFwdK | SPLIT => FSplitK | CAST => FCastK | SHIFT => FShiftK | DROP => FDropK | PRINT => FPrintK
  | _ => FBad
  end.
Definition fflush (acc : string) : list ftok := if String.eqb acc "" then [] else [word_tok acc].

Definition fsingle (c : ascii) : option ftok :=
  match code c with
  | 62 => Some FGt | 44 => Some FComma | 46 => Some FDot | 40 => Some FLP | 41 => Some FRP | 59 => Some FSemi
  | 124 => Some FPipe
  | _ => None
  end.

Fixpoint flex_go (acc : string) (s : string) : list ftok :=
  match s with
  | EmptyString => fflush acc
  | String c r =>
    if is_lab c then flex_go (acc ^^ String c "") r
    else fflush acc ++
         (if is_ws c then flex_go "" r
          else match fsingle c with
               | Some k => k :: flex_go "" r
               | None =>
                 if (code c =? 60)%nat then        (* < or <- *)
                   match r with
                   | String c2 r2 => if (code c2 =? 45)%nat then FArrow :: flex_go "" r2 else FLt :: flex_go "" r
                   | EmptyString => [FLt]
                   end
                 else if (code c =? 61)%nat then   (* => *)
                   match r with
                   | String c2 r2 => if (code c2 =? 62)%nat then FDArrow :: flex_go "" r2 else [FBad]
                   | EmptyString => [FBad]
                   end
                 else [FBad]
               end)
  end.
Definition lex_form (s : string) : list ftok := flex_go "" s.

Definition rd_name (ts : list ftok) : option (name * list ftok) :=
  match ts with
  | FSelf :: r => Some (self_name, r)
  | FLab x :: r => Some (plain_name x, r)
  | _ => None
  end.

(* NamesToString: possibly empty, comma separated, up to the closing bracket *)
Fixpoint rd_names (n : nat) (ts : list ftok) : option (list name * list ftok) :=
  match n with
  | O => None
  | S n' =>
    match rd_name ts with
    | Some (a, FComma :: r) =>
      match rd_names n' r with Some (l, r') => Some (a :: l, r') | None => None end
    | Some (a, r) => Some ([a], r)
    | None => None
    end
  end.

Fixpoint rd_form (n : nat) (ts : list ftok) : option (form * list ftok) :=
  match n with
  | O => None
  | S n' =>
    match ts with
    | FSendK :: r =>
      match rd_name r with
      | Some (a, FLt :: r1) =>
        match rd_name r1 with
        | Some (b, FComma :: r2) =>
          match rd_name r2 with
          | Some (c, FGt :: r3) => Some (FSend a b c, r3)
          | _ => None
          end
        | _ => None
        end
      | _ => None
      end
    | FLt :: r =>
      match rd_name r with
      | Some (p, FComma :: r1) =>
        match rd_name r1 with
        | Some (c, FGt :: FArrow :: FRecvK :: r2) =>
          match rd_name r2 with
          | Some (f, FSemi :: r3) =>
            match rd_form n' r3 with Some (k, r4) => Some (FRecv p c f k, r4) | None => None end
          | _ => None
          end
        | Some (c, FGt :: FArrow :: FSplitK :: r2) =>
          match rd_name r2 with
          | Some (f, FSemi :: r3) =>
            match rd_form n' r3 with Some (k, r4) => Some (FSplit p c f k, r4) | None => None end
          | _ => None
          end
        | _ => None
        end
      | _ => None
      end
    | FCaseK :: r =>
      match rd_name r with
      | Some (f, FLP :: FRP :: r1) => Some (FCase f BrNil, r1)
      | Some (f, FLP :: r1) =>
        match rd_branches n' r1 with
        | Some (bs, FRP :: r2) => Some (FCase f bs, r2)
        | _ => None
        end
      | _ => None
      end
    | FCloseK :: r =>
      match rd_name r with Some (c, r1) => Some (FClose c, r1) | None => None end
    | FWaitK :: r =>
      match rd_name r with
      | Some (c, FSemi :: r1) =>
        match rd_form n' r1 with Some (k, r2) => Some (FWait c k, r2) | None => None end
      | _ => None
      end
    | FFwdK :: r =>
      match rd_name r with
      | Some (a, r1) => match rd_name r1 with Some (b, r2) => Some (FFwd a b false, r2) | None => None end
      | None => None
      end
    | FCastK :: r =>
      match rd_name r with
      | Some (a, FLt :: r1) =>
        match rd_name r1 with Some (c, FGt :: r2) => Some (FCast a c, r2) | _ => None end
      | _ => None
      end
    | FDropK :: r =>
      match rd_name r with
      | Some (c, FSemi :: r1) =>
        match rd_form n' r1 with Some (k, r2) => Some (FDrop c k, r2) | None => None end
      | _ => None
      end
    | FPrintK :: FLab l :: FSemi :: r =>
      match rd_form n' r with Some (k, r1) => Some (FPrint l k, r1) | None => None end
    | FLab f :: FLP :: FRP :: r => Some (FCall f [] None, r)
    | FLab f :: FLP :: r =>
      match rd_names n' r with
      | Some (args, FRP :: r1) => Some (FCall f args None, r1)
      | _ => None
      end
    | _ =>
      match rd_name ts with
      | Some (a, FDot :: FLab l :: FLt :: r) =>
        match rd_name r with Some (c, FGt :: r1) => Some (FSel a l c, r1) | _ => None end
      | Some (x, FArrow :: FNewK :: FLP :: r) =>
        match rd_form n' r with
        | Some (b, FRP :: FSemi :: r1) =>
          match rd_form n' r1 with Some (k, r2) => Some (FNew x b k, r2) | None => None end
        | _ => None
        end
      | Some (x, FArrow :: FShiftK :: r) =>
        match rd_name r with
        | Some (f, FSemi :: r1) =>
          match rd_form n' r1 with Some (k, r2) => Some (FShift x f k, r2) | None => None end
        | _ => None
        end
      | _ => None
      end
    end
  end
with rd_branches (n : nat) (ts : list ftok) : option (branches * list ftok) :=
  match n with
  | O => None
  | S n' =>
    match ts with
    | FLab l :: FLt :: r =>
      match rd_name r with
      | Some (p, FGt :: FDArrow :: r1) =>
        match rd_form n' r1 with
        | Some (k, FPipe :: r2) =>
          match rd_branches n' r2 with Some (bs, r3) => Some (BrCons l p k bs, r3) | None => None end
        | Some (k, r2) => Some (BrCons l p k BrNil, r2)
        | None => None
        end
      | _ => None
      end
    | _ => None
    end
  end.

Definition rd_form_all (ts : list ftok) : option form :=
  match rd_form (length ts + 1) ts with
  | Some (f, []) => Some f
  | _ => None
  end.
