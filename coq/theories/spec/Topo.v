(* Topo.v — the untyped invariant `Topo` of DESIGN.md section 6, in the form the proofs of C01 / C02
   use it.

   The OBJECTS of a configuration are its processes and its buffered messages.  Every object
   PROVIDES channels (a process: its provider list; a positive message SND/SEL/CLS/CST: the channel
   it sits on — it stands for the provider that sent it; a negative message RCV/BRA/SHF: the
   continuation channel it carries; a FWD request: the providers it hands over) and REFERS to
   channels as a client (a process: the channels occurring in its body; a positive message: its
   payload; a negative message: the channel it sits on — it stands for the client that sent it —
   and its payload).

   Topo says that this is a forest:
     * a channel has at most one providing object and at most one referring object,
     * a referenced channel has a providing object (no dangling client),
     * a closed channel is referenced and provided by nobody, and its buffer is empty,
     * the edges "o provides k and refers to j" are strictly increasing for some rank of the
       channels that is bounded on the channel table (acyclicity; bounded so that descending into
       sub-trees terminates as well as ascending to the root).
   Linearity of the bodies themselves (a variable is used once on every path), which is what makes
   Topo an invariant of `step`, is not needed to USE Topo and is not part of this record. *)
From stdpp Require Import gmap strings.
Require Import Grits.Base Grits.ModeDefs Grits.Modes Grits.STypes Grits.Forms Grits.Subst Grits.TcDeps Grits.Expand
               Grits.Runtime.

Definition name_chans (n : name) : list cid := match chan n with Some c => [c] | None => [] end.

Fixpoint form_chans (f : form) : list cid :=
  match f with
  | FSend a b c => name_chans a ++ name_chans b ++ name_chans c
  | FRecv p c fr k => name_chans fr ++ form_chans k
  | FSel a _ c => name_chans a ++ name_chans c
  | FCase fr bs => name_chans fr ++ brs_chans bs
  | FNew x b k => form_chans b ++ form_chans k
  | FClose c => name_chans c
  | FWait c k => name_chans c ++ form_chans k
  | FFwd a b _ => name_chans a ++ name_chans b
  | FSplit x y fr k => name_chans fr ++ form_chans k
  | FCall _ args _ => flat_map name_chans args
  | FCast a c => name_chans a ++ name_chans c
  | FShift x fr k => name_chans fr ++ form_chans k
  | FDrop c k => name_chans c ++ form_chans k
  | FPrint _ k => form_chans k
  end
with brs_chans (b : branches) : list cid :=
  match b with
  | BrNil => []
  | BrCons _ p k r => form_chans k ++ brs_chans r
  end.

Definition is_pos_rule (r : rule) : bool :=
  match r with RSND | RSEL | RCLS | RCST => true | _ => false end.

Inductive obj : Type :=
| OProc (self : pid) (p : proc)
| OMsg (k : cid) (m : msg).

Definition obj_in (c : config) (o : obj) : Prop :=
  match o with
  | OProc self p => procs c !! self = Some p
  | OMsg k m => exists st, chans c !! k = Some st /\ ch_buf st = Some m
  end.

Definition provides (o : obj) : list cid :=
  match o with
  | OProc _ p => cids_of (pr_provs p)
  | OMsg k m =>
    match m_rule m with
    | RSND | RSEL | RCLS | RCST => [k]
    | RRCV => name_chans (m_c2 m)
    | RBRA | RSHF => name_chans (m_c1 m)
    | RFWD => cids_of (m_provs m)
    | RGC => []
    end
  end.

Definition refs (o : obj) : list cid :=
  match o with
  | OProc _ p => form_chans (pr_body0 p)
  | OMsg k m =>
    match m_rule m with
    | RSND => name_chans (m_c1 m) ++ name_chans (m_c2 m)
    | RSEL | RCST => name_chans (m_c1 m)
    | RCLS => []
    | RRCV => k :: name_chans (m_c1 m)
    | RBRA | RSHF | RFWD | RGC => [k]
    end
  end.

Record Topo (c : config) : Prop := {
  topo_prov_unique : forall o1 o2 k, obj_in c o1 -> obj_in c o2 -> k ∈ provides o1 -> k ∈ provides o2 -> o1 = o2;
  topo_ref_unique : forall o1 o2 k, obj_in c o1 -> obj_in c o2 -> k ∈ refs o1 -> k ∈ refs o2 -> o1 = o2;
  topo_ref_prov : forall o k, obj_in c o -> k ∈ refs o -> exists o', obj_in c o' /\ k ∈ provides o';
  topo_closed : forall k st, chans c !! k = Some st -> ch_closed st = true ->
                  ch_buf st = None /\ forall o, obj_in c o -> k ∉ provides o /\ k ∉ refs o;
  topo_rank : exists (rk : cid -> nat) (M : nat),
                (forall k, is_Some (chans c !! k) -> (rk k <= M)%nat) /\
                forall o k j, obj_in c o -> k ∈ provides o -> j ∈ refs o -> (rk k < rk j)%nat
}.

(* ------------------------------------------------------------------ the channel a process acts on is one of its own *)
Lemma self_chan_provides p k : self_chan p = Some k -> k ∈ cids_of (pr_provs p).
Proof.
  unfold self_chan, prov0. destruct (pr_provs p) as [|n r]; simpl; [discriminate|].
  intros H. rewrite H. set_solver.
Qed.

Lemma name_chans_elem n k : chan n = Some k -> k ∈ name_chans n.
Proof. unfold name_chans. intros ->. set_solver. Qed.

Lemma send_on_chan p t m k m' : send_on p t m = ASend k m' -> t = Some k /\ m' = m.
Proof. unfold send_on. destruct (multi p); [discriminate|]. destruct t; [|discriminate]. intros [= -> ->]. auto. Qed.
Lemma recv_on_chan p t k : recv_on p t = ARecv k -> t = Some k.
Proof. unfold recv_on. destruct t; [|discriminate]. destruct (multi p); [discriminate|]. intros [= ->]. auto. Qed.

(* polarized modes: the channel of the next send / receive is a provider entry or occurs in the body *)
Lemma action_chan_own md D p k :
  is_np md = false ->
  (action_of md D p = ARecv k \/ exists m, action_of md D p = ASend k m) ->
  k ∈ cids_of (pr_provs p) \/ k ∈ form_chans (pr_body0 p).
Proof.
  intros Hnp H.
  assert (Hs : forall t m, (send_on p t m = ARecv k \/ exists m', send_on p t m = ASend k m') -> t = Some k).
  { intros t m [H1|[m' H1]].
    - unfold send_on in H1. destruct (multi p); [discriminate|]. destruct t; discriminate.
    - apply send_on_chan in H1. tauto. }
  assert (Hr : forall t, (recv_on p t = ARecv k \/ exists m', recv_on p t = ASend k m') -> t = Some k).
  { intros t [H1|[m' H1]].
    - apply recv_on_chan in H1. auto.
    - unfold recv_on in H1. destruct t; [|discriminate]. destruct (multi p); discriminate. }
  assert (Hi : ~ (internal p = ARecv k \/ exists m', internal p = ASend k m')).
  { unfold internal. intros [H1|[m' H1]]; destruct (multi p); discriminate. }
  assert (Hself : forall t, t = Some k -> self_chan p = t -> k ∈ cids_of (pr_provs p)).
  { intros t -> H1. apply self_chan_provides; auto. }
  unfold action_of in H. destruct (pr_body0 p) eqn:Eb; simpl.
  - (* FSend *) destruct (is_self to).
    + left. eapply Hself; [eapply Hs; eauto|reflexivity].
    + destruct (negb (is_self cont)); [destruct H as [H|[m H]]; discriminate|].
      right. apply Hs in H. apply name_chans_elem in H. set_solver.
  - (* FRecv *) destruct (is_self from).
    + left. eapply Hself; [eapply Hr; eauto|reflexivity].
    + right. apply Hr in H. apply name_chans_elem in H. set_solver.
  - (* FSel *) destruct (is_self to).
    + left. eapply Hself; [eapply Hs; eauto|reflexivity].
    + destruct (is_self cont); [|destruct H as [H|[m H]]; discriminate].
      right. apply Hs in H. apply name_chans_elem in H. set_solver.
  - (* FCase *) destruct (is_self from).
    + left. eapply Hself; [eapply Hr; eauto|reflexivity].
    + right. apply Hr in H. apply name_chans_elem in H. set_solver.
  - exfalso; eauto.
  - (* FClose *) destruct (is_self c).
    + left. eapply Hself; [eapply Hs; eauto|reflexivity].
    + destruct H as [H|[m H]]; discriminate.
  - (* FWait *) destruct (is_self c); [destruct H as [H|[m H]]; discriminate|].
    right. apply Hr in H. apply name_chans_elem in H. set_solver.
  - (* FFwd *) destruct (negb (is_self to)); [destruct H as [H|[m H]]; discriminate|].
    rewrite Hnp in H. right.
    destruct (fwd_polarity D from) as [[| |]|w|w]; try (destruct H as [H|[m H]]; discriminate);
      destruct (chan from) as [c|] eqn:Ec; try (destruct H as [H|[m H]]; discriminate);
      assert (c = k) by (destruct H as [H|[m H]]; congruence); subst c;
      apply name_chans_elem in Ec; set_solver.
  - (* FSplit *) destruct (is_self from); [destruct H as [H|[m H]]; discriminate|exfalso; eauto].
  - exfalso; eauto.
  - (* FCast *) destruct (is_self to).
    + left. eapply Hself; [eapply Hs; eauto|reflexivity].
    + destruct (negb (is_self cont)); [destruct H as [H|[m H]]; discriminate|].
      right. apply Hs in H. apply name_chans_elem in H. set_solver.
  - (* FShift *) destruct (is_self from).
    + left. eapply Hself; [eapply Hr; eauto|reflexivity].
    + right. apply Hr in H. apply name_chans_elem in H. set_solver.
  - (* FDrop *) destruct (is_self c); [destruct H as [H|[m H]]; discriminate|exfalso; eauto].
  - exfalso; eauto.
Qed.

(* Topo gives the side condition of the safety theorem *)
Lemma topo_closed_unused md D c :
  is_np md = false -> Topo c ->
  forall self p k st, procs c !! self = Some p ->
    (action_of md D p = ARecv k \/ exists m, action_of md D p = ASend k m) ->
    chans c !! k = Some st -> ch_closed st = false.
Proof.
  intros Hnp Ht self p k st Hp Ha Hk. destruct (ch_closed st) eqn:Ecl; auto. exfalso.
  destruct (topo_closed c Ht k st Hk Ecl) as [_ Hno].
  destruct (Hno (OProc self p) Hp) as [H1 H2].
  destruct (action_chan_own md D p k Hnp Ha); auto.
Qed.
