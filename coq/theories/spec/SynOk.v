(* spec/SynOk.v — "every type occurring in the program is syntactically what the parser produces"
   (EqualWF.syn_ok: names and labels are LABEL lexemes, choices are non-empty), as a BOOLEAN on
   programs.  It is the side condition under which EqualType's printed memo keys are unambiguous
   (C08 / C15), hence the premise of the bisimilarity instance of C07.  Definitions only; the model
   driver evaluates prog_syn_ok on every parsed program of the C07 check. *)
Require Import Grits.Base Grits.ModeDefs Grits.STypes Grits.Forms Grits.EqualWF.

Definition opt_syn (t : option sty) : bool := match t with Some t => syn_ok t | None => true end.
Definition name_syn (n : name) : bool := opt_syn (nty n).

Fixpoint form_syn (f : form) : bool :=
  match f with
  | FSend a b c => name_syn a && name_syn b && name_syn c
  | FRecv p c fr k => name_syn p && name_syn c && name_syn fr && form_syn k
  | FSel a _ c => name_syn a && name_syn c
  | FCase fr bs => name_syn fr && branches_syn bs
  | FNew x b k => name_syn x && form_syn b && form_syn k
  | FClose c => name_syn c
  | FWait c k => name_syn c && form_syn k
  | FFwd a b _ => name_syn a && name_syn b
  | FSplit x y fr k => name_syn x && name_syn y && name_syn fr && form_syn k
  | FCall _ args pt => forallb name_syn args && opt_syn pt
  | FCast a c => name_syn a && name_syn c
  | FShift x fr k => name_syn x && name_syn fr && form_syn k
  | FDrop c k => name_syn c && form_syn k
  | FPrint _ k => form_syn k
  end
with branches_syn (b : branches) : bool :=
  match b with
  | BrNil => true
  | BrCons _ p k r => name_syn p && form_syn k && branches_syn r
  end.

Definition fun_syn (f : fundef) : bool :=
  opt_syn (fn_type f) && forallb name_syn (fn_params f) && form_syn (fn_body f).
Definition proc_syn (q : procdef) : bool :=
  opt_syn (pr_type q) && forallb name_syn (pr_providers q) && form_syn (pr_body q).
Definition env_syn (D : tenv) : bool := forallb (fun d => syn_ok (td_body d)) D.

Definition prog_syn_ok (p : program) : bool :=
  env_syn (p_types p) && forallb fun_syn (p_funs p) && forallb proc_syn (p_procs p) &&
  forallb name_syn (p_assumed p).
