(* RtTyping.v — the run-time typing of configurations (the invariant `Typed` of DESIGN.md section 6).
   STRUCTURAL: one global assignment Δ : gmap cid sty of session types to channels (a channel keeps
   its type for life); every process body is typed under the whole Δ for its channels, with its
   provider channel at the type Δ gives it; every buffered message is typed as the axiom it stands
   for.  No context splitting, no emptiness at axioms, no mode side conditions: linear use is the
   business of the untyped invariant `Topo` (spec/Topo.v).

   Types are compared up to a relation `teq` (a parameter: instantiated with the equi-recursive
   equality of spec/TypEq.v); the laws the proofs need from it are collected in `teq_laws`.

   Names.  A name occurrence in a body is
     * a PROVIDER designator: no channel, and either `is_self` (identifier in the set `rs` of
       identifiers that self names may carry in this scope: "" for the keyword / for the self names
       the interpreter creates, the explicit provider identifier inside a function body), or the
       identifier `sh` bound for the provider by an enclosing receive / case / shift on self (the
       checker's `shadow`; the interpreter substitutes a self name for it when the binder fires);
     * a CLIENT occurrence: not `is_self`, and either a channel typed by Δ or a variable (no channel)
       typed by the variable context Γ and different from `sh`.
   Side conditions that the static checker guarantees and the dynamics need are part of the rules:
   binders carry no channel and a non-empty identifier (the interpreter's self names have identifier
   ""), the two binders of a receive differ, a binder that does not rebind the provider differs from
   `sh` (F22), a binder that rebinds the provider hides a variable of the same name (`delete`: the
   context here never shrinks, the checker's is linear, so a consumed name may still be in Γ), and
   inside the scope of a binder x no self name carries the identifier x (`rs ∖ {x}`:
   Name.Substitute matches uninitialised names by identifier only — F24, F25). *)
From stdpp Require Import gmap strings.
Require Import Grits.Base Grits.ModeDefs Grits.Modes Grits.STypes Grits.Forms Grits.Subst Grits.TcDeps Grits.Expand
               Grits.Runtime.

Definition binder (x : name) : Prop := chan x = None /\ ident x <> "".
(* the binder that re-binds the PROVIDER (continuation of a receive on self, payload of a branch of a
   case on self, name of a shift on self): it may also be the keyword `self` itself (identifier "") —
   `<x, self> <- recv self; k` — the substitution it triggers then maps the self names of k to self names
   (which is why the identifier "" stays in the set rs of the continuation) *)
Definition pbinder (x : name) : Prop := chan x = None.
Lemma binder_pbinder x : binder x -> pbinder x.
Proof. intros [H _]. exact H. Qed.
Global Hint Resolve binder_pbinder : core.

Section RtTyping.
Variable D : tenv.
Variable F : list fundef.
Variable teq : sty -> sty -> Prop.

(* head unfolding of type names *)
Inductive whd : sty -> sty -> Prop :=
| whd_here t : is_name t = false -> whd t t
| whd_name x m d u : tlookup D x = Some d -> whd (td_body d) u -> whd (TName x m) u.

Definition brs_rel (R : sty -> sty -> Prop) (bs bs' : brs) : Prop :=
  (forall l a, find_br l bs = Some a -> exists a', find_br l bs' = Some a' /\ R a a') /\
  (forall l a', find_br l bs' = Some a' -> exists a, find_br l bs = Some a /\ R a a').

(* two head-normal types have the same head constructor and related components *)
Definition head_rel (R : sty -> sty -> Prop) (u v : sty) : Prop :=
  match u, v with
  | TUnit _, TUnit _ => True
  | TTensor a b _, TTensor a' b' _ => R a a' /\ R b b'
  | TLolli a b _, TLolli a' b' _ => R a a' /\ R b b'
  | TPlus bs _, TPlus bs' _ => brs_rel R bs bs'
  | TWith bs _, TWith bs' _ => brs_rel R bs bs'
  | TUp _ _ a, TUp _ _ a' => R a a'
  | TDown _ _ a, TDown _ _ a' => R a a'
  | _, _ => False
  end.

(* what the proofs use of type equality (theorems of spec/TypEq.v about bisimilarity on the
   well-formed, contractive environment D) *)
Record teq_laws : Prop := {
  teq_refl : forall t, teq t t;
  teq_sym : forall s t, teq s t -> teq t s;
  teq_trans : forall s t u, teq s t -> teq t u -> teq s u;
  (* equal types unfold to heads of the same kind, with equal components *)
  teq_head : forall s t u, teq s t -> whd s u -> exists v, whd t v /\ head_rel teq u v
}.

(* ------------------------------------------------------------------ names *)
Definition prov_name (sh : option string) (rs : gset string) (n : name) : Prop :=
  chan n = None /\
  ((is_self n = true /\ ident n ∈ rs) \/ (is_self n = false /\ sh = Some (ident n))).

(* the annotation the checker leaves on every client occurrence: an unfolded type equal to the type
   of the name (the interpreter reads it for the polarity of forwards, also of the forwards it
   creates itself when a channel is dropped) *)
Definition ann_ok (n : name) (t : sty) : Prop :=
  exists t0, nty n = Some t0 /\ is_name t0 = false /\ teq t0 t.

Definition client_ty (Δ : gmap cid sty) (Γ : gmap string sty) (sh : option string) (n : name) (t : sty) : Prop :=
  is_self n = false /\ ann_ok n t /\
  match chan n with
  | Some c => exists t', Δ !! c = Some t' /\ teq t' t
  | None => sh <> Some (ident n) /\ exists t', Γ !! ident n = Some t' /\ teq t' t
  end.

(* a name that must be a channel: message payloads, closed bodies *)
Definition chan_ty (Δ : gmap cid sty) (n : name) (t : sty) : Prop := client_ty Δ ∅ None n t.
(* a provider entry of a process / the continuation channel a negative message carries *)
Definition prov_ty (Δ : gmap cid sty) (n : name) (t : sty) : Prop :=
  exists c t', chan n = Some c /\ Δ !! c = Some t' /\ teq t' t.

Definition pol_of_ty (t : sty) (p : polarity) : Prop := exists u, whd t u /\ polarity_of u = Ok p.

(* every branch of the type is handled *)
Definition covers (bs : brs) (b : branches) : Prop :=
  forall l a, find_br l bs = Some a -> find_branch l b <> None.

Definition args_ok (Δ : gmap cid sty) (Γ : gmap string sty) (sh : option string) (args ps : list name) : Prop :=
  Forall2 (fun a p => exists t, nty p = Some t /\ client_ty Δ Γ sh a t) args ps.

(* ------------------------------------------------------------------ process bodies: the connectives, weakening (drop) and contraction (split)
   typed Δ Γ sh rs s f : f provides s along its provider, using the channels of Δ and the variables of Γ *)
Inductive typed (Δ : gmap cid sty) : gmap string sty -> option string -> gset string -> sty -> form -> Prop :=
(* ⊗R : send self<pay, cont> *)
| T_SendP Γ sh rs s to pay cont A B m :
    prov_name sh rs to -> whd s (TTensor A B m) ->
    client_ty Δ Γ sh pay A -> client_ty Δ Γ sh cont B ->
    typed Δ Γ sh rs s (FSend to pay cont)
(* ⊸L : send to<pay, self> *)
| T_SendC Γ sh rs s to pay cont T A B m :
    client_ty Δ Γ sh to T -> whd T (TLolli A B m) ->
    client_ty Δ Γ sh pay A -> prov_name sh rs cont -> teq B s ->
    typed Δ Γ sh rs s (FSend to pay cont)
(* ⊸R : <pay, cont> <- recv self; k   (cont names the provider in k) *)
| T_RecvP Γ sh rs s pay cont from k A B m :
    prov_name sh rs from -> whd s (TLolli A B m) ->
    binder pay -> pbinder cont -> ident pay <> ident cont ->
    typed Δ (<[ident pay := A]> (delete (ident cont) Γ)) (Some (ident cont)) (rs ∖ {[ident pay]} ∖ ({[ident cont]} ∖ {[""]})) B k ->
    typed Δ Γ sh rs s (FRecv pay cont from k)
(* ⊗L : <pay, cont> <- recv from; k *)
| T_RecvC Γ sh rs s pay cont from k T A B m :
    client_ty Δ Γ sh from T -> whd T (TTensor A B m) ->
    binder pay -> binder cont -> ident pay <> ident cont ->
    sh <> Some (ident pay) -> sh <> Some (ident cont) ->
    typed Δ (<[ident cont := B]> (<[ident pay := A]> Γ)) sh (rs ∖ {[ident pay]} ∖ {[ident cont]}) s k ->
    typed Δ Γ sh rs s (FRecv pay cont from k)
(* ⊕R : self.l<cont> *)
| T_SelP Γ sh rs s to l cont bs m A :
    prov_name sh rs to -> whd s (TPlus bs m) -> find_br l bs = Some A ->
    client_ty Δ Γ sh cont A ->
    typed Δ Γ sh rs s (FSel to l cont)
(* &L : to.l<self> *)
| T_SelC Γ sh rs s to l cont T bs m A :
    client_ty Δ Γ sh to T -> whd T (TWith bs m) -> find_br l bs = Some A ->
    prov_name sh rs cont -> teq A s ->
    typed Δ Γ sh rs s (FSel to l cont)
(* &R : case self (l<pay> => k ...) *)
| T_CaseP Γ sh rs s from b bs m :
    prov_name sh rs from -> whd s (TWith bs m) -> covers bs b ->
    typed_brs_p Δ Γ rs bs b ->
    typed Δ Γ sh rs s (FCase from b)
(* ⊕L : case from (l<pay> => k ...) *)
| T_CaseC Γ sh rs s from b T bs m :
    client_ty Δ Γ sh from T -> whd T (TPlus bs m) -> covers bs b ->
    typed_brs_c Δ Γ sh rs s bs b ->
    typed Δ Γ sh rs s (FCase from b)
(* cut : x <- new body; k   (the body is spawned as it is: the new name does not occur in it as provider) *)
| T_New Γ sh rs s x body k A :
    binder x -> sh <> Some (ident x) ->
    typed Δ Γ None rs A body ->
    typed Δ (<[ident x := A]> Γ) sh (rs ∖ {[ident x]}) s k ->
    typed Δ Γ sh rs s (FNew x body k)
(* 1R *)
| T_Close Γ sh rs s c m :
    prov_name sh rs c -> whd s (TUnit m) ->
    typed Δ Γ sh rs s (FClose c)
(* 1L *)
| T_Wait Γ sh rs s c k T m :
    client_ty Δ Γ sh c T -> whd T (TUnit m) ->
    typed Δ Γ sh rs s k ->
    typed Δ Γ sh rs s (FWait c k)
(* id : fwd self from.  The interpreter reads the polarity off the annotation the checker left on
   `from` (an unfolded type: part of `client_ty`).  d = true: a droppable forward, created by the
   interpreter only (drop / GC): it drops what it receives, or asks the provider to drop itself. *)
| T_Fwd Γ sh rs s to from d :
    prov_name sh rs to -> client_ty Δ Γ sh from s ->
    typed Δ Γ sh rs s (FFwd to from d)
(* weakening : drop c; k   (the interpreter spawns a droppable forward that reclaims the provider of c) *)
| T_Drop Γ sh rs s c k T :
    client_ty Δ Γ sh c T ->
    typed Δ Γ sh rs s k ->
    typed Δ Γ sh rs s (FDrop c k)
(* call : f(args) / f(self, args) *)
| T_Call Γ sh rs s fn args pt fd tf :
    get_function F fn (length args) = Some fd ->
    fn_type fd = Some tf -> teq tf s ->
    ((length args = length (fn_params fd) /\ args_ok Δ Γ sh args (fn_params fd)) \/
     (exists a0 rest, args = a0 :: rest /\ length rest = length (fn_params fd) /\
                      prov_name sh rs a0 /\ args_ok Δ Γ sh rest (fn_params fd))) ->
    typed Δ Γ sh rs s (FCall fn args pt)
(* ↓R : cast self<cont> *)
| T_CastP Γ sh rs s to cont fm tm A :
    prov_name sh rs to -> whd s (TDown fm tm A) -> client_ty Δ Γ sh cont A ->
    typed Δ Γ sh rs s (FCast to cont)
(* ↑L : cast to<self> *)
| T_CastC Γ sh rs s to cont T fm tm A :
    client_ty Δ Γ sh to T -> whd T (TUp fm tm A) -> prov_name sh rs cont -> teq A s ->
    typed Δ Γ sh rs s (FCast to cont)
(* ↑R : x <- shift self; k   (x names the provider in k) *)
| T_ShiftP Γ sh rs s x from k fm tm A :
    prov_name sh rs from -> whd s (TUp fm tm A) -> pbinder x ->
    typed Δ (delete (ident x) Γ) (Some (ident x)) (rs ∖ ({[ident x]} ∖ {[""]})) A k ->
    typed Δ Γ sh rs s (FShift x from k)
(* ↓L : x <- shift from; k *)
| T_ShiftC Γ sh rs s x from k T fm tm A :
    client_ty Δ Γ sh from T -> whd T (TDown fm tm A) -> binder x -> sh <> Some (ident x) ->
    typed Δ (<[ident x := A]> Γ) sh (rs ∖ {[ident x]}) s k ->
    typed Δ Γ sh rs s (FShift x from k)
(* contraction : <x, y> <- split from; k   (the interpreter spawns a forward with the two new providers,
   which makes the provider of `from` duplicate itself) *)
| T_Split Γ sh rs s x y from k T :
    client_ty Δ Γ sh from T ->
    binder x -> binder y -> ident x <> ident y ->
    sh <> Some (ident x) -> sh <> Some (ident y) ->
    typed Δ (<[ident y := T]> (<[ident x := T]> Γ)) sh (rs ∖ {[ident x]} ∖ {[ident y]}) s k ->
    typed Δ Γ sh rs s (FSplit x y from k)
| T_Print Γ sh rs s l k :
    typed Δ Γ sh rs s k ->
    typed Δ Γ sh rs s (FPrint l k)
(* branches of a case on self: the payload names the provider in the branch *)
with typed_brs_p (Δ : gmap cid sty) : gmap string sty -> gset string -> brs -> branches -> Prop :=
| TBP_nil Γ rs bs : typed_brs_p Δ Γ rs bs BrNil
| TBP_cons Γ rs bs l pay k r A :
    find_br l bs = Some A -> pbinder pay ->
    typed Δ (delete (ident pay) Γ) (Some (ident pay)) (rs ∖ ({[ident pay]} ∖ {[""]})) A k ->
    typed_brs_p Δ Γ rs bs r ->
    typed_brs_p Δ Γ rs bs (BrCons l pay k r)
(* branches of a case on a client *)
with typed_brs_c (Δ : gmap cid sty) : gmap string sty -> option string -> gset string -> sty -> brs -> branches -> Prop :=
| TBC_nil Γ sh rs s bs : typed_brs_c Δ Γ sh rs s bs BrNil
| TBC_cons Γ sh rs s bs l pay k r A :
    find_br l bs = Some A -> binder pay -> sh <> Some (ident pay) ->
    typed Δ (<[ident pay := A]> Γ) sh (rs ∖ {[ident pay]}) s k ->
    typed_brs_c Δ Γ sh rs s bs r ->
    typed_brs_c Δ Γ sh rs s bs (BrCons l pay k r).

Scheme typed_ind2 := Minimality for typed Sort Prop
with typed_brs_p_ind2 := Minimality for typed_brs_p Sort Prop
with typed_brs_c_ind2 := Minimality for typed_brs_c Sort Prop.
Combined Scheme typed_mutind from typed_ind2, typed_brs_p_ind2, typed_brs_c_ind2.

(* ------------------------------------------------------------------ the function table is typed once *)
Definition params_ctx (ps : list name) : gmap string sty :=
  list_to_map (omap (fun p => match nty p with Some t => Some (ident p, t) | None => None end) ps).

Definition fun_ok (fd : fundef) : Prop :=
  exists tf, fn_type fd = Some tf /\
    Forall binder (fn_params fd) /\ NoDup (map ident (fn_params fd)) /\
    Forall (fun p => is_Some (nty p)) (fn_params fd) /\
    match fn_explicit fd with
    | Some ep => chan ep = None /\ ident ep ∉ map ident (fn_params fd) /\
                 typed ∅ (params_ctx (fn_params fd)) None {[ ""; ident ep ]} tf (fn_body fd)
    | None => typed ∅ (params_ctx (fn_params fd)) None {[ "" ]} tf (fn_body fd)
    end.
Definition funs_typed : Prop := Forall fun_ok F.

(* ------------------------------------------------------------------ messages, processes, configurations *)
Definition msg_typed (Δ : gmap cid sty) (k : cid) (m : msg) : Prop :=
  exists T, Δ !! k = Some T /\
  match m_rule m with
  | RSND => exists A B md, whd T (TTensor A B md) /\ chan_ty Δ (m_c1 m) A /\ chan_ty Δ (m_c2 m) B
  | RRCV => exists A B md, whd T (TLolli A B md) /\ chan_ty Δ (m_c1 m) A /\ prov_ty Δ (m_c2 m) B
  | RSEL => exists bs md A, whd T (TPlus bs md) /\ find_br (m_label m) bs = Some A /\ chan_ty Δ (m_c1 m) A /\
                            chan (m_c2 m) = None
  | RBRA => exists bs md A, whd T (TWith bs md) /\ find_br (m_label m) bs = Some A /\ prov_ty Δ (m_c1 m) A
  | RCLS => exists md, whd T (TUnit md) /\ chan (m_c1 m) = None /\ chan (m_c2 m) = None
  | RCST => exists fm tm A, whd T (TDown fm tm A) /\ chan_ty Δ (m_c1 m) A /\ chan (m_c2 m) = None
  | RSHF => exists fm tm A, whd T (TUp fm tm A) /\ prov_ty Δ (m_c1 m) A
  | RFWD => pol_of_ty T Neg /\ m_provs m <> [] /\ Forall (fun q => prov_ty Δ q T) (m_provs m)
  | RGC => pol_of_ty T Neg       (* a request to the provider to drop itself *)
  end.

(* a process provides the same type along all its providers (several after a split: it then
   duplicates itself before doing anything else) *)
Definition proc_typed (Δ : gmap cid sty) (p : proc) : Prop :=
  exists s rs, pr_provs p <> [] /\ Forall (fun n => prov_ty Δ n s) (pr_provs p) /\
               typed Δ ∅ None rs s (pr_body0 p).

(* identifiers in the private namespace of a live process above its counter are unused *)
Definition ns_fresh (Δ : gmap cid sty) (c : config) : Prop :=
  forall q pq m l, procs c !! q = Some pq -> (pr_next pq <= m)%nat ->
    Δ !! (q ++ m :: l) = None /\ procs c !! (q ++ m :: l) = None.

Record cfg_typed (Δ : gmap cid sty) (c : config) : Prop := {
  ct_procs : forall self p, procs c !! self = Some p -> proc_typed Δ p;
  ct_msgs : forall k st m, chans c !! k = Some st -> ch_buf st = Some m -> msg_typed Δ k m;
  ct_dom : forall k, is_Some (Δ !! k) -> is_Some (chans c !! k);
  ct_fresh : ns_fresh Δ c
}.

End RtTyping.
