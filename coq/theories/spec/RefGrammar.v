(* RefGrammar.v — the REFERENCE grammar of Grits programs: the production list of parser/parser.y as documented
   (README, section "Grammar") at the pinned commit, in goyacc's numbering: terminals > 0 (4 = LABEL, ...),
   nonterminals < 0 (minus goyacc's nonterminal number: -1 statements, -2 process_def, ..., -22 program).
   ref_lhs p / ref_rhs p are the two sides of production p (1..75; 0 is goyacc's $accept).
   This file is a SPECIFICATION and is NOT regenerated: it was taken once from the pinned tree's parser.y (the list
   below is the `%%` section of parser.y production by production) and is committed; props/C12.v proves that the grammar
   RECOVERED from the current LR tables (gen/LRTables.v tR1, gen/LRCert.v tRhs - regenerated from /repo on every
   run) is exactly this one, so that a change of the grammar in parser.y - even one that regenerates consistent
   tables - breaks a proof obligation instead of silently moving the specification. *)
Require Import Grits.Base.
Local Open Scope Z_scope.

Definition ref_lhs_tab : list Z := [0; 21; 22; 22; 1; 1; 1; 1; 1; 1; 1; 1; 1; 1; 2; 2; 7; 7; 7; 7; 7; 7; 7; 7; 7; 7; 7; 7; 7; 7; 7; 7; 16; 16; 16; 10; 10; 11; 11; 11; 12; 12; 12; 13; 13; 14; 14; 9; 9; 8; 8; 8; 8; 5; 3; 3; 3; 3; 4; 17; 17; 19; 19; 19; 19; 19; 19; 19; 19; 19; 18; 18; 15; 20; 20; 6].
Definition ref_rhs_tab : list (list Z) := [[]; [(-22)]; [(-7)]; [(-1)]; [(-2)]; [(-2); (-1)]; [(-3)]; [(-3); (-1)]; [(-4)]; [(-4); (-1)]; [(-5)]; [(-5); (-1)]; [(-6)]; [(-6); (-1)]; [42; 16; (-10); 17; 9; (-7)]; [42; 16; (-10); 17; 12; (-17); 9; (-7)]; [21; (-8); 18; (-8); 13; (-8); 19]; [18; (-8); 13; (-8); 19; 5; 22; (-8); 11; (-7)]; [(-8); 10; 4; 18; (-8); 19]; [23; (-8); 14; (-16); 15]; [(-8); 5; 35; (-7); 11; (-7)]; [4; 12; (-17); 5; 35; (-7); 11; (-7)]; [4; 14; (-11); 15]; [24; (-8)]; [43; (-8); (-8)]; [18; (-8); 13; (-8); 19; 5; 33; (-8); 11; (-7)]; [25; (-8); 11; (-7)]; [26; (-8); 18; (-8); 19]; [(-8); 5; 27; (-8); 11; (-7)]; [32; (-8); 11; (-7)]; [14; (-7); 15]; [45; 4; 11; (-7)]; []; [4; 18; (-8); 19; 6; (-7)]; [(-16); 20; 4; 18; (-8); 19; 6; (-7)]; [(-8)]; [(-8); 13; (-10)]; []; [(-8)]; [(-8); 13; (-10)]; []; [(-9)]; [(-9); 13; (-14)]; []; [13; (-12)]; [(-9)]; [(-9); 13; (-14)]; [4]; [4; 12; (-17)]; [44]; [(-20); 44]; [4]; [(-20); 4]; [55; (-14)]; [38; 4; 14; (-12); 15; 9; (-7)]; [38; 4; 14; (-12); 15; 12; (-17); 9; (-7)]; [38; 4; 16; 4; (-13); 17; 9; (-7)]; [38; 4; 16; 4; 12; (-17); (-13); 17; 9; (-7)]; [37; 4; 9; (-17)]; [(-19)]; [(-15); (-19)]; [4]; [50]; [46; 51; (-18); 52]; [49; 51; (-18); 52]; [(-19); 48; (-19)]; [(-19); 53; (-19)]; [14; (-19); 15]; [(-15); 7; (-15); (-19)]; [(-15); 8; (-15); (-19)]; [4; 12; (-19)]; [4; 12; (-19); 13; (-18)]; [4]; [46]; [47]; [56; 4; 14; 15]].
