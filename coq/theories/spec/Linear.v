(* spec/Linear.v — the substructural discipline of C05 as a specification that is NOT an algorithm
   of the checker: an untyped path-counting semantics of process terms.

   Reading of names.  An occurrence of a name is a PROVIDER REFERENCE when it is `self` or when it
   is spelled like the name currently bound for the provider (`sh`: the continuation name of a
   receive / shift on self, the payload name of a branch of `case self`).  Every other occurrence
   is a use of a context channel.  In the body of a cut the provider is referred to as `self`
   only (the name bound by the cut is not in scope in the body: an occurrence of that identifier
   in the body denotes the channel of the enclosing context).

   Control paths.  A term branches only at `case`; a cut contributes its body and its continuation
   to the same path.  `uses sh x f` has one entry per control path of f: the number of consuming
   occurrences of the context name x on that path.  A binder for x (payload / continuation of a
   receive on a client, payload of a receive on self, payload of a branch of a case on a client,
   results of a split, continuation of a shift on a client, the name of a cut in the continuation
   of the cut) ends the scope of the outer x: the continuation contributes 0.  `drop x` and
   `split x` are counted as the use of x (their mode side conditions are stated in Sequents.v /
   LinearModes below, where the types are known).

   No types occur in the discipline for a body (types appear only in the program-level clause for
   multi-name declarations at the end of this file). *)
Require Import Grits.Base Grits.ModeDefs Grits.Modes Grits.STypes Grits.Forms Grits.Subst Grits.Infer.

Definition prov_ref (sh : option string) (n : name) : bool :=
  is_self n || match sh with Some s => String.eqb (ident n) s | None => false end.

(* consuming occurrence of the context name x *)
Definition occ (sh : option string) (x : string) (n : name) : nat :=
  if prov_ref sh n then 0 else if String.eqb (ident n) x then 1 else 0.

Definition zeros (l : list nat) : list nat := map (fun _ => 0) l.
Definition binds (bs : list name) (x : string) : bool := existsb (fun b => String.eqb (ident b) x) bs.
(* the continuation of a binder of x says nothing about the outer x *)
Definition hide (bs : list name) (x : string) (l : list nat) : list nat := if binds bs x then zeros l else l.
Definition addl (a : nat) (l : list nat) : list nat := map (Nat.add a) l.
(* two parts of the same path *)
Definition cross (l1 l2 : list nat) : list nat := flat_map (fun a => addl a l2) l1.
Definition sum_occ (sh : option string) (x : string) (ns : list name) : nat :=
  fold_right (fun n acc => occ sh x n + acc) 0 ns.

Fixpoint uses (sh : option string) (x : string) (f : form) : list nat :=
  match f with
  | FSend a b c => [occ sh x a + occ sh x b + occ sh x c]
  | FRecv p c fr k =>
    if prov_ref sh fr then hide [p] x (uses (Some (ident c)) x k)
    else addl (occ sh x fr) (hide [p; c] x (uses sh x k))
  | FSel a _ c => [occ sh x a + occ sh x c]
  | FCase fr bs =>
    if prov_ref sh fr then uses_bp x bs
    else addl (occ sh x fr) (uses_bc sh x bs)
  | FNew y b k => cross (uses None x b) (hide [y] x (uses sh x k))
  | FClose c => [occ sh x c]
  | FWait c k => addl (occ sh x c) (uses sh x k)
  | FFwd a b _ => [occ sh x a + occ sh x b]
  | FSplit a b fr k => addl (occ sh x fr) (hide [a; b] x (uses sh x k))
  | FCall _ args _ => [sum_occ sh x args]
  | FCast a c => [occ sh x a + occ sh x c]
  | FShift y fr k =>
    if prov_ref sh fr then uses (Some (ident y)) x k
    else addl (occ sh x fr) (hide [y] x (uses sh x k))
  | FDrop c k => addl (occ sh x c) (uses sh x k)
  | FPrint _ k => uses sh x k
  end
with uses_bp (x : string) (b : branches) : list nat :=     (* branches of `case self` *)
  match b with
  | BrNil => []
  | BrCons _ p k r => uses (Some (ident p)) x k ++ uses_bp x r
  end
with uses_bc (sh : option string) (x : string) (b : branches) : list nat :=   (* branches of a case on a client *)
  match b with
  | BrNil => []
  | BrCons _ p k r => hide [p] x (uses sh x k) ++ uses_bc sh x r
  end.

Definition AllEq (c : nat) (l : list nat) : Prop := Forall (fun n => n = c) l.
Definition once (l : list nat) : Prop := AllEq 1 l.
Definition never (l : list nat) : Prop := AllEq 0 l.

(* ---------- every name bound inside the term is used exactly once in its scope ---------- *)
Fixpoint bound_once (sh : option string) (f : form) : Prop :=
  match f with
  | FRecv p c fr k =>
    if prov_ref sh fr then once (uses (Some (ident c)) (ident p) k) /\ bound_once (Some (ident c)) k
    else once (uses sh (ident p) k) /\ once (uses sh (ident c) k) /\ bound_once sh k
  | FCase fr bs => if prov_ref sh fr then bound_once_bp bs else bound_once_bc sh bs
  | FNew y b k => bound_once None b /\ once (uses sh (ident y) k) /\ bound_once sh k
  | FWait _ k | FDrop _ k | FPrint _ k => bound_once sh k
  | FSplit a b _ k => once (uses sh (ident a) k) /\ once (uses sh (ident b) k) /\ bound_once sh k
  | FShift y fr k =>
    if prov_ref sh fr then bound_once (Some (ident y)) k
    else once (uses sh (ident y) k) /\ bound_once sh k
  | FSend _ _ _ | FSel _ _ _ | FClose _ | FFwd _ _ _ | FCall _ _ _ | FCast _ _ => True
  end
with bound_once_bp (b : branches) : Prop :=
  match b with
  | BrNil => True
  | BrCons _ p k r => bound_once (Some (ident p)) k /\ bound_once_bp r
  end
with bound_once_bc (sh : option string) (b : branches) : Prop :=
  match b with
  | BrNil => True
  | BrCons _ p k r => once (uses sh (ident p) k) /\ bound_once sh k /\ bound_once_bc sh r
  end.

(* ---------- no binder re-binds a channel that is still owed a use ----------
   live = the names in scope that have not been consumed yet on the path to this point.  A binder
   must be fresh for the live names that remain after the form has consumed its subject, the two
   binders of a receive / split differ, and a binder of a context channel is not spelled like
   the provider.  A cut hands the body the live names the body uses; the name of the cut must
   not be live afterwards (it may re-use a name that the body has just consumed). *)
Definition remove (x : string) (l : list string) : list string := filter (fun z => negb (String.eqb z x)) l.
Definition used_in (sh : option string) (f : form) (x : string) : bool := existsb (fun n => Nat.ltb 0 n) (uses sh x f).
Definition fresh (live : list string) (n : name) : Prop := str_mem (ident n) live = false.
Definition differ (a b : name) : Prop := ident a <> ident b.
Definition not_prov (sh : option string) (n : name) : Prop := prov_ref sh n = false.

Fixpoint binders_fresh (live : list string) (sh : option string) (f : form) : Prop :=
  match f with
  | FRecv p c fr k =>
    if prov_ref sh fr then
      fresh live p /\ fresh live c /\ differ p c /\ binders_fresh (ident p :: live) (Some (ident c)) k
    else
      let live' := remove (ident fr) live in
      fresh live' p /\ fresh live' c /\ differ p c /\ not_prov sh p /\ not_prov sh c /\
      binders_fresh (ident c :: ident p :: live') sh k
  | FCase fr bs =>
    if prov_ref sh fr then binders_fresh_bp live bs
    else binders_fresh_bc (remove (ident fr) live) sh bs
  | FNew y b k =>
    let rest := filter (fun z => negb (used_in None b z)) live in
    not_prov sh y /\ fresh rest y /\
    binders_fresh (filter (used_in None b) live) None b /\
    binders_fresh (ident y :: rest) sh k
  | FWait c k | FDrop c k => binders_fresh (remove (ident c) live) sh k
  | FPrint _ k => binders_fresh live sh k
  | FSplit a b fr k =>
    let live' := remove (ident fr) live in
    fresh live' a /\ fresh live' b /\ differ a b /\ not_prov sh a /\ not_prov sh b /\
    binders_fresh (ident b :: ident a :: live') sh k
  | FShift y fr k =>
    if prov_ref sh fr then fresh live y /\ binders_fresh live (Some (ident y)) k
    else
      let live' := remove (ident fr) live in
      fresh live' y /\ not_prov sh y /\ binders_fresh (ident y :: live') sh k
  | FSend _ _ _ | FSel _ _ _ | FClose _ | FFwd _ _ _ | FCall _ _ _ | FCast _ _ => True
  end
with binders_fresh_bp (live : list string) (b : branches) : Prop :=
  match b with
  | BrNil => True
  | BrCons _ p k r => fresh live p /\ binders_fresh live (Some (ident p)) k /\ binders_fresh_bp live r
  end
with binders_fresh_bc (live : list string) (sh : option string) (b : branches) : Prop :=
  match b with
  | BrNil => True
  | BrCons _ p k r =>
    fresh live p /\ not_prov sh p /\ binders_fresh (ident p :: live) sh k /\ binders_fresh_bc live sh r
  end.

(* ---------- the discipline for one body ----------
   ctx_names = the channels in scope at the root (parameters of a function, free names of a
   process); sh = the name bound for the provider at the root, if any. *)
Definition LinearNames (ctx_names : list string) (sh : option string) (f : form) : Prop :=
  (forall x, str_mem x ctx_names = true -> once (uses sh x f)) /\
  (forall x, str_mem x ctx_names = false -> never (uses sh x f)) /\
  bound_once sh f /\
  binders_fresh ctx_names sh f.

(* names created by the parser carry no channel; Name.Equal then compares identifiers *)
Definition uninit (n : name) : bool := match chan n with None => true | Some _ => false end.
Fixpoint uninit_form (f : form) : bool :=
  match f with
  | FSend a b c => uninit a && uninit b && uninit c
  | FRecv p c fr k => uninit p && uninit c && uninit fr && uninit_form k
  | FSel a _ c => uninit a && uninit c
  | FCase fr bs => uninit fr && uninit_brs bs
  | FNew y b k => uninit y && uninit_form b && uninit_form k
  | FClose c => uninit c
  | FWait c k | FDrop c k => uninit c && uninit_form k
  | FFwd a b _ => uninit a && uninit b
  | FSplit a b fr k => uninit a && uninit b && uninit fr && uninit_form k
  | FCall _ args _ => forallb uninit args
  | FCast a c => uninit a && uninit c
  | FShift y fr k => uninit y && uninit fr && uninit_form k
  | FPrint _ k => uninit_form k
  end
with uninit_brs (b : branches) : bool :=
  match b with BrNil => true | BrCons _ p k r => uninit p && uninit_form k && uninit_brs r end.

(* ---------- the discipline for a program ----------
   A function body is checked against its parameters.  The channels in scope of a top-level
   process are the declared names (providers of processes, assumed names) that occur free in its
   body, other than its own providers.  A declaration with several provider names duplicates the
   process: its type (after mode inference) must be contractable. *)

Definition declared (p : program) : list string :=
  flat_map (fun pd => map ident (pr_providers pd)) (p_procs p) ++ map ident (p_assumed p).
Definition fun_scope (fd : fundef) : list string := map ident (fn_params fd).
Definition proc_scope (p : program) (pd : procdef) : list string :=
  map ident (filter (fun n => negb (str_mem (ident n) (map ident (pr_providers pd))) && str_mem (ident n) (declared p))
                    (free_names (pr_body pd))).
Definition contractable_type (D : tenv) (t : option sty) : Prop :=
  exists t0 t1, t = Some t0 /\ add_missing D t0 = Ok t1 /\ contr (mode_of t1) = true.

Definition LinearProgram (p : program) : Prop :=
  (forall fd, In fd (p_funs p) -> LinearNames (fun_scope fd) None (fn_body fd)) /\
  (forall pd, In pd (p_procs p) -> LinearNames (proc_scope p pd) None (pr_body pd)) /\
  (forall pd, In pd (p_procs p) -> 1 < length (pr_providers pd) -> contractable_type (p_types p) (pr_type pd)).

Definition uninit_prog (p : program) : bool :=
  forallb (fun fd => uninit_form (fn_body fd)) (p_funs p) && forallb (fun pd => uninit_form (pr_body pd)) (p_procs p).
