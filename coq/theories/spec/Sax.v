(* Sax.v — SPECIFICATION: a reference small-step semantics of the (adjoint) semi-axiomatic sequent
   calculus that Grits programs are terms of.  Written independently of Runtime.v (it does not import
   it): no goroutines, no buffers, no provider lists, no polarities, no scheduler, no FWD/GC/DUP
   protocol — only multiset rewriting of semantic objects.  What it shares with the interpreter model
   is the term language (Forms.v), the meaning of substituting one name for another in a term
   (Subst.v, the model of Form.Substitute) and function lookup by name and arity (Expand.get_function).

   Literature.  The object language and the rules follow
     [DPP20]  DeYoung, Pfenning, Pruiksma: "Semi-axiomatic sequent calculus", FSCD 2020, and
     [PP21]   Pruiksma, Pfenning: "A message-passing interpretation of adjoint logic", JLAMP 120 (2021)
              (PLACES 2019), sections "asynchronous semantics" / "continuation channels".
   In SAX the right rules of the positive connectives (⊗, 1, ⊕, ↓) and the left rules of the negative
   ones (⊸, &, ↑) are AXIOMS; a process of axiom form is a MESSAGE (a small value that only mentions
   channels), the other rule of each connective is the message's RECIPIENT, and cut reduction is
   message receipt.  A configuration is a multiset of objects; every channel has one provider:

     proc(a, P)      `SProc a P`      process P providing a (`self` in P stands for a)
     msg⁺(a, V)      `SMsgP a V`      positive message: provides a, flows from provider to client
                                       V = ⟨v,w⟩ (⊗R°  `send self<v,w>`), l⟨w⟩ (⊕R° `self.l<w>`),
                                           ⟨⟩ (1R° `close self`), shift⟨w⟩ (↓R° `cast self<w>`)
     msg⁻(a, V)      `SMsgN a V`      negative message: addressed to the provider of a, flows from
                                       client to provider, PROVIDES the continuation channel d in V:
                                       V = ⟨v,d⟩ (⊸L° `send a<v,self>`), l⟨d⟩ (&L° `a.l<self>`),
                                           shift⟨d⟩ (↑L° `cast a<self>`)      where d = the sender's self
     proc(a, a ← b)  `SFwd a b`       identity / forward (`fwd self b`)
     `SDrop b`, `SSplit c1 c2 b`      pending structural requests (weakening / contraction) on b.

   `obj a P` reads a term as the object it is: axioms are messages from the start ([DPP20] §4:
   "processes of axiom form are messages"; [PP21]: msg(a, M) is proc(a, M) for M an axiom).

   Rules ([PP21] names in brackets; Δ is the rest of the configuration):
     cut     proc(a, x <- new P; Q)                 ↦ proc(c, P), proc(a, Q[c/x])        (c fresh)   [cut / spawn]
     ⊗       msg⁺(b,⟨v,w⟩), proc(a, <x,y> <- recv b; Q)   ↦ proc(a, Q[v/x][w/y])                     [⊗ C: ⊗R° meets ⊗L]
     ⊸       proc(b, <x,y> <- recv self; P), msg⁻(b,⟨v,d⟩) ↦ proc(d, P[v/x][self/y])                 [⊸ C: ⊸R meets ⊸L°]
     ⊕       msg⁺(b,l⟨w⟩), proc(a, case b (… l<y> => Q …)) ↦ proc(a, Q[w/y])                         [⊕ C]
     &       proc(b, case self (… l<y> => P …)), msg⁻(b,l⟨d⟩) ↦ proc(d, P[self/y])                   [& C]
     1       msg⁺(b,⟨⟩), proc(a, wait b; Q)         ↦ proc(a, Q)                                     [1 C]
     ↓       msg⁺(b,shift⟨w⟩), proc(a, x <- shift b; Q)   ↦ proc(a, Q[w/x])                           [↓ C]
     ↑       proc(b, x <- shift self; P), msg⁻(b,shift⟨d⟩) ↦ proc(d, P[self/x])                       [↑ C]
     id      proc(a, a ← b), O_b                    ↦ O_b re-providing a                             [id; see below]
     call    proc(a, f(args))                       ↦ proc(a, body_f[args/params])                   [definition unfolding]
     print   proc(a, print l; P)                    ↦{l} proc(a, P)                                  (Grits's observable)
     drop    proc(a, drop b; Q)                     ↦ proc(a, Q), drop(b)                            [weakening W]
     gc      drop(b), O_b                           ↦ drop(z) for every channel z that O_b uses
             drop(ci), split(c1,c2,b)               ↦ proc(c_{3-i}, c_{3-i} ← b)
     split   proc(a, <x1,x2> <- split b; Q)         ↦ proc(a, Q[c1/x1][c2/x2]), split(c1,c2,b)  (c1,c2 fresh)   [contraction C]
     copy    split(c1,c2,b), proc/msg(b, P)         ↦ proc/msg(c1, P[ns1/fns]), proc/msg(c2, P[ns2/fns]), split(ns1_i,ns2_i,fns_i)
                                                      (fns the free names of P, ns1 ns2 fresh names, one pair per free name;
                                                       the copied object is any term read by `obj`, so also a message)

   Identity.  [PP21] give identity by message RELAY (id⁺: msg(b,V), proc(a, a←b) ↦ msg(a,V);
   id⁻: proc(a, a←b), msg⁻(a,V) ↦ msg⁻(b,V)); cut elimination gives it by SUBSTITUTION
   (proc(a, a←b), Δ ↦ Δ[a/b]).  The rule here is the substitution reading restricted to the one
   object that can mention b in a well-formed configuration besides the forwarder, namely b's
   provider O_b: it provides a from now on.  For a positive message this IS [PP21]'s id⁺; for a
   process waiting on self it is what Grits's negative forward does (the provider adopts the
   forwarder's channel) and is bisimilar to the relay id⁻ (the message addressed to a reaches the
   same recipient, directly instead of after re-addressing).  The rule does not wait for O_b to be
   a message: the semantics is more permissive than any implementation needs, which is the right
   direction for "every implementation run is a SAX run".

   History of this file: the linear rules are as first written.  Added later, conservatively (no
   linear rule changed): `obj` reads the interpreter-internal term `fwd^drop self b` as drop(b); the
   rule copy is stated with NAMES (the copied object is `obj b P`, the free names of P are replaced
   by fresh names ns1 / ns2, one split per free name) instead of with a channel renaming, so that it
   is literally what the interpreter's DUP does; split objects are binary (declarations with more
   than two provider names are outside the proved refinement).

   Fresh channels are chosen by a side condition (`c ∉ cfg_cids`), binding is "named with freshness
   side conditions".  The structural rules do not check modes: a typed program only applies them to
   channels whose mode admits weakening / contraction (C05/C07). *)
From stdpp Require Import list strings.
Require Import Grits.Base Grits.ModeDefs Grits.Modes Grits.STypes Grits.Forms Grits.Subst Grits.Expand.

(* ------------------------------------------------------------------ objects *)
Inductive pval : Type :=
| VPair (v w : name)               (* ⊗ : payload, continuation *)
| VLab (l : string) (w : name)     (* ⊕ : label, continuation *)
| VUnit                            (* 1 *)
| VShift (w : name).               (* ↓ : continuation *)
Inductive nval : Type :=
| NPair (v : name) (d : cid)       (* ⊸ : payload, continuation channel (provided by the message) *)
| NLab (l : string) (d : cid)      (* & *)
| NShift (d : cid).                (* ↑ *)

Inductive sobj : Type :=
| SProc (a : cid) (P : form)
| SMsgP (a : cid) (V : pval)
| SMsgN (a : cid) (V : nval)
| SFwd (a b : cid)
| SDrop (b : cid)
| SSplit (c1 c2 b : cid).

Definition sconfig := list sobj.    (* up to permutation, see sax_step *)

(* a term providing a, read as an object: axioms are messages *)
Definition obj (a : cid) (P : form) : sobj :=
  match P with
  | FSend to pay cont =>
    if is_self to then SMsgP a (VPair pay cont)
    else if is_self cont then match chan to with Some x => SMsgN x (NPair pay a) | None => SProc a P end
    else SProc a P
  | FSel to l cont =>
    if is_self to then SMsgP a (VLab l cont)
    else if is_self cont then match chan to with Some x => SMsgN x (NLab l a) | None => SProc a P end
    else SProc a P
  | FClose c => if is_self c then SMsgP a VUnit else SProc a P
  | FCast to cont =>
    if is_self to then SMsgP a (VShift cont)
    else if is_self cont then match chan to with Some x => SMsgN x (NShift a) | None => SProc a P end
    else SProc a P
  | FFwd to from false =>
    if is_self to then match chan from with Some b => SFwd a b | None => SProc a P end else SProc a P
  | FFwd to from true =>
    (* `fwd^drop self b`: not source syntax — the term the interpreter creates for `drop b`; it IS the
       pending weakening request on b (its own channel a is administrative: nobody refers to it) *)
    if is_self to then match chan from with Some b => SDrop b | None => SProc a P end else SProc a P
  | _ => SProc a P
  end.

Definition ncont (V : nval) : cid := match V with NPair _ d | NLab _ d | NShift d => d end.
Definition set_ncont (d : cid) (V : nval) : nval :=
  match V with NPair v _ => NPair v d | NLab l _ => NLab l d | NShift _ => NShift d end.

(* the channel an object provides (requests provide nothing; a split provides two: see s_gc_split) *)
Definition provides (o : sobj) : option cid :=
  match o with
  | SProc a _ | SMsgP a _ | SFwd a _ => Some a
  | SMsgN _ V => Some (ncont V)
  | SDrop _ | SSplit _ _ _ => None
  end.
Definition reprovide (a' : cid) (o : sobj) : sobj :=
  match o with
  | SProc _ P => SProc a' P
  | SMsgP _ V => SMsgP a' V
  | SFwd _ b => SFwd a' b
  | SMsgN x V => SMsgN x (set_ncont a' V)
  | _ => o
  end.

(* ------------------------------------------------------------------ channels occurring in a configuration *)
Definition name_cids (n : name) : list cid := match chan n with Some c => [c] | None => [] end.
Fixpoint form_names (f : form) : list name :=
  match f with
  | FSend a b c => [a; b; c]
  | FRecv p c fr k => p :: c :: fr :: form_names k
  | FSel a _ c => [a; c]
  | FCase fr bs => fr :: brs_names bs
  | FNew x b k => x :: form_names b ++ form_names k
  | FClose c => [c]
  | FWait c k => c :: form_names k
  | FFwd a b _ => [a; b]
  | FSplit x y fr k => x :: y :: fr :: form_names k
  | FCall _ args _ => args
  | FCast a c => [a; c]
  | FShift x fr k => x :: fr :: form_names k
  | FDrop c k => c :: form_names k
  | FPrint _ k => form_names k
  end
with brs_names (b : branches) : list name :=
  match b with
  | BrNil => []
  | BrCons _ p k r => p :: form_names k ++ brs_names r
  end.
Definition form_cids (f : form) : list cid := flat_map name_cids (form_names f).
Definition pval_names (V : pval) : list name :=
  match V with VPair v w => [v; w] | VLab _ w => [w] | VUnit => [] | VShift w => [w] end.
Definition nval_names (V : nval) : list name := match V with NPair v _ => [v] | _ => [] end.

Definition obj_cids (o : sobj) : list cid :=
  match o with
  | SProc a P => a :: form_cids P
  | SMsgP a V => a :: flat_map name_cids (pval_names V)
  | SMsgN a V => a :: ncont V :: flat_map name_cids (nval_names V)
  | SFwd a b => [a; b]
  | SDrop b => [b]
  | SSplit c1 c2 b => [c1; c2; b]
  end.
Definition cfg_cids (C : sconfig) : list cid := flat_map obj_cids C.

(* the channels an object uses as a client *)
Definition names_cids (ns : list name) : list cid := flat_map name_cids ns.
Definition obj_clients (o : sobj) : list cid :=
  match o with
  | SProc _ P => names_cids (free_names P)
  | SMsgP _ V => names_cids (pval_names V)
  | SMsgN a V => a :: names_cids (nval_names V)
  | SFwd _ b => [b]
  | SDrop b => [b]
  | SSplit _ _ b => [b]
  end.

(* ------------------------------------------------------------------ auxiliary term operations *)
Definition chan_name (c : cid) : name := mkName "" false None None (Some c).

Fixpoint lookup_branch (l : string) (b : branches) : option (name * form) :=
  match b with
  | BrNil => None
  | BrCons l' y k r => if String.eqb l' l then Some (y, k) else lookup_branch l r
  end.

Fixpoint subst_params (ps args : list name) (b : form) : form :=
  match ps, args with
  | p :: pr, a :: ar => subst_params pr ar (subst p a b)
  | _, _ => b
  end.
(* unfolding a definition: f(args) with as many arguments as parameters, or with one more in front,
   which instantiates the explicit provider of f (and is ignored if f has none).  A `self` argument is
   passed as the identifier-less self: the caller's name for its own channel means nothing in the callee *)
Definition unfold_call (F : list fundef) (fn : string) (args : list name) : option form :=
  match get_function F fn (length args) with
  | None => None
  | Some fd =>
    if (length args =? length (fn_params fd))%nat then Some (subst_params (fn_params fd) args (fn_body fd))
    else if (length args =? S (length (fn_params fd)))%nat then
      match args with
      | a0 :: rest =>
        Some (subst_params (fn_params fd) rest
                (match fn_explicit fd with
                 | Some ep => subst ep (if is_self a0 then self_name else a0) (fn_body fd)
                 | None => fn_body fd
                 end))
      | [] => None
      end
    else None
  end.

(* contraction copies the provider of b: in the i-th copy every free name fn of the term is replaced by
   a fresh name (the fresh names of copy i: `ns`), one after the other *)
Fixpoint subst_list (fns ns : list name) (P : form) : form :=
  match fns, ns with
  | fn :: fr, n :: nr => subst_list fr nr (subst fn n P)
  | _, _ => P
  end.
(* ... and every channel the term used is split in turn between the two copies *)
Fixpoint splits_of (ns1 ns2 fns : list name) : list sobj :=
  match ns1, ns2, fns with
  | n1 :: r1, n2 :: r2, fn :: r =>
    match chan n1, chan n2, chan fn with
    | Some z1, Some z2, Some z => [SSplit z1 z2 z]
    | _, _, _ => []
    end ++ splits_of r1 r2 r
  | _, _, _ => []
  end.

(* ------------------------------------------------------------------ the rules *)
Section rules.
Context (F : list fundef).

(* `sred_lin Δ L ls R`: in a configuration L ++ Δ the objects L are rewritten to R, emitting labels
   ls — the rules of the linear connective fragment {1, ⊗, ⊸, ⊕, &, ↓, ↑, cut, id, call, print} *)
Inductive sred_lin (Δ : sconfig) : list sobj -> list string -> list sobj -> Prop :=
| s_cut a x P Q n c :
    chan n = Some c -> is_self n = false ->
    c ∉ cfg_cids (SProc a (FNew x P Q) :: Δ) ->
    sred_lin Δ [SProc a (FNew x P Q)] [] [obj c P; obj a (subst x n Q)]
| s_tensor b v w a x y from Q :
    is_self from = false -> chan from = Some b ->
    sred_lin Δ [SMsgP b (VPair v w); SProc a (FRecv x y from Q)] [] [obj a (subst y w (subst x v Q))]
| s_lolli b x y from P v d :
    is_self from = true ->
    sred_lin Δ [SProc b (FRecv x y from P); SMsgN b (NPair v d)] [] [obj d (subst y self_name (subst x v P))]
| s_plus b l w a from bs y Q :
    is_self from = false -> chan from = Some b -> lookup_branch l bs = Some (y, Q) ->
    sred_lin Δ [SMsgP b (VLab l w); SProc a (FCase from bs)] [] [obj a (subst y w Q)]
| s_with b from bs l d y P :
    is_self from = true -> lookup_branch l bs = Some (y, P) ->
    sred_lin Δ [SProc b (FCase from bs); SMsgN b (NLab l d)] [] [obj d (subst y self_name P)]
| s_one b a from Q :
    is_self from = false -> chan from = Some b ->
    sred_lin Δ [SMsgP b VUnit; SProc a (FWait from Q)] [] [obj a Q]
| s_down b w a x from Q :
    is_self from = false -> chan from = Some b ->
    sred_lin Δ [SMsgP b (VShift w); SProc a (FShift x from Q)] [] [obj a (subst x w Q)]
| s_up b x from P d :
    is_self from = true ->
    sred_lin Δ [SProc b (FShift x from P); SMsgN b (NShift d)] [] [obj d (subst x self_name P)]
| s_id a b o :
    provides o = Some b ->
    sred_lin Δ [SFwd a b; o] [] [reprovide a o]
| s_call a fn args pty body :
    unfold_call F fn args = Some body ->
    sred_lin Δ [SProc a (FCall fn args pty)] [] [obj a body]
| s_print a l P :
    sred_lin Δ [SProc a (FPrint l P)] [l] [obj a P].

(* the structural rules (weakening, contraction) *)
Inductive sred_str (Δ : sconfig) : list sobj -> list string -> list sobj -> Prop :=
| s_drop a x Q b :
    is_self x = false -> chan x = Some b ->
    sred_str Δ [SProc a (FDrop x Q)] [] [obj a Q; SDrop b]
| s_gc b o :
    provides o = Some b ->
    sred_str Δ [SDrop b; o] [] (map SDrop (obj_clients o))
| s_gc_split1 c1 c2 b : sred_str Δ [SDrop c1; SSplit c1 c2 b] [] [SFwd c2 b]
| s_gc_split2 c1 c2 b : sred_str Δ [SDrop c2; SSplit c1 c2 b] [] [SFwd c1 b]
| s_split a x1 x2 y Q b n1 n2 c1 c2 :
    is_self y = false -> chan y = Some b ->
    chan n1 = Some c1 -> chan n2 = Some c2 -> is_self n1 = false -> is_self n2 = false -> c1 <> c2 ->
    c1 ∉ cfg_cids (SProc a (FSplit x1 x2 y Q) :: Δ) -> c2 ∉ cfg_cids (SProc a (FSplit x1 x2 y Q) :: Δ) ->
    sred_str Δ [SProc a (FSplit x1 x2 y Q)] [] [obj a (subst x2 n2 (subst x1 n1 Q)); SSplit c1 c2 b]
| s_copy c1 c2 b P ns1 ns2 :
    let fns := free_names P in
    length ns1 = length fns -> length ns2 = length fns ->
    Forall (fun n => is_self n = false /\ is_Some (chan n)) (ns1 ++ ns2) ->
    NoDup (names_cids (ns1 ++ ns2)) ->
    (forall z, z ∈ names_cids (ns1 ++ ns2) -> z ∉ cfg_cids (SSplit c1 c2 b :: obj b P :: Δ)) ->
    sred_str Δ [SSplit c1 c2 b; obj b P] []
         (obj c1 (subst_list fns ns1 P) :: obj c2 (subst_list fns ns2 P) :: splits_of ns1 ns2 fns).

(* `str` = are the structural rules available (false: the linear fragment only) *)
Definition sred (str : bool) (Δ : sconfig) (L : list sobj) (ls : list string) (R : list sobj) : Prop :=
  sred_lin Δ L ls R \/ (str = true /\ sred_str Δ L ls R).

(* one step of a configuration (a multiset: closed under permutation) *)
Definition sax_step (str : bool) (C : sconfig) (ls : list string) (C' : sconfig) : Prop :=
  exists L R Δ, C ≡ₚ L ++ Δ /\ C' ≡ₚ R ++ Δ /\ sred str Δ L ls R.

(* executions, with the labels they emit in order *)
Inductive sax_steps (str : bool) : sconfig -> list string -> sconfig -> Prop :=
| sax_refl C C' : C ≡ₚ C' -> sax_steps str C [] C'
| sax_trans C ls C' ls' C'' :
    sax_step str C ls C' -> sax_steps str C' ls' C'' -> sax_steps str C (ls ++ ls') C''.
End rules.

(* ------------------------------------------------------------------ the initial configuration of a program *)
(* top-level process i provides one channel; the choice of channel identities is irrelevant as long as
   they are pairwise distinct: process i's j-th provider gets [i; j].  Every top-level name is replaced,
   in every top-level body, by the channel it stands for (the closing cuts of the whole program). *)
Definition top_names (p : program) : list (name * name) :=
  concat (imap (fun i pr => imap (fun j old => (old, mkName (ident old) false None None (Some [i; j])))
                                 (pr_providers pr)) (p_procs p)).
Definition close_body (p : program) (b : form) : form :=
  fold_left (fun b '(old, new) => subst old new b) (top_names p) b.
Definition sax_init (p : program) : sconfig :=
  concat (imap (fun i pr => match pr_providers pr with
                            | [_] => [obj [i; 0%nat] (close_body p (pr_body pr))]
                            | _ => []     (* multi-provider declarations are contraction: outside the linear fragment *)
                            end) (p_procs p)).
