(* spec/AlphaEq.v — alpha-equivalence of process terms UP TO CHANNELS (C14, general case): the relation
   that the interpreter's steps preserve.  `spec/Alpha.v` states alpha-equivalence of sources; this
   file is its run-time refinement, Go-faithful where `Subst.subst` is:
     * the correspondence is a stack of pairs of binder identifiers, innermost first (`Alpha.benv`,
       `Alpha.var_rel`: a pair of occurrences is related iff the first entry that mentions either of them
       mentions both; identifiers outside the stack must be equal);
     * an occurrence is either a VARIABLE (no channel, not a `self` name, identifier not "") — related by
       the stack, same polarity and type annotation — or a NON-VARIABLE (a name that carries a channel,
       a `self` name, the zero name of a closed channel) — equal on both sides, identifier erased (""):
       the identifiers of such names are irrelevant for every step (`RenameSimT.stepT_erase`), so bodies
       are compared after `RenameSimT.nf'`;
     * binders carry no channel and a non-empty identifier on both sides, with equal annotations
       (`x : T <- new …`: the interpreter gives the type and polarity of the binder to the new channel);
       the keyword `self` used AS A BINDER (`<x, self> <- recv self`, identifier "") is outside the relation;
     * the two binders of a receive / split are pushed in the order in which `on_message` / `internal_effect`
       substitute them (payload first, then continuation; `x` first, then `y`), so that equal identifiers in
       one pair of binders shadow the way Form.Substitute does. *)
Require Import Grits.Base Grits.ModeDefs Grits.STypes Grits.Forms Grits.Subst Grits.spec.Alpha.

Definition isvar (n : name) : bool := negb (initialized n) && negb (is_self n) && negb (String.eqb (ident n) "").

Definition aeqn (e : benv) (a b : name) : Prop :=
  if isvar a then isvar b = true /\ pol a = pol b /\ nty a = nty b /\ var_rel e (ident a) (ident b)
  else a = b /\ ident a = "".

Definition bnd (x y : name) : Prop :=
  chan x = None /\ chan y = None /\ pol x = pol y /\ nty x = nty y /\ ident x <> "" /\ ident y <> "".

Fixpoint aeq (e : benv) (f g : form) {struct f} : Prop :=
  match f, g with
  | FSend a b c, FSend a' b' c' => aeqn e a a' /\ aeqn e b b' /\ aeqn e c c'
  | FRecv p c fr k, FRecv p' c' fr' k' =>
    bnd p p' /\ bnd c c' /\ aeqn e fr fr' /\ aeq (bind p p' (bind c c' e)) k k'
  | FSel a l c, FSel a' l' c' => l = l' /\ aeqn e a a' /\ aeqn e c c'
  | FCase fr bs, FCase fr' bs' => aeqn e fr fr' /\ aeq_brs e bs bs'
  | FNew x b k, FNew x' b' k' => bnd x x' /\ aeq e b b' /\ aeq (bind x x' e) k k'
  | FClose c, FClose c' => aeqn e c c'
  | FWait c k, FWait c' k' => aeqn e c c' /\ aeq e k k'
  | FFwd a b d, FFwd a' b' d' => d = d' /\ aeqn e a a' /\ aeqn e b b'
  | FSplit x y fr k, FSplit x' y' fr' k' =>
    bnd x x' /\ bnd y y' /\ aeqn e fr fr' /\ aeq (bind x x' (bind y y' e)) k k'
  | FCall fn args pt, FCall fn' args' pt' => fn = fn' /\ pt = pt' /\ Forall2 (aeqn e) args args'
  | FCast a c, FCast a' c' => aeqn e a a' /\ aeqn e c c'
  | FShift x fr k, FShift x' fr' k' => bnd x x' /\ aeqn e fr fr' /\ aeq (bind x x' e) k k'
  | FDrop c k, FDrop c' k' => aeqn e c c' /\ aeq e k k'
  | FPrint l k, FPrint l' k' => l = l' /\ aeq e k k'
  | _, _ => False
  end
with aeq_brs (e : benv) (b c : branches) {struct b} : Prop :=
  match b, c with
  | BrNil, BrNil => True
  | BrCons l p k r, BrCons l' p' k' r' => l = l' /\ bnd p p' /\ aeq (bind p p' e) k k' /\ aeq_brs e r r'
  | _, _ => False
  end.

(* the stack of a function: its parameters, the first on top (CallForm.Transition substitutes them in
   order).  The explicit provider name, if any, is NOT renamed (it is substituted before the parameters
   only when the caller passes `self`; its occurrences are `self` names). *)
Definition params_env (ps qs : list name) : benv := combine (map ident ps) (map ident qs).
