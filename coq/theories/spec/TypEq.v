(* spec/TypEq.v — equi-recursive equality of session types over an environment of definitions,
   as "there is a consistent relation containing the pair" (a greatest fixed point without
   CoInductive).  Two types are related when, after unfolding names to a head constructor, they
   have the same constructor, the same mode (both modes of a shift), the same SET of branch labels,
   and related components.  Names, aliases and unrollings do not matter: only `head` looks at them.
   Not an algorithm; no reference to the memo or to printing. *)
Require Import Grits.Base Grits.ModeDefs Grits.STypes.
Require Export Grits.STypesAux.


(* unfold names until a head constructor appears (the mode written on a name node plays no role) *)
Inductive head (D : tenv) : sty -> sty -> Prop :=
| head_struct t : is_name t = false -> head D t t
| head_name x m d h : tlookup D x = Some d -> head D (td_body d) h -> head D (TName x m) h.

(* same label set (order irrelevant), components with the same label related *)
Definition brs_sim (R : sty -> sty -> Prop) (bs cs : brs) : Prop :=
  (forall l, find_br l bs = None <-> find_br l cs = None) /\
  (forall l a a', find_br l bs = Some a -> find_br l cs = Some a' -> R a a').

Inductive same_head (R : sty -> sty -> Prop) : sty -> sty -> Prop :=
| sh_unit m : same_head R (TUnit m) (TUnit m)
| sh_tensor a b a' b' m : R a a' -> R b b' -> same_head R (TTensor a b m) (TTensor a' b' m)
| sh_lolli a b a' b' m : R a a' -> R b b' -> same_head R (TLolli a b m) (TLolli a' b' m)
| sh_plus bs cs m : brs_sim R bs cs -> same_head R (TPlus bs m) (TPlus cs m)
| sh_with bs cs m : brs_sim R bs cs -> same_head R (TWith bs m) (TWith cs m)
| sh_up f t a a' : R a a' -> same_head R (TUp f t a) (TUp f t a')
| sh_down f t a a' : R a a' -> same_head R (TDown f t a) (TDown f t a').

Definition Consistent (D : tenv) (R : sty -> sty -> Prop) : Prop :=
  forall s t, R s t -> exists h1 h2, head D s h1 /\ head D t h2 /\ same_head R h1 h2.

Definition Bisim (D : tenv) (s t : sty) : Prop := exists R, R s t /\ Consistent D R.

(* immediate components *)
Fixpoint In_br (a : sty) (b : brs) : Prop :=
  match b with BNil => False | BCons _ a' r => a = a' \/ In_br a r end.
Definition child (t c : sty) : Prop :=
  match t with
  | TName _ _ | TUnit _ => False
  | TTensor a b _ | TLolli a b _ => c = a \/ c = b
  | TPlus bs _ | TWith bs _ => In_br c bs
  | TUp _ _ a | TDown _ _ a => c = a
  end.

(* a set of types on which every unfolding is defined and productive: closed under components of
   heads, every member has a head.  (What "well-formed and contractive" provides.) *)
Definition Productive (D : tenv) (P : sty -> Prop) : Prop :=
  forall t, P t -> exists h, head D t h /\ forall c, child h c -> P c.
