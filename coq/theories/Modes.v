(* Modes.v — hand-written model of types/modality.go:1-404.
   gen/ModeTables.v (regenerated from the code on every run) is proved equal to these
   definitions in GenModeChecks.v; everything else in the development uses these. *)
Require Import Grits.Base Grits.ModeDefs.

(* a.CanBeDownshiftedTo(b).  Shifting an Unset/Invalid receiver panics in Go; an Unset/Invalid
   argument hits `default: panic("todo")`. *)
Definition down (a b : mode) : bool :=
  match a, b with
  | Rep, (Rep | Mul | Aff | Lin) => true
  | Mul, (Mul | Lin) => true
  | Aff, (Aff | Lin) => true
  | Lin, Lin => true
  | _, _ => false
  end.
Definition up (a b : mode) : bool :=
  match a, b with
  | Rep, Rep => true
  | Mul, (Rep | Mul) => true
  | Aff, (Rep | Aff) => true
  | Lin, (Rep | Mul | Aff | Lin) => true
  | _, _ => false
  end.
(* the panicking variants used where the Go code can reach them *)
Definition down_o (a b : mode) : outcome bool :=
  if proper a && proper b then Ok (down a b) else Panic "shift of unset/invalid mode".
Definition up_o (a b : mode) : outcome bool :=
  if proper a && proper b then Ok (up a b) else Panic "shift of unset/invalid mode".

Definition weak (m : mode) : bool := match m with Rep | Aff => true | _ => false end.
Definition contr (m : mode) : bool := match m with Rep | Mul => true | _ => false end.

Definition mode_short (m : mode) : string :=
  match m with
  | Rep => "rep" | Mul => "mul" | Aff => "aff" | Lin => "lin" | Unset => "unset"
  | Invalid s => "invalid: " ^^ s
  end.
Definition mode_full (m : mode) : string :=
  match m with
  | Rep => "replicable" | Mul => "multicast" | Aff => "affine" | Lin => "linear" | Unset => "unset"
  | Invalid s => "invalid: " ^^ s
  end.

Definition mode_of_string (s : string) : mode :=
  let l := str_lower s in
  if str_mem l ["r"; "rep"; "replicable"] then Rep
  else if str_mem l ["m"; "mul"; "multicast"] then Mul
  else if str_mem l ["a"; "aff"; "affine"] then Aff
  else if str_mem l ["l"; "lin"; "linear"] then Lin
  else Invalid l.

Definition default_mode : mode := Rep.
