(* SharedDiscipline.v — the synchronisation discipline of every field of the two structs that the
   goroutines of one run share (RuntimeEnvironment, Monitor), checked over the access table that is
   regenerated from the code (gen/SharedAccess.v).  Three disciplines:
     DAtomic    every access outside the initialisation functions is a sync/atomic operation;
     DInitOnly  written only by initialisation functions (which run before the first `go`
                statement of the run), read-only afterwards;
     DOwned g   accessed only by the single goroutine g (monitor / heartbeat) after
                initialisation, except for reads by the listed functions, which run after a
                channel handshake with g (stopMonitorChan; cancellation of the context).
   What is NOT proved: that these disciplines imply data-race freedom under the Go memory model
   (that step is trusted), and anything about the Form trees that processes mutate in place. *)
Require Import Grits.Base Grits.SharedDefs Grits.gen.SharedAccess.

Inductive owner : Type := OMonitor | OHeartbeat.
Inductive discipline : Type := DAtomic | DInitOnly | DOwned (g : owner) (readers : list string).

(* functions that run before any goroutine of the run exists (constructors and the set-up part
   of InitializeProcesses / the API the tests use before StartTransitions) *)
Definition init_fns : list string :=
  ["NewRuntimeEnvironment"; "InitializeProcesses"; "NewMonitor"; "InitializeMonitor"; "InitializeGivenMonitor"].

Definition discipline_of (s f : string) : option discipline :=
  if String.eqb s "RuntimeEnvironment" then
    if str_mem f ["processCount"; "deadProcessCount"; "debugChannelCounter"] then Some DAtomic
    else if str_mem f ["Color"; "Delay"; "ExecutionVersion"; "GlobalEnvironment"; "Quiet"; "Typechecked"; "UseMonitor";
                       "ctx"; "errorChan"; "heartbeat"; "monitor"] then Some DInitOnly
    else if String.eqb f "timeTaken" then Some (DOwned OHeartbeat ["TimeTaken"])    (* read after <-ctx.Done() *)
    else None
  else if String.eqb s "Monitor" then
    if str_mem f ["errorChan"; "monitorChan"; "stopMonitorChan"; "subscriber"; "re"; "i"] then Some DInitOnly
    else if str_mem f ["rulesLog"; "deadProcesses"] then Some (DOwned OMonitor ["StopMonitor"; "GetRulesLog"])  (* after the stopMonitorChan handshake *)
    else if str_mem f ["processID"; "processIDToProcess"; "providersToProcessID"] then Some (DOwned OMonitor [])
    else None
  else None.

Definition is_init (a : access) : bool := str_mem (a_fn a) init_fns && negb (in_goroutine a).

Definition only_owner (g : owner) (a : access) : bool :=
  match g with
  | OMonitor => a_in_monitor a && negb (a_in_process a) && negb (a_in_heartbeat a)
  | OHeartbeat => a_in_heartbeat a && negb (a_in_process a) && negb (a_in_monitor a)
  end.

Definition access_ok (a : access) : bool :=
  match discipline_of (a_struct a) (a_field a) with
  | None => false
  | Some DAtomic => is_atomic (a_kind a) || is_init a
  | Some DInitOnly => match a_kind a with KRead => true | _ => is_init a end
  | Some (DOwned g readers) =>
    only_owner g a || is_init a ||
    (match a_kind a with KRead => str_mem (a_fn a) readers && negb (in_goroutine a) | _ => false end)
  end.

Definition all_fields_classified : bool :=
  forallb (fun f => match discipline_of "RuntimeEnvironment" f with Some _ => true | None => false end) fields_RuntimeEnvironment &&
  forallb (fun f => match discipline_of "Monitor" f with Some _ => true | None => false end) fields_Monitor.

Definition discipline_ok : bool := all_fields_classified && forallb access_ok accesses.

Definition offending : list access := filter (fun a => negb (access_ok a)) accesses.
