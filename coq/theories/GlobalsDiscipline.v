(* GlobalsDiscipline.v — C19, the syntactic half: NO package-level variable of a package of the
   parse / typecheck / execute pipeline is mutable state, decided over the table regenerated from
   the Go source on every run (gen/Globals.v):

     1. every use of a package-level variable of a pipeline package — from ANY package of the
        module — outside the code that runs once before main (func init, package-level
        initialisers) is a read (URead / UIndexRead): no assignment, no element / field update,
        no address taken, no pointer-receiver or sync method, no alias created, not passed to an
        unknown function;
     2. no package-level variable of a pipeline package has an unknown type, and one that holds a
        function is initialised by a function literal or a named function (a function literal at
        package level can only capture package-level variables, which 1. covers; the result of a
        CALL could be a closure over hidden state);
     3. functions of pipeline packages use package-level variables of OTHER packages (the standard
        library, the web server, ...) only by reading them, and use no variable of a package of the
        module that is outside the pipeline.

   Exceptions: NONE are needed for the tree as it is.  In particular the debug switches of the
   generated parser (gritsDebug, gritsErrorVerbose) are only read, the LALR tables are only indexed,
   PolarityMap / RuleString / shapeMap / colors / colorsHl are only indexed.  An exception, if one is
   ever justified, is a (variable, function) pair added to `allowed_mutations` WITH its reason; the
   host theorem (HostGlobals) is stated for an empty list and stops compiling otherwise.

   One rule is built into the translator rather than listed here: for os.Stdout / os.Stderr,
   WRITING TO the stream (a method call on it, handing the *os.File to a function) is output — the
   host model accounts for it as h_output — and is classified as a read of the variable; only
   re-pointing the variable (assignment, address taken) is a UWrite.

   What this does NOT cover (stated in the evidence): state hidden in the standard library behind
   function calls (flag.Parse, log.SetOutput, math/rand's global source, os.Setenv, ...), state
   reachable from the arguments of a run (a RuntimeEnvironment that the caller re-uses: suite `seqre`),
   reflection / unsafe / linkname / cgo, and the classification of calls into third-party packages
   (by callee name). *)
Require Import Grits.Base Grits.GlobalsDefs Grits.gen.Globals.

(* (variable's package, variable, function's package, function) — justified one by one *)
Definition allowed_mutations : list (string * string * string * string) := [].

Definition allowed (u : guse) : bool :=
  existsb (fun e => match e with (vp, v, fp, f) =>
             String.eqb vp (u_vpkg u) && String.eqb v (u_var u) && String.eqb fp (u_fpkg u) && String.eqb f (u_fn u) end)
          allowed_mutations.

Definition pipeline_pkgs : list string :=
  map (fun p => fst (fst p)) (filter (fun p => snd (fst p)) packages).
Definition is_pipeline_pkg (p : string) : bool := str_mem p pipeline_pkgs.

(* the generic discipline of one row: outside init-time code, a read *)
Definition use_ok (u : guse) : bool := negb (is_mutation (u_kind u)) || init_context u || allowed u.

(* 1. *)
Definition pipeline_var_uses (tbl : list guse) : list guse := filter (fun u => is_pipeline_pkg (u_vpkg u)) tbl.
(* 3. uses, by pipeline functions, of variables that are not the pipeline's *)
Definition outside_var_uses (tbl ext : list guse) : list guse :=
  filter (fun u => is_pipeline_pkg (u_fpkg u) && negb (is_pipeline_pkg (u_vpkg u))) tbl ++
  filter (fun u => is_pipeline_pkg (u_fpkg u)) ext.

(* all rows the pipeline's behaviour can depend on or act through *)
Definition pipeline_uses : list guse := pipeline_var_uses global_uses ++ outside_var_uses global_uses extern_uses.

Definition var_ok (g : gvar) : bool :=
  match g_kind g with
  | GOther => false
  | GFunc => match g_init g with INone | IFuncLit | IIdent => true | _ => false end
  | _ => true
  end.
Definition pipeline_globals : list gvar := filter g_pipeline globals.

(* the table is coherent: every variable that is used is declared, packages of variables are packages *)
Definition declared (u : guse) : bool := existsb (fun g => gid_eqb (g_gid g) (u_gid u)) globals.

Definition table_immutable (tbl : list guse) : bool := forallb use_ok tbl.

Definition globals_immutable_b : bool :=
  table_immutable pipeline_uses &&
  forallb var_ok pipeline_globals &&
  forallb (fun u => negb (is_pipeline_pkg (u_fpkg u) && negb (is_pipeline_pkg (u_vpkg u)))) global_uses &&
  forallb declared global_uses &&
  forallb (fun g => Bool.eqb (g_pipeline g) (is_pipeline_pkg (g_pkg g))) globals.

(* diagnostics *)
Definition offending_uses : list guse := filter (fun u => negb (use_ok u)) pipeline_uses.
Definition offending_vars : list gvar := filter (fun g => negb (var_ok g)) pipeline_globals.
Definition foreign_uses : list guse :=
  filter (fun u => is_pipeline_pkg (u_fpkg u) && negb (is_pipeline_pkg (u_vpkg u))) global_uses.
