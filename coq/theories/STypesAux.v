(* STypesAux.v — small shared helpers on session types (used by Equal.v and spec/TypEq.v). *)
Require Import Grits.Base Grits.ModeDefs Grits.STypes.

Definition is_name (t : sty) : bool := match t with TName _ _ => true | _ => false end.
