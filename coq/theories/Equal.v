(* Equal.v — types/types.go:463-627: EqualType / innerEqualType / equalTypeBranch /
   LookupBranchByLabel, as repaired (the memo key is the pair BEFORE expansion, both looked up
   and stored).  The memo (Go: map[string]bool, mutated in place and shared by all recursive
   calls) is threaded through as a list of keys; a key is only ever added when it is absent, so
   the list is the map.  Go recurses without bound: fuel, and `Hang` when it is exhausted
   (proofs/EqualTerm.v: the fuel `eq_fuel` always suffices for well-formed environments).
   The function the typechecker model calls is TcDeps.eq_ty (lead's file); this file presents the
   same function through the combinators the proofs are organised around.
   No proofs here. *)
Require Import Grits.Base Grits.ModeDefs Grits.Modes Grits.STypes Grits.Infer Grits.Print.
Require Export Grits.STypesAux.


(* reflect.TypeOf(type1) == reflect.TypeOf(type2) *)
Definition same_ctor (s t : sty) : bool :=
  match s, t with
  | TName _ _, TName _ _ | TUnit _, TUnit _ | TTensor _ _ _, TTensor _ _ _ | TLolli _ _ _, TLolli _ _ _
  | TPlus _ _, TPlus _ _ | TWith _ _, TWith _ _ | TUp _ _ _, TUp _ _ _ | TDown _ _ _, TDown _ _ _ => true
  | _, _ => false
  end.

(* isLabel1 && isLabel2 && f1.Label == f2.Label *)
Definition same_label (s t : sty) : bool :=
  match s, t with TName x _, TName y _ => String.eqb x y | _, _ => false end.

(* presentSnapshot: type1.String() type1.Modality().String() "|" type2.String() type2.Modality().String() *)
Definition memo_key (s t : sty) : string :=
  print_type s ^^ mode_short (mode_of s) ^^ "|" ^^ print_type t ^^ mode_short (mode_of t).

(* "Expand label/s": a name is replaced by the body of its definition (None: not in the map),
   anything else stays *)
Definition expand1 (D : tenv) (t : sty) : option sty :=
  match t with
  | TName x _ => match tlookup D x with Some d => Some (td_body d) | None => None end
  | _ => Some t
  end.

Definition res : Type := outcome (bool * list string).

(* a && b on two recursive calls: the second runs only when the first returned true, on the
   memo the first left behind *)
Definition both (rec : sty -> sty -> list string -> res) (a a' b b' : sty) (M : list string) : res :=
  match rec a a' M with
  | Ok (true, M1) => rec b b' M1
  | r => r
  end.

(* equalTypeBranch's loop: for each branch of the first type, LookupBranchByLabel in the second *)
Fixpoint branches (rec : sty -> sty -> list string -> res) (bs cs : brs) (M : list string) : res :=
  match bs with
  | BNil => Ok (true, M)
  | BCons l a r =>
    match find_br l cs with
    | None => Ok (false, M)
    | Some a' =>
      match rec a a' M with
      | Ok (true, M1) => branches rec r cs M1
      | r' => r'
      end
    end
  end.

(* the label case after the memo and same-label tests: expand, store the key, recurse *)
Definition expand_both (rec : sty -> sty -> list string -> res) (D : tenv) (s t : sty) (key : string)
           (M : list string) : res :=
  match expand1 D s with
  | None => Ok (false, M)
  | Some s' =>
    match expand1 D t with
    | None => Ok (false, M)
    | Some t' => rec s' t' (key :: M)
    end
  end.

(* ONE call of innerEqualType: `rs` stands for the recursive calls on components, `re` for the
   recursive call after expanding labels *)
Definition step (rs re : sty -> sty -> list string -> res) (D : tenv) (s t : sty) (M : list string) : res :=
  (* if a != b && !isLabel1 && !isLabel2 { return false } *)
  if negb (same_ctor s t) && negb (is_name s) && negb (is_name t) then Ok (false, M)
  else if is_name s || is_name t then
    let key := memo_key s t in
    if str_mem key M then Ok (true, M)
    else if same_label s t then Ok (mode_eqb (mode_of s) (mode_of t), M)
    else expand_both re D s t key M
  else
    match s, t with
    | TUnit m, TUnit m' => Ok (mode_eqb m m', M)
    | TTensor a b m, TTensor a' b' m' =>
      if mode_eqb m m' then both rs a a' b b' M else Ok (false, M)
    | TLolli a b m, TLolli a' b' m' =>
      if mode_eqb m m' then both rs a a' b b' M else Ok (false, M)
    | TPlus bs m, TPlus cs m' =>
      if (brs_len bs =? brs_len cs)%nat
      then (if mode_eqb m m' then branches rs bs cs M else Ok (false, M))
      else Ok (false, M)
    | TWith bs m, TWith cs m' =>
      if (brs_len bs =? brs_len cs)%nat
      then (if mode_eqb m m' then branches rs bs cs M else Ok (false, M))
      else Ok (false, M)
    | TUp f1 t1 a, TUp f2 t2 a' =>
      if mode_eqb t1 t2 then (if mode_eqb f1 f2 then rs a a' M else Ok (false, M)) else Ok (false, M)
    | TDown f1 t1 a, TDown f2 t2 a' =>
      if mode_eqb t1 t2 then (if mode_eqb f1 f2 then rs a a' M else Ok (false, M)) else Ok (false, M)
    | _, _ => Ok (false, M)
    end.

(* innerEqualType with the two-level fuel of TcDeps.eq_ty (the function Tc.v calls):
   k bounds the number of label expansions along one recursion path, n the structural descent
   between two expansions (reset to the size of the expanded pair).  proofs/EqualBridge.v proves
   TcDeps.eq_ty k D n s t M = eq_ty k D n s t M; all theorems are proved for this presentation
   and transported.  Out of fuel = Hang (Go: unbounded recursion). *)
Fixpoint eq_in (re : sty -> sty -> list string -> res) (D : tenv) (n : nat) (s t : sty) (M : list string) : res :=
  match n with
  | O => Hang "EqualType"
  | S n' => step (eq_in re D n') re D s t M
  end.
Fixpoint eq_ty (k : nat) (D : tenv) (n : nat) (s t : sty) (M : list string) : res :=
  match k with
  | O => Hang "EqualType"
  | S k' => eq_in (fun s' t' M' => eq_ty k' D (S (tsize s' + tsize t')) s' t' M') D n s t M
  end.

(* fuel: number of expansions <= (N+1)^2 with N the number of sub-term occurrences in play *)
Definition eq_fuel (D : tenv) (s t : sty) : nat :=
  let n := S (env_size D + tsize s + tsize t) in S (n * n).

(* EqualType *)
Definition equal_type (D : tenv) (s t : sty) : outcome bool :=
  match eq_ty (eq_fuel D s t) D (S (tsize s + tsize t)) s t [] with
  | Ok (b, _) => Ok b
  | Panic w => Panic w
  | Hang w => Hang w
  end.
