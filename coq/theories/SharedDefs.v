(* SharedDefs.v — vocabulary of the shared-memory access table (C13). *)
Require Import Grits.Base.

Inductive akind : Type := KRead | KWrite | KAtomic | KInit.
Record access : Type := mkAccess {
  a_struct : string; a_field : string; a_fn : string; a_kind : akind;
  a_in_process : bool;      (* the function can run in a process goroutine (many of them) *)
  a_in_monitor : bool;      (* ... in the monitor goroutine (one) *)
  a_in_heartbeat : bool     (* ... in the heartbeat goroutine (one) *)
}.
Definition is_plain_write (k : akind) : bool := match k with KWrite | KInit => true | _ => false end.
Definition is_atomic (k : akind) : bool := match k with KAtomic => true | _ => false end.
Definition in_goroutine (a : access) : bool := a_in_process a || a_in_monitor a || a_in_heartbeat a.
