(* GenPolarityChecks.v — ties the hand-written polarity_of / mode_of / weak / contr of the model to the
   graphs obtained by EXECUTING SessionType.Polarity(), Modality(), IsWeakenable, IsContractable of
   /repo on one value of every type constructor at every mode (gen/PolarityTable.v, regenerated on
   every run). *)
Require Import Grits.Base Grits.ModeDefs Grits.Modes Grits.STypes Grits.PolarityDefs Grits.gen.PolarityTable.

Definition polarity_row_ok (r : sty * pol_result * mode * bool * bool) : bool :=
  let '(t, p, m, w, c) := r in
  pol_result_eqb (pol_result_of (polarity_of t)) p &&
  mode_same (mode_of t) m &&
  Bool.eqb (weak (mode_of t)) w &&
  Bool.eqb (contr (mode_of t)) c.

(* every constructor occurs at every one of the four modes (the dump is complete) *)
Definition polarity_covers : bool :=
  forallb (fun k => forallb (fun m =>
    existsb (fun '(t, _, _, _, _) => tkind_eqb (kind_of t) k && mode_same (mode_of t) m) polarity_tbl)
    four_modes) all_kinds.

Definition polarity_agree_b : bool :=
  forallb polarity_row_ok polarity_tbl && polarity_covers &&
  match polarity_method_panics with [] => true | _ => false end.

(* the rows on which model and code disagree, for diagnostics *)
Definition polarity_disagreements : list sty :=
  map (fun '(t, _, _, _, _) => t) (filter (fun r => negb (polarity_row_ok r)) polarity_tbl).

(* polarity_of depends on the head constructor only, so a table with one value per constructor
   determines it *)
Definition polarity_by_kind (k : tkind) : pol_result :=
  match k with
  | KName => PPanic
  | KUnit | KTensor | KPlus | KDown => POk Pos
  | KLolli | KWith | KUp => POk Neg
  end.
