(* EqualWF.v — the well-formedness hypotheses of the C08 / C15 theorems as BOOLEAN predicates, so
   that the correspondence run can evaluate them on every environment the implementation's
   SanityChecksTypeDefinitions accepts (lib/vlib/props/C08.py requires `wf_env = true` there).
   They restate what the parser and the sanity checks guarantee:
     - labels are LABEL lexemes, choices have at least one branch            (grammar)
     - every name is defined, carries the mode of its definition             (checkTypeLabels, checkTypeModalities)
     - branch labels are pairwise distinct                                   (checkTypeLabels, as repaired)
     - every mode is one of the four proper modes and modes are uniform: all nodes up to the next
       shift carry the same mode, a shift's target mode is that mode and its continuation starts
       at the shift's source mode                                            (checkTypeModalities)
     - definitions are contractive                                          (isContractive)
   No proofs here. *)
Require Import Grits.Base Grits.ModeDefs Grits.Modes Grits.STypes Grits.Scan Grits.Equal.

Fixpoint all_chars (p : ascii -> bool) (s : string) : bool :=
  match s with EmptyString => true | String c r => p c && all_chars p r end.

(* a lexeme of the token LABEL as far as the type sub-language is concerned: a non-empty run of
   label characters other than the unit "1" *)
Definition ident_ok (x : string) : bool :=
  negb (String.eqb x "") && all_chars is_lab x && negb (String.eqb x "1").

Fixpoint nodup_str (l : list string) : bool :=
  match l with [] => true | x :: r => negb (str_mem x r) && nodup_str r end.

(* syntactic well-formedness: what any type produced by the parser satisfies *)
Fixpoint syn_ok (t : sty) : bool :=
  match t with
  | TName x _ => ident_ok x
  | TUnit _ => true
  | TTensor a b _ | TLolli a b _ => syn_ok a && syn_ok b
  | TPlus bs _ | TWith bs _ => negb (brs_len bs =? 0)%nat && syn_ok_brs bs
  | TUp _ _ a | TDown _ _ a => syn_ok a
  end
with syn_ok_brs (b : brs) : bool :=
  match b with BNil => true | BCons l a r => ident_ok l && syn_ok a && syn_ok_brs r end.

(* every shift carries two proper modes *)
Fixpoint modes_wf (t : sty) : bool :=
  match t with
  | TName _ _ | TUnit _ => true
  | TTensor a b _ | TLolli a b _ => modes_wf a && modes_wf b
  | TPlus bs _ | TWith bs _ => modes_wf_brs bs
  | TUp f t a | TDown f t a => proper f && proper t && modes_wf a
  end
with modes_wf_brs (b : brs) : bool :=
  match b with BNil => true | BCons _ a r => modes_wf a && modes_wf_brs r end.

(* mode uniformity: every node up to the next shift has mode m; a shift lands at m and its
   continuation is uniform at the shift's source mode *)
Fixpoint uniform (m : mode) (t : sty) : bool :=
  match t with
  | TName _ m' | TUnit m' => mode_same m m'
  | TTensor a b m' | TLolli a b m' => mode_same m m' && uniform m a && uniform m b
  | TPlus bs m' | TWith bs m' => mode_same m m' && uniform_brs m bs
  | TUp f t a | TDown f t a => mode_same m t && uniform f a
  end
with uniform_brs (m : mode) (b : brs) : bool :=
  match b with BNil => true | BCons _ a r => uniform m a && uniform_brs m r end.

(* distinct branch labels in every choice *)
Fixpoint labels_ok (t : sty) : bool :=
  match t with
  | TName _ _ | TUnit _ => true
  | TTensor a b _ | TLolli a b _ => labels_ok a && labels_ok b
  | TPlus bs _ | TWith bs _ => nodup_str (brs_labels bs) && labels_ok_brs bs
  | TUp _ _ a | TDown _ _ a => labels_ok a
  end
with labels_ok_brs (b : brs) : bool :=
  match b with BNil => true | BCons _ a r => labels_ok a && labels_ok_brs r end.

(* every name is defined and carries the mode of its definition *)
Fixpoint names_ok (D : tenv) (t : sty) : bool :=
  match t with
  | TName x m => match tlookup D x with Some d => mode_same m (td_mode d) | None => false end
  | TUnit _ => true
  | TTensor a b _ | TLolli a b _ => names_ok D a && names_ok D b
  | TPlus bs _ | TWith bs _ => names_ok_brs D bs
  | TUp _ _ a | TDown _ _ a => names_ok D a
  end
with names_ok_brs (D : tenv) (b : brs) : bool :=
  match b with BNil => true | BCons _ a r => names_ok D a && names_ok_brs D r end.

(* a type over D as CheckTypeWellFormedness accepts it *)
Definition wf_ty (D : tenv) (t : sty) : bool :=
  syn_ok t && modes_wf t && proper (mode_of t) && uniform (mode_of t) t && labels_ok t && names_ok D t.

(* unfold names at the head, at most n times *)
Fixpoint unfold_head (n : nat) (D : tenv) (t : sty) : option sty :=
  match n with
  | O => match t with TName _ _ => None | _ => Some t end
  | S n' =>
    match t with
    | TName x _ => match tlookup D x with Some d => unfold_head n' D (td_body d) | None => None end
    | _ => Some t
    end
  end.

Definition contractive_b (D : tenv) : bool :=
  forallb (fun d => match unfold_head (length D) D (td_body d) with Some _ => true | None => false end) D.

(* an environment as SanityChecksTypeDefinitions accepts it *)
Definition wf_env (D : tenv) : bool :=
  forallb (fun d => wf_ty D (td_body d)) D && contractive_b D.
