(* Forms.v — process terms (process/form.go, name.go, process.go). *)
Require Import Grits.Base Grits.ModeDefs Grits.STypes.

(* run-time channel identity; None before a channel is attached *)
Definition cid := list nat.

Record name : Type := mkName {
  ident : string;
  is_self : bool;
  pol : option polarity;      (* ExplicitPolarity *)
  nty : option sty;           (* Type (annotation, or set by the typechecker) *)
  chan : option cid           (* Channel: None = not initialised *)
}.

Definition plain_name (x : string) : name := mkName x false None None None.
Definition self_name : name := mkName "" true None None None.
Definition set_nty (n : name) (t : option sty) : name := mkName (ident n) (is_self n) (pol n) t (chan n).
Definition set_pol (n : name) (p : option polarity) : name := mkName (ident n) (is_self n) p (nty n) (chan n).

Inductive form : Type :=
| FSend (to pay cont : name)
| FRecv (pay cont from : name) (k : form)
| FSel (to : name) (l : string) (cont : name)
| FCase (from : name) (bs : branches)
| FNew (x : name) (body k : form)
| FClose (c : name)
| FWait (c : name) (k : form)
| FFwd (to from : name) (droppable : bool)
| FSplit (x y from : name) (k : form)
| FCall (f : string) (args : list name) (pty : option sty)
| FCast (to cont : name)
| FShift (x from : name) (k : form)
| FDrop (c : name) (k : form)
| FPrint (l : string) (k : form)
with branches : Type :=
| BrNil
| BrCons (l : string) (pay : name) (k : form) (rest : branches).

Scheme form_ind2 := Induction for form Sort Prop
with branches_ind2 := Induction for branches Sort Prop.
Combined Scheme form_branches_ind from form_ind2, branches_ind2.

Fixpoint br_snoc (b : branches) (l : string) (pay : name) (k : form) : branches :=
  match b with BrNil => BrCons l pay k BrNil | BrCons l' p' k' r => BrCons l' p' k' (br_snoc r l pay k) end.
Fixpoint br_len (b : branches) : nat := match b with BrNil => 0 | BrCons _ _ _ r => S (br_len r) end.

(* FormHasContinuation *)
Definition has_continuation (f : form) : bool :=
  match f with
  | FSend _ _ _ | FSel _ _ _ | FClose _ | FFwd _ _ _ | FCall _ _ _ | FCast _ _ => false
  | _ => true
  end.

Record fundef : Type := {
  fn_name : string;
  fn_params : list name;
  fn_body : form;
  fn_type : option sty;
  fn_explicit : option name      (* Some p = UsesExplicitProvider with ExplicitProvider p *)
}.
Record procdef : Type := {
  pr_body : form;
  pr_providers : list name;
  pr_type : option sty
}.
Record program : Type := {
  p_procs : list procdef;
  p_assumed : list name;
  p_funs : list fundef;
  p_types : tenv
}.

(* statements as the parser produces them, before expandProcesses *)
Inductive stmt : Type :=
| SProc (providers : list name) (ty : option sty) (body : form)
| SFun (f : fundef)
| SType (x : string) (t : sty)
| SAssume (ns : list name)
| SExec (fname : string).
