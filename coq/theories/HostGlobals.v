(* HostGlobals.v — the host of Host.v, with the package-level variables of the Go program as part of
   its state (C19).

   Host.v models a run as a FUNCTION of the program text (run_alone): "no shared state by
   construction".  Here that is no longer built in.  The host carries a store of package-level
   variables; the pipeline (parse + typecheck + execute one program) is ANY computation that may
   consult the store and may update it — but only through uses that the table extracted from the Go
   source lists: an update of variable v performed in function f is possible only if the table has a
   UWrite / UEscape row for (v, f) that is not init-time code (func init and package-level
   initialisers run once, before main: they produce the initial store and never run again).  The
   activity of leftover goroutines of earlier runs between two runs is likewise any computation over
   the store that the table permits.

   The only thing assumed about the pipeline is that FROM THE INITIAL STORE it behaves like the
   model (run_alone): this is what every correspondence suite checks, each program being run in a
   fresh OS process.  What it does from any other store is unconstrained — a memo table that answers
   from an earlier program, a pool that hands back a dirty lexer, a semaphore that is exhausted are
   all instances.  The theorem (proofs/HostGlobalsProofs.v): if the table has no such row, the
   store never changes, every run starts from the initial store, and the host coincides with
   Host.host_runs; hence `isolated`. *)
From stdpp Require Import gmap.
Require Import Grits.Base Grits.Runtime Grits.Host Grits.GlobalsDefs.

Section GProg.
Context {V : Type}.                       (* values of package-level variables: anything *)

(* a computation interacting with the store; every access names the variable and the function it occurs in *)
Inductive gprog (A : Type) : Type :=
| GRet (a : A)
| GGet (v : gid) (f : gid) (k : V -> gprog A)
| GSet (v : gid) (f : gid) (x : V) (k : gprog A).
Arguments GRet {A} a.
Arguments GGet {A} v f k.
Arguments GSet {A} v f x k.

Definition gstore : Type := gid -> V.
Definition gupd (st : gstore) (v : gid) (x : V) : gstore := fun w => if gid_eqb w v then x else st w.

Fixpoint gexec {A} (st : gstore) (p : gprog A) : A * gstore :=
  match p with
  | GRet a => (a, st)
  | GGet v f k => gexec st (k (st v))
  | GSet v f x k => gexec (gupd st v x) k
  end.

(* the table permits an update of v in f: a mutating row for (v, f) that is not init-time code *)
Definition may_mutate (tbl : list guse) (v f : gid) : Prop :=
  exists u, In u tbl /\ u_gid u = v /\ u_fid u = f /\ is_mutation (u_kind u) = true /\ init_context u = false.

Fixpoint permitted (tbl : list guse) {A} (p : gprog A) : Prop :=
  match p with
  | GRet _ => True
  | GGet v f k => forall x, permitted tbl (k x)
  | GSet v f x k => may_mutate tbl v f /\ permitted tbl k
  end.

Section Host.
Variable pick : nat -> nat -> nat.
Variable fuel : nat.
Variable pipe : string -> gprog (outcome1 * list leftover).   (* the instrumented pipeline *)
Variable left : list nat -> gprog unit.                       (* what leftover goroutines do to the store *)

Definition ghost : Type := (host * gstore)%type.

Definition ghost_run (who : list nat) (hs : ghost) (s : string) : outcome1 * ghost :=
  let '(h, st) := hs in
  let h1 := host_step_leftovers who h in
  let st1 := snd (gexec st (left who)) in
  let '((o, ls), st2) := gexec st1 (pipe s) in
  (o, ({| h_left := h_left h1 ++ ls;
          h_output := h_output h1 ++ match o with ORan l | ORuntimeError l => l | _ => [] end |}, st2)).

Fixpoint ghost_runs (hs : ghost) (hist : list (list nat * string)) : list outcome1 * ghost :=
  match hist with
  | [] => ([], hs)
  | (who, s) :: r =>
    let '(o, hs1) := ghost_run who hs s in
    let '(os, hs2) := ghost_runs hs1 r in
    (o :: os, hs2)
  end.
End Host.
End GProg.
Arguments gprog V A : clear implicits.
Arguments GRet {V A} a.
Arguments GGet {V A} v f k.
Arguments GSet {V A} v f x k.
Arguments gstore V : clear implicits.
