(* Dump.v — canonical text dumps of model values, byte-identical to the hooks in
   /repo/process/verif_dump.go (the correspondence harness diffs the two). *)
Require Import Grits.Base Grits.ModeDefs Grits.Modes Grits.STypes Grits.Forms.

Definition dump_mode (m : mode) : string :=
  match m with
  | Rep => "rep" | Mul => "mul" | Aff => "aff" | Lin => "lin" | Unset => "unset"
  | Invalid s => "invalid:" ^^ s
  end.

Fixpoint dump_type (t : sty) : string :=
  match t with
  | TName x m => "(N " ^^ x ^^ " " ^^ dump_mode m ^^ ")"
  | TUnit m => "(1 " ^^ dump_mode m ^^ ")"
  | TTensor a b m => "(* " ^^ dump_mode m ^^ " " ^^ dump_type a ^^ " " ^^ dump_type b ^^ ")"
  | TLolli a b m => "(-o " ^^ dump_mode m ^^ " " ^^ dump_type a ^^ " " ^^ dump_type b ^^ ")"
  | TPlus bs m => "(+ " ^^ dump_mode m ^^ dump_brs bs ^^ ")"
  | TWith bs m => "(& " ^^ dump_mode m ^^ dump_brs bs ^^ ")"
  | TUp f t a => "(up " ^^ dump_mode f ^^ " " ^^ dump_mode t ^^ " " ^^ dump_type a ^^ ")"
  | TDown f t a => "(dn " ^^ dump_mode f ^^ " " ^^ dump_mode t ^^ " " ^^ dump_type a ^^ ")"
  end
with dump_brs (b : brs) : string :=
  match b with
  | BNil => ""
  | BCons l a r => " (" ^^ l ^^ " " ^^ dump_type a ^^ ")" ^^ dump_brs r
  end.

Definition dump_otype (t : option sty) : string := match t with Some t => dump_type t | None => "_" end.

Definition dump_name (with_types : bool) (n : name) : string :=
  "(n " ^^ (if String.eqb (ident n) "" then """""" else ident n) ^^ " " ^^ (if is_self n then "S" else "-") ^^ " " ^^
  (match pol n with Some Pos => "+" | Some Neg => "-" | _ => "_" end) ^^ " " ^^
  (if with_types then dump_otype (nty n) else "_") ^^ ")".

Fixpoint join_sp (l : list string) : string :=
  match l with [] => "" | [x] => x | x :: r => x ^^ " " ^^ join_sp r end.
Definition dump_names (with_types : bool) (ns : list name) : string :=
  "(" ^^ join_sp (map (dump_name with_types) ns) ^^ ")".

Fixpoint dump_form (wt : bool) (f : form) : string :=
  let d := dump_name wt in
  match f with
  | FSend a b c => "(send " ^^ d a ^^ " " ^^ d b ^^ " " ^^ d c ^^ ")"
  | FRecv p c fr k => "(recv " ^^ d p ^^ " " ^^ d c ^^ " " ^^ d fr ^^ " " ^^ dump_form wt k ^^ ")"
  | FSel a l c => "(sel " ^^ d a ^^ " " ^^ l ^^ " " ^^ d c ^^ ")"
  | FCase fr bs => "(case " ^^ d fr ^^ dump_branches wt bs ^^ ")"
  | FNew x b k => "(new " ^^ d x ^^ " " ^^ dump_form wt b ^^ " " ^^ dump_form wt k ^^ ")"
  | FClose c => "(close " ^^ d c ^^ ")"
  | FWait c k => "(wait " ^^ d c ^^ " " ^^ dump_form wt k ^^ ")"
  | FFwd a b _ => "(fwd " ^^ d a ^^ " " ^^ d b ^^ ")"
  | FSplit x y fr k => "(split " ^^ d x ^^ " " ^^ d y ^^ " " ^^ d fr ^^ " " ^^ dump_form wt k ^^ ")"
  | FCall fn args pt => "(call " ^^ fn ^^ " " ^^ dump_names wt args ^^ " " ^^ (if wt then dump_otype pt else "_") ^^ ")"
  | FCast a c => "(cast " ^^ d a ^^ " " ^^ d c ^^ ")"
  | FShift x fr k => "(shift " ^^ d x ^^ " " ^^ d fr ^^ " " ^^ dump_form wt k ^^ ")"
  | FDrop c k => "(drop " ^^ d c ^^ " " ^^ dump_form wt k ^^ ")"
  | FPrint l k => "(print " ^^ l ^^ " " ^^ dump_form wt k ^^ ")"
  end
with dump_branches (wt : bool) (b : branches) : string :=
  match b with
  | BrNil => ""
  | BrCons l p k r => " (" ^^ l ^^ " " ^^ dump_name wt p ^^ " " ^^ dump_form wt k ^^ ")" ^^ dump_branches wt r
  end.

(* one line per declaration, in the order VerifDumpProgram prints them *)
Definition dump_program (wt : bool) (p : program) : list string :=
  map (fun d => "type " ^^ td_name d ^^ " " ^^ dump_mode (td_mode d) ^^ " " ^^ dump_type (td_body d)) (p_types p) ++
  map (fun f => "fun " ^^ fn_name f ^^ " " ^^
                (match fn_explicit f with Some ep => dump_name wt ep | None => "_" end) ^^ " " ^^
                dump_names true (fn_params f) ^^ " " ^^ dump_otype (fn_type f) ^^ " " ^^ dump_form wt (fn_body f)) (p_funs p) ++
  map (fun a => "assume " ^^ dump_name true a) (p_assumed p) ++
  map (fun pr => "proc " ^^ dump_names false (pr_providers pr) ^^ " " ^^ dump_otype (pr_type pr) ^^ " " ^^
                 dump_form wt (pr_body pr)) (p_procs p).
