(* PolarityDefs.v — result type of the behavioural dump of SessionType.Polarity() (gen/PolarityTable.v). *)
Require Import Grits.Base Grits.ModeDefs Grits.Modes Grits.STypes.

Inductive pol_result : Type :=
| POk (p : polarity)     (* the method returned *)
| PPanic                 (* the method panicked *)
| POther.                (* a value that is none of POSITIVE / NEGATIVE / UNKNOWN *)

Definition pol_result_of (o : outcome polarity) : pol_result :=
  match o with Ok p => POk p | Panic _ => PPanic | Hang _ => POther end.

Definition pol_result_eqb (a b : pol_result) : bool :=
  match a, b with
  | POk p, POk q => pol_eqb p q
  | PPanic, PPanic => true
  | _, _ => false
  end.

(* head constructor of a type, to state that the dump covers every constructor *)
Inductive tkind : Type := KName | KUnit | KTensor | KLolli | KPlus | KWith | KUp | KDown.
Definition kind_of (t : sty) : tkind :=
  match t with
  | TName _ _ => KName | TUnit _ => KUnit | TTensor _ _ _ => KTensor | TLolli _ _ _ => KLolli
  | TPlus _ _ => KPlus | TWith _ _ => KWith | TUp _ _ _ => KUp | TDown _ _ _ => KDown
  end.
Definition tkind_eqb (a b : tkind) : bool :=
  match a, b with
  | KName, KName | KUnit, KUnit | KTensor, KTensor | KLolli, KLolli
  | KPlus, KPlus | KWith, KWith | KUp, KUp | KDown, KDown => true
  | _, _ => false
  end.
Definition all_kinds : list tkind := [KName; KUnit; KTensor; KLolli; KPlus; KWith; KUp; KDown].
