(* FormIR.v — a small intermediate representation of the substitution / free-name / copy code of
   /repo/process/form.go, and its interpreter over the model's terms (Forms.v).
   `probe formops` (harness/formops.go, go/ast) translates the CURRENT Go source into a `table` of
   this IR (gen/FormOps.v) on every run; proofs/FormOpsAgree.v proves that the interpretation of
   that table IS the hand-written model of Subst.v (what all other theorems are about).
   The hand-written part of the tie is here: which Go struct field is which constructor argument
   of `form` (`expected_structs` + the `match` of the interpreters) and the meaning of the IR.
   Go mutates in place; the interpreters thread an environment holding the CURRENT value of every
   field of the receiver (so a test `p.x.Equal(old)` after `p.x.Substitute(old,new)` sees the new
   value, as in Go).  No proofs here. *)
Require Import Grits.Base Grits.ModeDefs Grits.STypes Grits.Forms Grits.Subst.

Definition field := string.

(* ------------------------------------------------------------------------------------------ *)
(* the IR                                                                                      *)
(* ------------------------------------------------------------------------------------------ *)

(* Substitute(old, new): conditions `p.F.Equal(old)` combined with ! && || *)
Inductive scond : Type :=
| CEqualOld (f : field)
| CNot (c : scond)
| CAnd (a b : scond)
| COr (a b : scond).

Inductive sstmt : Type :=
| SubName (f : field)                        (* p.F.Substitute(old, new), F a Name *)
| SubForm (f : field)                        (* p.F.Substitute(old, new), F a Form *)
| SubNames (f : field)                       (* for i := range p.F { p.F[i].Substitute(old, new) }, F a []Name *)
| SubBranches (f : field)                    (* the same, F a []*BranchForm *)
| SIf (c : scond) (th el : list sstmt)
| SReturn.

(* FreeNames() *)
Inductive nexpr : Type :=
| NField (f : field)                         (* p.F *)
| NElem.                                     (* the element of the enclosing loop over a []Name field *)

Inductive fexpr : Type :=
| EVar (v : string)
| EFree (f : field)                          (* p.F.FreeNames() *)
| EFreeElem                                  (* branch.FreeNames() in a loop over a []*BranchForm field *)
| EAppendIfNotSelf (n : nexpr) (e : fexpr)
| ERemoveBound (e : fexpr) (n : nexpr)
| EMerge (a b : fexpr)
| EAppendAll (a b : fexpr).                  (* append(a, b...) *)

Inductive fstmt : Type :=
| FVarNil (v : string)                       (* var v []Name *)
| FAssign (v : string) (e : fexpr)           (* v = e  /  v := e *)
| FForNames (f : field) (body : list fstmt)
| FForBranches (f : field) (body : list fstmt).

Record fmethod : Type := mkFMethod { fm_body : list fstmt; fm_ret : fexpr }.

(* the list helpers, as programs *)
Inductive hcond : Type :=
| HNot (c : hcond)
| HIsSelf (v : string)                       (* v.IsSelf *)
| HEqual (a b : string)                      (* a.Equal(b) *)
| HCallBool (h l n : string).                (* h(l, n) for a helper h of type ([]Name, Name) bool *)

Inductive hstmt : Type :=
| HForEach (x l : string) (body : list hstmt)   (* for _, x := range l *)
| HIf (c : hcond) (body : list hstmt)
| HAppend (l x : string)                     (* l = append(l, x) *)
| HReturnList (l : string)
| HReturnBool (b : bool).

Record helper : Type := mkHelper {
  h_params : list (string * string);         (* name, Go type ("Name" / "[]Name") *)
  h_result : string;
  h_named : option string;                   (* named result variable *)
  h_body : list hstmt }.

(* constructors and CopyForm *)
Inductive cval : Type := KParam (p : string) | KBool (b : bool).
Record ctor : Type := mkCtor { c_struct : string; c_params : list string; c_inits : list (field * cval) }.

Inductive carg : Type :=
| ACopyName (f : field)                      (* *p.F.Copy() *)
| AShare (f : field)                         (* p.F : the value itself (aliasing for Form / slice fields) *)
| ACopyForm (f : field)                      (* CopyForm(p.F) *)
| ACopyBranches (f : field)                  (* fresh slice, every element CopyForm'ed *)
| ACopyNames (f : field).                    (* fresh slice, every element Copy'ed *)
Record ccase : Type := mkCCase { cc_ctor : string; cc_args : list carg }.

Record table : Type := mkTable {
  t_structs : list (string * list (field * string));
  t_ctors : list (string * ctor);
  t_subst : list (string * list sstmt);
  t_free : list (string * fmethod);
  t_helpers : list (string * helper);
  t_hascont : list (string * bool) * bool;
  t_copy : list (string * ccase) }.

(* the struct layout the interpreters below rely on (field of the Go struct -> constructor
   argument of `form`): compared with the translated declarations by a theorem *)
Definition expected_structs : list (string * list (field * string)) := [
  ("SendForm", [("to_c", "Name"); ("payload_c", "Name"); ("continuation_c", "Name")]);
  ("ReceiveForm", [("payload_c", "Name"); ("continuation_c", "Name"); ("from_c", "Name"); ("continuation_e", "Form")]);
  ("SelectForm", [("to_c", "Name"); ("label", "Label"); ("continuation_c", "Name")]);
  ("BranchForm", [("label", "Label"); ("payload_c", "Name"); ("continuation_e", "Form")]);
  ("CaseForm", [("from_c", "Name"); ("branches", "[]*BranchForm")]);
  ("NewForm", [("new_name_c", "Name"); ("body", "Form"); ("continuation_e", "Form"); ("derivedFromMacro", "bool")]);
  ("CloseForm", [("from_c", "Name")]);
  ("ForwardForm", [("to_c", "Name"); ("from_c", "Name"); ("to_drop", "bool")]);
  ("SplitForm", [("channel_one", "Name"); ("channel_two", "Name"); ("from_c", "Name"); ("continuation_e", "Form")]);
  ("CallForm", [("functionName", "string"); ("parameters", "[]Name"); ("ProviderType", "types.SessionType")]);
  ("WaitForm", [("to_c", "Name"); ("continuation_e", "Form")]);
  ("CastForm", [("to_c", "Name"); ("continuation_c", "Name")]);
  ("ShiftForm", [("continuation_c", "Name"); ("from_c", "Name"); ("continuation_e", "Form")]);
  ("DropForm", [("client_c", "Name"); ("continuation_e", "Form")]);
  ("PrintForm", [("label", "Label"); ("continuation_e", "Form")])
].

(* the Go type of a form *)
Definition struct_of (f : form) : string :=
  match f with
  | FSend _ _ _ => "SendForm" | FRecv _ _ _ _ => "ReceiveForm" | FSel _ _ _ => "SelectForm"
  | FCase _ _ => "CaseForm" | FNew _ _ _ => "NewForm" | FClose _ => "CloseForm" | FWait _ _ => "WaitForm"
  | FFwd _ _ _ => "ForwardForm" | FSplit _ _ _ _ => "SplitForm" | FCall _ _ _ => "CallForm"
  | FCast _ _ => "CastForm" | FShift _ _ _ => "ShiftForm" | FDrop _ _ => "DropForm" | FPrint _ _ => "PrintForm"
  end.

(* ------------------------------------------------------------------------------------------ *)
(* Substitute                                                                                  *)
(* ------------------------------------------------------------------------------------------ *)

(* current values of the receiver's fields; a Form / branches field carries its current value and
   the value after `.Substitute(old,new)` of the ORIGINAL (computed by the structural recursion):
   valid as long as a method substitutes each such field at most once (`subst_once`) *)
Record senv : Type := mkSenv {
  se_n : list (field * name);
  se_f : list (field * (form * form));
  se_l : list (field * list name);
  se_b : list (field * (branches * branches)) }.

Definition zero_name : name := plain_name "".     (* Go's Name{} *)
Definition no_form : form := FClose zero_name.     (* stands for a nil Form: never produced by a well-formed table *)

Definition gN (f : field) (e : senv) : name := match alookup f (se_n e) with Some n => n | None => zero_name end.
Definition gF (f : field) (e : senv) : form := match alookup f (se_f e) with Some (c, _) => c | None => no_form end.
Definition gL (f : field) (e : senv) : list name := match alookup f (se_l e) with Some l => l | None => [] end.
Definition gB (f : field) (e : senv) : branches := match alookup f (se_b e) with Some (c, _) => c | None => BrNil end.

Fixpoint eval_scond (old : name) (e : senv) (c : scond) : bool :=
  match c with
  | CEqualOld f => name_equal (gN f e) old
  | CNot c => negb (eval_scond old e c)
  | CAnd a b => eval_scond old e a && eval_scond old e b
  | COr a b => eval_scond old e a || eval_scond old e b
  end.

(* result: the environment and whether `return` was executed *)
Fixpoint exec_s (old new : name) (s : sstmt) (e : senv) {struct s} : senv * bool :=
  let seq := fix seq (ss : list sstmt) (e : senv) {struct ss} : senv * bool :=
    match ss with
    | [] => (e, false)
    | s :: r => let '(e', ret) := exec_s old new s e in if ret then (e', true) else seq r e'
    end in
  match s with
  | SubName f =>
      (match alookup f (se_n e) with
       | Some n => mkSenv (aset f (name_subst old new n) (se_n e)) (se_f e) (se_l e) (se_b e)
       | None => e end, false)
  | SubForm f =>
      (match alookup f (se_f e) with
       | Some (_, post) => mkSenv (se_n e) (aset f (post, post) (se_f e)) (se_l e) (se_b e)
       | None => e end, false)
  | SubNames f =>
      (match alookup f (se_l e) with
       | Some l => mkSenv (se_n e) (se_f e) (aset f (map (name_subst old new) l) (se_l e)) (se_b e)
       | None => e end, false)
  | SubBranches f =>
      (match alookup f (se_b e) with
       | Some (_, post) => mkSenv (se_n e) (se_f e) (se_l e) (aset f (post, post) (se_b e))
       | None => e end, false)
  | SIf c th el => if eval_scond old e c then seq th e else seq el e
  | SReturn => (e, true)
  end.

Fixpoint exec_ss (old new : name) (ss : list sstmt) (e : senv) : senv * bool :=
  match ss with
  | [] => (e, false)
  | s :: r => let '(e', ret) := exec_s old new s e in if ret then (e', true) else exec_ss old new r e'
  end.

Definition smethod (t : table) (ty : string) : list sstmt :=
  match alookup ty (t_subst t) with Some b => b | None => [] end.

Definition run_subst (t : table) (ty : string) (old new : name) (e : senv) : senv :=
  fst (exec_ss old new (smethod t ty) e).

Fixpoint ir_subst (t : table) (old new : name) (f : form) {struct f} : form :=
  match f with
  | FSend a b c =>
      let e := run_subst t "SendForm" old new (mkSenv [("to_c", a); ("payload_c", b); ("continuation_c", c)] [] [] []) in
      FSend (gN "to_c" e) (gN "payload_c" e) (gN "continuation_c" e)
  | FRecv p c fr k =>
      let e := run_subst t "ReceiveForm" old new
                 (mkSenv [("payload_c", p); ("continuation_c", c); ("from_c", fr)] [("continuation_e", (k, ir_subst t old new k))] [] []) in
      FRecv (gN "payload_c" e) (gN "continuation_c" e) (gN "from_c" e) (gF "continuation_e" e)
  | FSel a l c =>
      let e := run_subst t "SelectForm" old new (mkSenv [("to_c", a); ("continuation_c", c)] [] [] []) in
      FSel (gN "to_c" e) l (gN "continuation_c" e)
  | FCase fr bs =>
      let e := run_subst t "CaseForm" old new (mkSenv [("from_c", fr)] [] [] [("branches", (bs, ir_subst_brs t old new bs))]) in
      FCase (gN "from_c" e) (gB "branches" e)
  | FNew x b k =>
      let e := run_subst t "NewForm" old new
                 (mkSenv [("new_name_c", x)] [("body", (b, ir_subst t old new b)); ("continuation_e", (k, ir_subst t old new k))] [] []) in
      FNew (gN "new_name_c" e) (gF "body" e) (gF "continuation_e" e)
  | FClose c =>
      let e := run_subst t "CloseForm" old new (mkSenv [("from_c", c)] [] [] []) in
      FClose (gN "from_c" e)
  | FWait c k =>
      let e := run_subst t "WaitForm" old new (mkSenv [("to_c", c)] [("continuation_e", (k, ir_subst t old new k))] [] []) in
      FWait (gN "to_c" e) (gF "continuation_e" e)
  | FFwd a b d =>
      let e := run_subst t "ForwardForm" old new (mkSenv [("to_c", a); ("from_c", b)] [] [] []) in
      FFwd (gN "to_c" e) (gN "from_c" e) d
  | FSplit x y fr k =>
      let e := run_subst t "SplitForm" old new
                 (mkSenv [("channel_one", x); ("channel_two", y); ("from_c", fr)] [("continuation_e", (k, ir_subst t old new k))] [] []) in
      FSplit (gN "channel_one" e) (gN "channel_two" e) (gN "from_c" e) (gF "continuation_e" e)
  | FCall fn args pt =>
      let e := run_subst t "CallForm" old new (mkSenv [] [] [("parameters", args)] []) in
      FCall fn (gL "parameters" e) pt
  | FCast a c =>
      let e := run_subst t "CastForm" old new (mkSenv [("to_c", a); ("continuation_c", c)] [] [] []) in
      FCast (gN "to_c" e) (gN "continuation_c" e)
  | FShift x fr k =>
      let e := run_subst t "ShiftForm" old new
                 (mkSenv [("continuation_c", x); ("from_c", fr)] [("continuation_e", (k, ir_subst t old new k))] [] []) in
      FShift (gN "continuation_c" e) (gN "from_c" e) (gF "continuation_e" e)
  | FDrop c k =>
      let e := run_subst t "DropForm" old new (mkSenv [("client_c", c)] [("continuation_e", (k, ir_subst t old new k))] [] []) in
      FDrop (gN "client_c" e) (gF "continuation_e" e)
  | FPrint l k =>
      let e := run_subst t "PrintForm" old new (mkSenv [] [("continuation_e", (k, ir_subst t old new k))] [] []) in
      FPrint l (gF "continuation_e" e)
  end
with ir_subst_brs (t : table) (old new : name) (b : branches) {struct b} : branches :=
  match b with
  | BrNil => BrNil
  | BrCons l p k r =>
      let e := run_subst t "BranchForm" old new (mkSenv [("payload_c", p)] [("continuation_e", (k, ir_subst t old new k))] [] []) in
      BrCons l (gN "payload_c" e) (gF "continuation_e" e) (ir_subst_brs t old new r)
  end.

(* side conditions of the reading above, checked on the translated table by computation:
   every field mentioned exists in the struct with the right type, and no Form / branches field is
   the target of two Substitute statements in one method *)
Definition ftype (t : table) (ty : string) (f : field) : string :=
  match alookup ty (t_structs t) with
  | Some fs => match alookup f fs with Some x => x | None => "" end
  | None => "" end.

Fixpoint scond_ok (t : table) (ty : string) (c : scond) : bool :=
  match c with
  | CEqualOld f => String.eqb (ftype t ty f) "Name"
  | CNot c => scond_ok t ty c
  | CAnd a b | COr a b => scond_ok t ty a && scond_ok t ty b
  end.

(* the Form / branches fields substituted by a statement list, with multiplicity *)
Fixpoint sub_targets (s : sstmt) : list field :=
  let all := fix all (ss : list sstmt) : list field := match ss with [] => [] | s :: r => sub_targets s ++ all r end in
  match s with
  | SubForm f | SubBranches f => [f]
  | SIf _ th el => all th ++ all el
  | _ => []
  end.
Fixpoint sstmt_ok (t : table) (ty : string) (s : sstmt) : bool :=
  let all := fix all (ss : list sstmt) : bool := match ss with [] => true | s :: r => sstmt_ok t ty s && all r end in
  match s with
  | SubName f => String.eqb (ftype t ty f) "Name"
  | SubForm f => String.eqb (ftype t ty f) "Form"
  | SubNames f => String.eqb (ftype t ty f) "[]Name"
  | SubBranches f => String.eqb (ftype t ty f) "[]*BranchForm"
  | SIf c th el => scond_ok t ty c && all th && all el
  | SReturn => true
  end.
Fixpoint nodup_str (l : list string) : bool :=
  match l with [] => true | x :: r => negb (existsb (String.eqb x) r) && nodup_str r end.

Definition subst_method_ok (t : table) (ty : string) : bool :=
  match alookup ty (t_subst t) with
  | Some body => forallb (sstmt_ok t ty) body && nodup_str (flat_map sub_targets body)
  | None => false
  end.
Definition subst_table_ok (t : table) : bool :=
  forallb (fun '(ty, _) => subst_method_ok t ty) (t_structs t).

(* ------------------------------------------------------------------------------------------ *)
(* the list helpers                                                                            *)
(* ------------------------------------------------------------------------------------------ *)

Record henv : Type := mkHenv { he_l : list (string * list name); he_n : list (string * name) }.
Inductive hval : Type := HVList (l : list name) | HVBool (b : bool).

Definition hL (x : string) (e : henv) : list name := match alookup x (he_l e) with Some l => l | None => [] end.
Definition hN (x : string) (e : henv) : name := match alookup x (he_n e) with Some n => n | None => zero_name end.

Section HelperInterp.
  (* meaning of a call `h(l, n)` inside a helper *)
  Variable callee : string -> list name -> name -> bool.

  Fixpoint eval_hcond (e : henv) (c : hcond) : bool :=
    match c with
    | HNot c => negb (eval_hcond e c)
    | HIsSelf v => is_self (hN v e)
    | HEqual a b => name_equal (hN a e) (hN b e)
    | HCallBool h l n => callee h (hL l e) (hN n e)
    end.

  (* `for _, x := range xs`: the slice is evaluated once, before the loop *)
  Fixpoint hloop (body : henv -> henv * option hval) (x : string) (xs : list name) (e : henv) : henv * option hval :=
    match xs with
    | [] => (e, None)
    | n :: r =>
        match body (mkHenv (he_l e) (aset x n (he_n e))) with
        | (e', Some v) => (e', Some v)
        | (e', None) => hloop body x r e'
        end
    end.

  Fixpoint exec_h (s : hstmt) (e : henv) {struct s} : henv * option hval :=
    let seq := fix seq (ss : list hstmt) (e : henv) {struct ss} : henv * option hval :=
      match ss with
      | [] => (e, None)
      | s :: r => match exec_h s e with (e', Some v) => (e', Some v) | (e', None) => seq r e' end
      end in
    match s with
    | HForEach x l body => hloop (seq body) x (hL l e) e
    | HIf c body => if eval_hcond e c then seq body e else (e, None)
    | HAppend l x => (mkHenv (aset l (hL l e ++ [hN x e]) (he_l e)) (he_n e), None)
    | HReturnList l => (e, Some (HVList (hL l e)))
    | HReturnBool b => (e, Some (HVBool b))
    end.

  Fixpoint exec_hs (ss : list hstmt) (e : henv) : henv * option hval :=
    match ss with
    | [] => (e, None)
    | s :: r => match exec_h s e with (e', Some v) => (e', Some v) | (e', None) => exec_hs r e' end
    end.

  (* parameters are bound positionally among the arguments of their type *)
  Fixpoint bind_params (ps : list (string * string)) (ls : list (list name)) (ns : list name) (e : henv) : henv :=
    match ps with
    | [] => e
    | (x, ty) :: r =>
        if String.eqb ty "[]Name" then
          match ls with l :: ls' => bind_params r ls' ns (mkHenv (aset x l (he_l e)) (he_n e)) | [] => e end
        else
          match ns with n :: ns' => bind_params r ls ns' (mkHenv (he_l e) (aset x n (he_n e))) | [] => e end
    end.

  Definition run_helper (h : helper) (ls : list (list name)) (ns : list name) : hval :=
    let e0 := match h_named h with Some r => mkHenv [(r, [])] [] | None => mkHenv [] [] end in
    match snd (exec_hs (h_body h) (bind_params (h_params h) ls ns e0)) with
    | Some v => v
    | None => if String.eqb (h_result h) "bool" then HVBool false else HVList []   (* not Go: a function must return *)
    end.
End HelperInterp.

(* helper calls nest at most once (mergeTwoNamesList -> nameExists): `helpers_ok` checks it *)
Definition call0 : string -> list name -> name -> bool := fun _ _ _ => false.
Definition call1 (t : table) (h : string) (l : list name) (n : name) : bool :=
  match alookup h (t_helpers t) with
  | Some hd => match run_helper call0 hd [l] [n] with HVBool b => b | HVList _ => false end
  | None => false
  end.
Definition call2 (t : table) (h : string) (ls : list (list name)) (ns : list name) : list name :=
  match alookup h (t_helpers t) with
  | Some hd => match run_helper (call1 t) hd ls ns with HVList l => l | HVBool _ => [] end
  | None => []
  end.

Definition ir_append_if_not_self (t : table) (n : name) (l : list name) : list name := call2 t "appendIfNotSelf" [l] [n].
Definition ir_remove_bound (t : table) (l : list name) (b : name) : list name := call2 t "removeBoundName" [l] [b].
Definition ir_merge_names (t : table) (a b : list name) : list name := call2 t "mergeTwoNamesList" [a; b] [].
Definition ir_name_exists (t : table) (l : list name) (c : name) : bool := call1 t "nameExists" l c.

Definition strs_eqb (a b : list string) : bool := if list_eq_dec string_dec a b then true else false.

Fixpoint hcond_calls (c : hcond) : list string :=
  match c with HNot c => hcond_calls c | HCallBool h _ _ => [h] | _ => [] end.
Fixpoint hstmt_calls (s : hstmt) : list string :=
  let all := fix all (ss : list hstmt) : list string := match ss with [] => [] | s :: r => hstmt_calls s ++ all r end in
  match s with
  | HForEach _ _ body => all body
  | HIf c body => hcond_calls c ++ all body
  | _ => []
  end.
Definition helper_calls (h : helper) : list string := flat_map hstmt_calls (h_body h).
(* every called helper exists, has the shape ([]Name, Name) bool, and calls nothing itself *)
Definition helpers_ok (t : table) : bool :=
  forallb (fun '(_, h) =>
    forallb (fun c => match alookup c (t_helpers t) with
                      | Some hd => match helper_calls hd with [] => true | _ => false end
                                   && String.eqb (h_result hd) "bool"
                                   && strs_eqb (map snd (h_params hd)) ["[]Name"; "Name"]
                      | None => false end) (helper_calls h)) (t_helpers t)
  && strs_eqb (map fst (t_helpers t)) ["appendIfNotSelf"; "mergeTwoNamesList"; "nameExists"; "removeBoundName"]
  && match alookup "appendIfNotSelf" (t_helpers t) with Some h => strs_eqb (map snd (h_params h)) ["Name"; "[]Name"] && String.eqb (h_result h) "[]Name" | None => false end
  && match alookup "removeBoundName" (t_helpers t) with Some h => strs_eqb (map snd (h_params h)) ["[]Name"; "Name"] && String.eqb (h_result h) "[]Name" | None => false end
  && match alookup "mergeTwoNamesList" (t_helpers t) with Some h => strs_eqb (map snd (h_params h)) ["[]Name"; "[]Name"] && String.eqb (h_result h) "[]Name" | None => false end.

(* ------------------------------------------------------------------------------------------ *)
(* FreeNames                                                                                   *)
(* ------------------------------------------------------------------------------------------ *)

(* the receiver as FreeNames sees it: Name fields, the FreeNames() of its Form fields (by the
   structural recursion), []Name fields, and the FreeNames() of each element of a branches field *)
Record fctx : Type := mkFctx {
  fc_n : list (field * name);
  fc_free : list (field * list name);
  fc_l : list (field * list name);
  fc_brs : list (field * list (list name)) }.

Definition fvar (v : string) (vars : list (string * list name)) : list name :=
  match alookup v vars with Some l => l | None => [] end.

Section FreeInterp.
  Variable t : table.
  Variable c : fctx.

  Definition eval_n (en : name) (n : nexpr) : name :=
    match n with
    | NField f => match alookup f (fc_n c) with Some x => x | None => zero_name end
    | NElem => en
    end.

  Fixpoint eval_f (en : name) (eb : list name) (vars : list (string * list name)) (e : fexpr) : list name :=
    match e with
    | EVar v => fvar v vars
    | EFree f => match alookup f (fc_free c) with Some l => l | None => [] end
    | EFreeElem => eb
    | EAppendIfNotSelf n e => ir_append_if_not_self t (eval_n en n) (eval_f en eb vars e)
    | ERemoveBound e n => ir_remove_bound t (eval_f en eb vars e) (eval_n en n)
    | EMerge a b => ir_merge_names t (eval_f en eb vars a) (eval_f en eb vars b)
    | EAppendAll a b => eval_f en eb vars a ++ eval_f en eb vars b
    end.

  Fixpoint exec_f (en : name) (eb : list name) (s : fstmt) (vars : list (string * list name)) {struct s} : list (string * list name) :=
    match s with
    | FVarNil v => aset v [] vars
    | FAssign v e => aset v (eval_f en eb vars e) vars
    | FForNames f body =>
        fold_left (fun vs n => (fix seq (ss : list fstmt) (vs : list (string * list name)) {struct ss} :=
                                  match ss with [] => vs | s :: r => seq r (exec_f n eb s vs) end) body vs)
                  (match alookup f (fc_l c) with Some l => l | None => [] end) vars
    | FForBranches f body =>
        fold_left (fun vs b => (fix seq (ss : list fstmt) (vs : list (string * list name)) {struct ss} :=
                                  match ss with [] => vs | s :: r => seq r (exec_f en b s vs) end) body vs)
                  (match alookup f (fc_brs c) with Some l => l | None => [] end) vars
    end.

  Fixpoint exec_fs (ss : list fstmt) (vars : list (string * list name)) : list (string * list name) :=
    match ss with [] => vars | s :: r => exec_fs r (exec_f zero_name [] s vars) end.

  Definition run_fmethod (m : fmethod) : list name :=
    eval_f zero_name [] (exec_fs (fm_body m) []) (fm_ret m).
End FreeInterp.

Definition run_free (t : table) (ty : string) (c : fctx) : list name :=
  match alookup ty (t_free t) with Some m => run_fmethod t c m | None => [] end.

Fixpoint ir_free_names (t : table) (f : form) {struct f} : list name :=
  match f with
  | FSend a b c => run_free t "SendForm" (mkFctx [("to_c", a); ("payload_c", b); ("continuation_c", c)] [] [] [])
  | FRecv p c fr k =>
      run_free t "ReceiveForm" (mkFctx [("payload_c", p); ("continuation_c", c); ("from_c", fr)] [("continuation_e", ir_free_names t k)] [] [])
  | FSel a _ c => run_free t "SelectForm" (mkFctx [("to_c", a); ("continuation_c", c)] [] [] [])
  | FCase fr bs => run_free t "CaseForm" (mkFctx [("from_c", fr)] [] [] [("branches", ir_free_names_brs t bs)])
  | FNew x b k =>
      run_free t "NewForm" (mkFctx [("new_name_c", x)] [("body", ir_free_names t b); ("continuation_e", ir_free_names t k)] [] [])
  | FClose c => run_free t "CloseForm" (mkFctx [("from_c", c)] [] [] [])
  | FWait c k => run_free t "WaitForm" (mkFctx [("to_c", c)] [("continuation_e", ir_free_names t k)] [] [])
  | FFwd a b _ => run_free t "ForwardForm" (mkFctx [("to_c", a); ("from_c", b)] [] [] [])
  | FSplit x y fr k =>
      run_free t "SplitForm" (mkFctx [("channel_one", x); ("channel_two", y); ("from_c", fr)] [("continuation_e", ir_free_names t k)] [] [])
  | FCall _ args _ => run_free t "CallForm" (mkFctx [] [] [("parameters", args)] [])
  | FCast a c => run_free t "CastForm" (mkFctx [("to_c", a); ("continuation_c", c)] [] [] [])
  | FShift x fr k =>
      run_free t "ShiftForm" (mkFctx [("continuation_c", x); ("from_c", fr)] [("continuation_e", ir_free_names t k)] [] [])
  | FDrop c k => run_free t "DropForm" (mkFctx [("client_c", c)] [("continuation_e", ir_free_names t k)] [] [])
  | FPrint _ k => run_free t "PrintForm" (mkFctx [] [("continuation_e", ir_free_names t k)] [] [])
  end
with ir_free_names_brs (t : table) (b : branches) {struct b} : list (list name) :=
  match b with
  | BrNil => []
  | BrCons _ p k r =>
      run_free t "BranchForm" (mkFctx [("payload_c", p)] [("continuation_e", ir_free_names t k)] [] []) :: ir_free_names_brs t r
  end.

(* ------------------------------------------------------------------------------------------ *)
(* FormHasContinuation                                                                         *)
(* ------------------------------------------------------------------------------------------ *)

Definition ir_has_continuation (t : table) (f : form) : bool :=
  match alookup (struct_of f) (fst (t_hascont t)) with Some b => b | None => snd (t_hascont t) end.
(* BranchForm is a Form in Go; the model's `branches` are not forms *)
Definition ir_branch_has_continuation (t : table) : bool :=
  match alookup "BranchForm" (fst (t_hascont t)) with Some b => b | None => snd (t_hascont t) end.

(* ------------------------------------------------------------------------------------------ *)
(* CopyForm                                                                                    *)
(* ------------------------------------------------------------------------------------------ *)

Inductive fval : Type :=
| VName (n : name) | VForm (f : form) | VNames (l : list name) | VBranches (b : branches)
| VStr (s : string) | VBool (b : bool) | VTy (t : option sty).

Definition vN (f : field) (e : list (field * fval)) : name := match alookup f e with Some (VName n) => n | _ => zero_name end.
Definition vF (f : field) (e : list (field * fval)) : form := match alookup f e with Some (VForm x) => x | _ => no_form end.
Definition vL (f : field) (e : list (field * fval)) : list name := match alookup f e with Some (VNames l) => l | _ => [] end.
Definition vB (f : field) (e : list (field * fval)) : branches := match alookup f e with Some (VBranches b) => b | _ => BrNil end.
Definition vS (f : field) (e : list (field * fval)) : string := match alookup f e with Some (VStr s) => s | _ => "" end.
Definition vBool (f : field) (e : list (field * fval)) : bool := match alookup f e with Some (VBool b) => b | _ => false end.
Definition vTy (f : field) (e : list (field * fval)) : option sty := match alookup f e with Some (VTy t) => t | _ => None end.

(* the form a struct value stands for; a field the constructor does not set has Go's zero value *)
Definition build_form (ty : string) (e : list (field * fval)) : form :=
  if String.eqb ty "SendForm" then FSend (vN "to_c" e) (vN "payload_c" e) (vN "continuation_c" e)
  else if String.eqb ty "ReceiveForm" then FRecv (vN "payload_c" e) (vN "continuation_c" e) (vN "from_c" e) (vF "continuation_e" e)
  else if String.eqb ty "SelectForm" then FSel (vN "to_c" e) (vS "label" e) (vN "continuation_c" e)
  else if String.eqb ty "CaseForm" then FCase (vN "from_c" e) (vB "branches" e)
  else if String.eqb ty "NewForm" then FNew (vN "new_name_c" e) (vF "body" e) (vF "continuation_e" e)
  else if String.eqb ty "CloseForm" then FClose (vN "from_c" e)
  else if String.eqb ty "WaitForm" then FWait (vN "to_c" e) (vF "continuation_e" e)
  else if String.eqb ty "ForwardForm" then FFwd (vN "to_c" e) (vN "from_c" e) (vBool "to_drop" e)
  else if String.eqb ty "SplitForm" then FSplit (vN "channel_one" e) (vN "channel_two" e) (vN "from_c" e) (vF "continuation_e" e)
  else if String.eqb ty "CallForm" then FCall (vS "functionName" e) (vL "parameters" e) (vTy "ProviderType" e)
  else if String.eqb ty "CastForm" then FCast (vN "to_c" e) (vN "continuation_c" e)
  else if String.eqb ty "ShiftForm" then FShift (vN "continuation_c" e) (vN "from_c" e) (vF "continuation_e" e)
  else if String.eqb ty "DropForm" then FDrop (vN "client_c" e) (vF "continuation_e" e)
  else if String.eqb ty "PrintForm" then FPrint (vS "label" e) (vF "continuation_e" e)
  else no_form.

(* `orig`: the fields of the receiver; `deep`: its Form / branches fields after CopyForm (by the
   structural recursion).  Name.Copy() and the copy of a name by value are the identity on the
   model's names. *)
Definition eval_carg (orig deep : list (field * fval)) (a : carg) : fval :=
  let get := fun f e => match alookup f e with Some v => v | None => VStr "" end in
  match a with
  | ACopyName f | AShare f | ACopyNames f => get f orig
  | ACopyForm f | ACopyBranches f => get f deep
  end.

Definition apply_ctor (k : ctor) (args : list fval) : list (field * fval) :=
  let ps := combine (c_params k) args in
  map (fun '(f, v) => (f, match v with KParam p => match alookup p ps with Some x => x | None => VStr "" end | KBool b => VBool b end)) (c_inits k).

(* the struct type and field values CopyForm returns for a receiver of Go type `ty` *)
Definition run_copy (t : table) (ty : string) (orig deep : list (field * fval)) : string * list (field * fval) :=
  match alookup ty (t_copy t) with
  | Some cc => match alookup (cc_ctor cc) (t_ctors t) with
               | Some k => (c_struct k, apply_ctor k (map (eval_carg orig deep) (cc_args cc)))
               | None => ("", []) end
  | None => ("", [])         (* Go: panic("modify CopyForm to handle new type") *)
  end.

Definition copy_form_via (t : table) (ty : string) (orig deep : list (field * fval)) : form :=
  let '(ty', e) := run_copy t ty orig deep in build_form ty' e.

Fixpoint ir_copy (t : table) (f : form) {struct f} : form :=
  match f with
  | FSend a b c => copy_form_via t "SendForm" [("to_c", VName a); ("payload_c", VName b); ("continuation_c", VName c)] []
  | FRecv p c fr k =>
      copy_form_via t "ReceiveForm" [("payload_c", VName p); ("continuation_c", VName c); ("from_c", VName fr); ("continuation_e", VForm k)]
                    [("continuation_e", VForm (ir_copy t k))]
  | FSel a l c => copy_form_via t "SelectForm" [("to_c", VName a); ("label", VStr l); ("continuation_c", VName c)] []
  | FCase fr bs => copy_form_via t "CaseForm" [("from_c", VName fr); ("branches", VBranches bs)] [("branches", VBranches (ir_copy_brs t bs))]
  | FNew x b k =>
      copy_form_via t "NewForm" [("new_name_c", VName x); ("body", VForm b); ("continuation_e", VForm k)]
                    [("body", VForm (ir_copy t b)); ("continuation_e", VForm (ir_copy t k))]
  | FClose c => copy_form_via t "CloseForm" [("from_c", VName c)] []
  | FWait c k => copy_form_via t "WaitForm" [("to_c", VName c); ("continuation_e", VForm k)] [("continuation_e", VForm (ir_copy t k))]
  | FFwd a b d => copy_form_via t "ForwardForm" [("to_c", VName a); ("from_c", VName b); ("to_drop", VBool d)] []
  | FSplit x y fr k =>
      copy_form_via t "SplitForm" [("channel_one", VName x); ("channel_two", VName y); ("from_c", VName fr); ("continuation_e", VForm k)]
                    [("continuation_e", VForm (ir_copy t k))]
  | FCall fn args pt => copy_form_via t "CallForm" [("functionName", VStr fn); ("parameters", VNames args); ("ProviderType", VTy pt)] []
  | FCast a c => copy_form_via t "CastForm" [("to_c", VName a); ("continuation_c", VName c)] []
  | FShift x fr k =>
      copy_form_via t "ShiftForm" [("continuation_c", VName x); ("from_c", VName fr); ("continuation_e", VForm k)]
                    [("continuation_e", VForm (ir_copy t k))]
  | FDrop c k => copy_form_via t "DropForm" [("client_c", VName c); ("continuation_e", VForm k)] [("continuation_e", VForm (ir_copy t k))]
  | FPrint l k => copy_form_via t "PrintForm" [("label", VStr l); ("continuation_e", VForm k)] [("continuation_e", VForm (ir_copy t k))]
  end
with ir_copy_brs (t : table) (b : branches) {struct b} : branches :=
  match b with
  | BrNil => BrNil
  | BrCons l p k r =>
      let '(ty', e) := run_copy t "BranchForm" [("label", VStr l); ("payload_c", VName p); ("continuation_e", VForm k)]
                                [("continuation_e", VForm (ir_copy t k))] in
      if String.eqb ty' "BranchForm" then BrCons (vS "label" e) (vN "payload_c" e) (vF "continuation_e" e) (ir_copy_brs t r)
      else BrNil
  end.

(* what CopyForm is on the model's terms: the identity, except that the constructors it goes
   through reset the fields they do not take (NewForward: to_drop = false; NewCall: ProviderType
   = nil; NewNew: derivedFromMacro = false, which the model does not carry) *)
Fixpoint copy_norm (f : form) : form :=
  match f with
  | FRecv p c fr k => FRecv p c fr (copy_norm k)
  | FCase fr bs => FCase fr (copy_norm_brs bs)
  | FNew x b k => FNew x (copy_norm b) (copy_norm k)
  | FWait c k => FWait c (copy_norm k)
  | FFwd a b _ => FFwd a b false
  | FSplit x y fr k => FSplit x y fr (copy_norm k)
  | FCall fn args _ => FCall fn args None
  | FShift x fr k => FShift x fr (copy_norm k)
  | FDrop c k => FDrop c (copy_norm k)
  | FPrint l k => FPrint l (copy_norm k)
  | FSend _ _ _ | FSel _ _ _ | FClose _ | FCast _ _ => f
  end
with copy_norm_brs (b : branches) : branches :=
  match b with
  | BrNil => BrNil
  | BrCons l p k r => BrCons l p (copy_norm k) (copy_norm_brs r)
  end.

(* no droppable forward, no call annotated with its provider type: the terms CopyForm is applied
   to before typechecking, and (for forwards) function and process bodies as written *)
Fixpoint copy_stable (f : form) : bool :=
  match f with
  | FRecv _ _ _ k | FWait _ k | FSplit _ _ _ k | FShift _ _ k | FDrop _ k | FPrint _ k => copy_stable k
  | FCase _ bs => copy_stable_brs bs
  | FNew _ b k => copy_stable b && copy_stable k
  | FFwd _ _ d => negb d
  | FCall _ _ pt => match pt with None => true | Some _ => false end
  | FSend _ _ _ | FSel _ _ _ | FClose _ | FCast _ _ => true
  end
with copy_stable_brs (b : branches) : bool :=
  match b with
  | BrNil => true
  | BrCons _ _ k r => copy_stable k && copy_stable_brs r
  end.

(* no aliasing: every Form / slice field of the original reaches the copy through a deep copy,
   every case goes through the constructor of its own type with the right number of arguments,
   and the constructor sets every field of a reference-carrying type from a parameter *)
Definition carg_deep (t : table) (ty : string) (a : carg) : bool :=
  match a with
  | ACopyName f => String.eqb (ftype t ty f) "Name"
  | ACopyForm f => String.eqb (ftype t ty f) "Form"
  | ACopyBranches f => String.eqb (ftype t ty f) "[]*BranchForm"
  | ACopyNames f => String.eqb (ftype t ty f) "[]Name"
  | AShare f => let x := ftype t ty f in String.eqb x "Name" || String.eqb x "Label" || String.eqb x "string" || String.eqb x "bool"
  end.
Definition copy_case_ok (t : table) (ty : string) : bool :=
  match alookup ty (t_copy t) with
  | Some cc => match alookup (cc_ctor cc) (t_ctors t) with
               | Some k => String.eqb (c_struct k) ty && Nat.eqb (length (c_params k)) (length (cc_args cc))
                           && forallb (carg_deep t ty) (cc_args cc)
               | None => false end
  | None => false
  end.
Definition copy_table_ok (t : table) : bool := forallb (fun '(ty, _) => copy_case_ok t ty) (t_structs t).
