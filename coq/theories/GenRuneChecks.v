(* GenRuneChecks.v — justifies the ONE abstraction of the byte-level scanner model (Scan.v): a rune
   >= 0x80 is seen as one "other" character per byte.  gen/RuneTable.v is regenerated on every run by
   executing the REAL scanner on every rune U+0080..U+10FFFF alone (1,113,984 texts) and, in eleven further
   contexts (after whitespace, inside a label, after the first character of each multi-character
   symbol, inside both kinds of comment), on every rune below U+3000 and one rune per (plane, low
   byte) above.  The theorem: in every context ALL runes behave alike, and the way they behave is what
   the model computes for the byte 200 (token kinds up to and including the first code-0 token). *)
Require Import Grits.Base Grits.Tokens Grits.Scan Grits.gen.RuneTable.
Require Import Coq.NArith.BinNat.

Definition kinds_of (o : scan_out) : option (list tk) :=
  match o with Tokens l => Some (map fst l) | ScanHang => None end.

Fixpoint tks_eqb (a b : list tk) : bool :=
  match a, b with
  | [], [] => true
  | x :: r, y :: s => tk_eqb x y && tks_eqb r s
  | _, _ => false
  end.

Definition other_byte : ascii := Ascii.ascii_of_nat 200.

Definition rune_ctx_ok (row : string * string * list (list tk * N * N)) : bool :=
  let '(pre, suf, groups) := row in
  match groups with
  | [(sig, n, first)] =>
      N.eqb first 128 &&
      match kinds_of (scan_all (pre ^^ String other_byte suf)) with
      | Some ks => tks_eqb ks sig
      | None => false
      end
  | _ => false
  end.

Definition rune_sweep_ok_b : bool :=
  forallb rune_ctx_ok rune_classes &&
  match rune_classes with
  | (_, _, [(_, n, _)]) :: _ => N.eqb n runes_swept && N.eqb runes_swept 1113984   (* the first context is exhaustive *)
  | _ => false
  end &&
  Nat.leb 12 (List.length rune_classes).

(* diagnostics: contexts whose runes do not all behave like the model's "other" byte, with the first rune of
   every deviating group *)
Definition rune_deviations : list (string * string * list (list tk * N * N)) :=
  filter (fun row => negb (rune_ctx_ok row)) rune_classes.
