(* Unfold.v — types/types.go:762 Unfold: follows names until a structural type is reached.
   Go recurses without bound (a non-contractive environment overflows the stack): explicit fuel,
   `Hang` when it runs out; proofs/WFProofs.v shows `unfold_fuel D` suffices for every
   environment that passed SanityChecksTypeDefinitions.  An undefined name gives Go's nil
   (`None`). *)
Require Import Grits.Base Grits.ModeDefs Grits.Modes Grits.STypes.

Fixpoint unfold (fuel : nat) (D : tenv) (t : sty) : outcome (option sty) :=
  match fuel with
  | O => Hang "Unfold"
  | S f =>
    match t with
    | TName x _ =>
      match tlookup D x with
      | Some d => unfold f D (td_body d)
      | None => Ok None
      end
    | _ => Ok (Some t)
    end
  end.

Definition unfold_fuel (D : tenv) : nat := S (length D).

Definition is_name (t : sty) : bool := match t with TName _ _ => true | _ => false end.
